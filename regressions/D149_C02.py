# Extra finding (not in the brief): merge(on=0) joins on every common column
import sys
import dask
import pandas as pd
import dask_expr as dx

dask.config.set(scheduler="sync")
bad = 0


def check(name, build, exp):
    global bad
    try:
        got = build().compute().reset_index(drop=True)
        exp = exp.reset_index(drop=True)
        got = got.sort_values(list(got.columns)).reset_index(drop=True)
        exp = exp.sort_values(list(exp.columns)).reset_index(drop=True)
        pd.testing.assert_frame_equal(got, exp, check_dtype=False)
    except Exception as e:
        bad += 1
        print("FAIL", name, type(e).__name__, str(e).splitlines()[0] if str(e) else "")


L = pd.DataFrame({0: [1, 2, 3, 1, 2, 3], 1: [1, 1, 2, 2, 3, 3], "x": range(6)})
R = pd.DataFrame({0: [3, 2, 1, 3], 1: [1, 2, 3, 4], "y": range(10, 14)})
l, r = dx.from_pandas(L, 3), dx.from_pandas(R, 2)
for how in ("inner", "left", "outer"):
    check(f"on=0 {how}", lambda: l.merge(r, on=0, how=how), L.merge(R, on=0, how=how))
check("on=[0]", lambda: l.merge(r, on=[0]), L.merge(R, on=[0]))
check("left_on=0,right_on=1", lambda: l.merge(r, left_on=0, right_on=1), L.merge(R, left_on=0, right_on=1))
check("left_on=1,right_on=0", lambda: l.merge(r, left_on=1, right_on=0), L.merge(R, left_on=1, right_on=0))
check("left_on=0,right_on=0", lambda: l.merge(r, left_on=0, right_on=0), L.merge(R, left_on=0, right_on=0))
check("pandas right, right_index, left_on=0", lambda: l.merge(R.set_index(1), left_on=0, right_index=True), L.merge(R.set_index(1), left_on=0, right_index=True))
check("default keys", lambda: l.merge(r), L.merge(R))
check("on='x' strings", lambda: l.rename(columns={0: "a"}).merge(r.rename(columns={0: "a"}), on="a"), L.rename(columns={0: "a"}).merge(R.rename(columns={0: "a"}), on="a"))
sys.exit(1 if bad else 0)
