import sys
import dask
import pandas as pd
from dask_expr import from_pandas

dask.config.set(scheduler="sync")
pdf = pd.DataFrame({"a": [1, 2, 1, 2, 3, 3], "b": range(6), "c": [5.0, 4, 3, 2, 1, 0]})
df = from_pandas(pdf, npartitions=2)
bad = []

# groupby.agg: the order of the spec is the order of the output columns
q1 = df.groupby("a").agg({"b": "sum", "c": "max"})
q2 = df.groupby("a").agg({"c": "max", "b": "sum"})
if q1._name == q2._name:
    bad.append("groupby.agg specs in different order share a name")
if q2.expr is q1.expr:
    bad.append("q2 is q1")
e2 = pdf.groupby("a").agg({"c": "max", "b": "sum"})
if list(q2.columns) != list(e2.columns):
    bad.append("q2 columns %s, pandas %s" % (list(q2.columns), list(e2.columns)))
r2 = q2.compute()
if list(r2.columns) != list(e2.columns):
    bad.append("q2 result columns %s, pandas %s" % (list(r2.columns), list(e2.columns)))
e1 = pdf.groupby("a").agg({"b": "sum", "c": "max"})
if list(q1.compute().columns) != list(e1.columns):
    bad.append("q1 result columns wrong")

# frame reduction-like agg through map_partitions kwargs: dict operand order visible to the function
def f(part, spec=None):
    return part.assign(order="".join(spec))

m1 = df.map_partitions(f, spec={"x": 1, "y": 2})
m2 = df.map_partitions(f, spec={"y": 2, "x": 1})
if m1._name == m2._name:
    bad.append("map_partitions with reordered dict argument shares a name")
if set(m2.compute()["order"]) != {"yx"} or set(m1.compute()["order"]) != {"xy"}:
    bad.append("map_partitions saw the dict of the other query")

# a dict nested in a list operand
def g(part, specs=None):
    return part.assign(order="".join(specs[0]))

l1 = df.map_partitions(g, specs=[{"x": 1, "y": 2}])
l2 = df.map_partitions(g, specs=[{"y": 2, "x": 1}])
if l1._name == l2._name:
    bad.append("map_partitions with a reordered dict nested in a list shares a name")

# same content, same order -> still the same name (sharing is kept)
q3 = df.groupby("a").agg({"b": "sum", "c": "max"})
if q3._name != q1._name:
    bad.append("identical queries no longer share a name")
r1 = df.rename(columns={"b": "B", "c": "C"})
r1b = df.rename(columns={"b": "B", "c": "C"})
if r1._name != r1b._name:
    bad.append("identical rename queries no longer share a name")

for b in bad:
    print("DEFECT:", b)
sys.exit(1 if bad else 0)
