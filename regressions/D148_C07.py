import sys
import dask
import pandas as pd
import dask_expr as dx

dask.config.set(scheduler="sync")
bad = 0


def check(name, pser, method, **kw):
    global bad
    try:
        ds = dx.from_pandas(pser, 2)
        q = getattr(ds.str, method)(**kw)
        exp = getattr(pser.str, method)(**kw)
        got = q.compute()
        if list(q.columns) != list(exp.columns):
            raise AssertionError(f"declared columns {list(q.columns)}, pandas has {list(exp.columns)}")
        pd.testing.assert_frame_equal(got, exp, check_dtype=False)
        # selecting a declared column works as well
        pd.testing.assert_series_equal(q[exp.columns[-1]].compute(), exp[exp.columns[-1]], check_dtype=False)
    except Exception as e:
        bad += 1
        print("FAIL", name, kw, type(e).__name__, str(e).splitlines()[0] if str(e) else "")


s = pd.Series(["a b c", "d e f"])
check("regex whitespace", s, "split", pat=r"\s+", n=2, expand=True)
check("regex whitespace n=1", s, "split", pat=r"\s+", n=1, expand=True)
for method in ("split", "rsplit"):
    # rsplit always takes the pattern literally
    check("default", s, method, n=2, expand=True)
    check("literal space", s, method, pat=" ", n=2, expand=True)
    check("literal space n=1", s, method, pat=" ", n=1, expand=True)
    check("literal multi-char", pd.Series(["a--b--c", "d--e--f"]), method, pat="--", n=2, expand=True)
s2 = pd.Series(["a1b22c", "d3e44f"])
check("regex digits", s2, "split", pat=r"\d+", n=2, expand=True)
s3 = pd.Series(["a||b||c", "d||e||f"])
check("alternation", pd.Series(["a,b;c", "d;e,f"]), "split", pat=",|;", n=2, expand=True)
check("literal dot", pd.Series(["a.b.c", "d.e.f"]), "split", pat=".", n=2, expand=True)
check("literal multi-char", pd.Series(["a--b--c", "d--e--f"]), "split", pat="--", n=2, expand=True)
sys.exit(1 if bad else 0)
