"""A scalar selected from a column-wise reduction of a frame with string columns: the optimized plan raised
AttributeError: 'str' object has no attribute 'ndim' (Projection._simplify_down compared self._meta.ndim; the meta of a scalar
taken from an object Series is a plain str)."""
import sys
import dask
import pandas as pd
import dask_expr as dx

dask.config.set(scheduler="sync")
bad = []
pdf = pd.DataFrame({"z": [1.0, 2, 3, 0, 5, 6], "s": list("abcabc"), "a": [10, 20, 3, 40, 50, 60], "t": list("xyzxyz"), "k": [5, 3, 1, 7, 8, 9.0]})
for npart in (1, 2, 3):
    df = dx.from_pandas(pdf, npartitions=npart)
    for cols in (list(pdf.columns), list(pdf.columns)[::-1], ["s", "z", "a"]):
        d = df[cols]
        for stat in ("sum", "min", "max", "count"):
            full = getattr(pdf[cols], stat)()
            for label in cols:
                for q in (getattr(d, stat)()[[label]][label], getattr(d, stat)()[label]):
                    try:
                        got = q.compute()
                    except Exception as e:
                        bad.append((npart, cols, stat, label, "raises %s: %s" % (type(e).__name__, e)))
                        continue
                    if got != full[label]:
                        bad.append((npart, cols, stat, label, got, full[label]))
for b in bad[:10]:
    print(b)
print("failures:", len(bad))
sys.exit(1 if bad else 0)
