"""I6: column selection of groupby(...)[[cols]].rolling(...).agg().

``query[selection].compute()`` is compared with ``query.compute()[selection]`` (the
rolling windows of dask do not cross partition boundaries the way pandas' do for
groups, so pandas is only the reference on a single partition).
"""
import sys

import dask
import numpy as np
import pandas as pd

import dask_expr

dask.config.set(scheduler="sync")

pdf = pd.DataFrame(
    {
        "k": [1, 2, 1, 2, 3, 3, 1, 2, 1, 2, 3, 1],
        "a": [1.0, 2.0, 3.4, 2.0, 5.0, 6.6, 2.5, 8.0, 1.0, 0.5, 2.0, 4.0],
        "b": [8.0, 7.0, 1.0, 5.0, 4.0, 3.0, 2.0, 0.0, 1.0, 2.0, 3.0, 4.0],
        "c": [1, 2, 3, 4, 5, 6, 7, 8, 9, 10, 11, 12],
    }
)

queries = {
    "slice [a,b]": lambda d: d.groupby("k")[["a", "b"]].rolling(3).sum(),
    "slice [a,b,c]": lambda d: d.groupby("k")[["a", "b", "c"]].rolling(2).mean(),
    "slice [a,b], by list": lambda d: d.groupby(["k"])[["a", "b"]].rolling(3).max(),
    "slice [a]": lambda d: d.groupby("k")[["a"]].rolling(3).sum(),
    "no slice": lambda d: d.groupby("k").rolling(3).sum(),
    "by series, slice": lambda d: d.groupby(d.k)[["a", "b"]].rolling(3).sum(),
    "plain rolling": lambda d: d.rolling(3).sum(),
}
selections = ["a", ["a"], ["b", "a"], "b", ["c", "a"]]

bad = 0
for npartitions in (3, 1):
    df = dask_expr.from_pandas(pdf, npartitions=npartitions)
    for name, q in queries.items():
        full = q(df).compute()
        for sel in selections:
            if not all(c in full.columns for c in (sel if isinstance(sel, list) else [sel])):
                continue
            try:
                got = q(df)[sel].compute()
                expected = [full[sel]] + ([q(pdf)[sel]] if npartitions == 1 else [])
                for exp in expected:
                    if isinstance(exp, pd.Series):
                        pd.testing.assert_series_equal(got.sort_index(), exp.sort_index())
                    else:
                        pd.testing.assert_frame_equal(got.sort_index(), exp.sort_index())
            except Exception as e:
                bad += 1
                print(
                    f"FAIL [{name}][{sel!r}] npartitions={npartitions}: "
                    f"{type(e).__name__}: {str(e)[:200]}"
                )

# the pruning itself has to survive
df = dask_expr.from_pandas(pdf, npartitions=3)
q = df.groupby("k")[["a", "b"]].rolling(3).sum()["a"]
try:
    tree = q.optimize(fuse=False).expr.tree_repr()
    if "columns=['k', 'a']" not in tree:
        bad += 1
        print("FAIL: unused column b is still read\n" + tree)
except Exception as e:
    bad += 1
    print(f"FAIL optimize: {type(e).__name__}: {str(e)[:200]}")

print("failures:", bad)
sys.exit(1 if bad else 0)
