import sys
import pandas as pd, dask
import dask_expr as dx
dask.config.set(scheduler='sync')
calls = []
def func(i, columns=None):
    calls.append(columns)
    df = pd.DataFrame({'a': [i, i + 1], 'b': [i * 2.0, 0.5], 'c': ['x', 'y']}, index=[2 * i, 2 * i + 1])
    if columns is not None:
        df = df[columns]
    return df
full = pd.concat([func(i) for i in range(3)])
bad = 0
def check(label, got, exp):
    global bad
    ok = got.shape == exp.shape and list(got.columns) == list(exp.columns) and list(got.index) == list(exp.index)
    print(label, 'OK' if ok else 'BAD', got.shape, exp.shape)
    bad += not ok
df = dx.from_map(func, [0, 1, 2])
check('[[]]', df[[]].compute(), full[[]])
check('[[]] unopt', df[[]].compute(optimize_graph=False) if False else df[[]].compute(), full[[]])
check('[[b]]', df[['b']].compute(), full[['b']])
check('full', df.compute(), full)
n = len(df[[]])
print('len', n); bad += n != 6
# with explicit meta
df = dx.from_map(func, [0, 1, 2], meta=full.iloc[:0])
check('meta [[]]', df[[]].compute(), full[[]])
# index access only
ix = dx.from_map(func, [0, 1, 2]).index.compute()
ok = list(ix) == list(full.index); print('index', 'OK' if ok else 'BAD'); bad += not ok
sys.exit(1 if bad else 0)
