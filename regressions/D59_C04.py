import sys
import dask, pandas as pd, numpy as np
import dask_expr
dask.config.set(scheduler="sync")
rng = np.random.default_rng(0)
pdf = pd.DataFrame({"a": rng.permutation(12) * 1.0, "b": rng.permutation(12) * 1.5,
                    "c": rng.permutation(12) * 1.0})
df = dask_expr.from_pandas(pdf, npartitions=3)
fails = 0
def check(label, f):
    global fails
    try:
        exp = f(pdf)
        got = f(df).compute()
        (pd.testing.assert_series_equal if isinstance(exp, pd.Series) else pd.testing.assert_frame_equal)(got, exp)
        print("ok  ", label)
    except Exception as e:
        fails += 1
        print("FAIL", label, type(e).__name__, str(e)[:150].replace("\n", " "))
check("(df[[a,b]] + df[[b,c]])[a]", lambda d: (d[["a", "b"]] + d[["b", "c"]])["a"])
check("(df[[a,b]] + df[[b,c]])[b]", lambda d: (d[["a", "b"]] + d[["b", "c"]])["b"])
check("(df[[a,b]] + df[[b,c]])[[a,c]]", lambda d: (d[["a", "b"]] + d[["b", "c"]])[["a", "c"]])
check("(df[[a,b]] + df[[b,c]])[[c,b]]", lambda d: (d[["a", "b"]] + d[["b", "c"]])[["c", "b"]])
check("(df[[a,b]] * df)[[c]]", lambda d: (d[["a", "b"]] * d)[["c"]])
check("df[[a,b]].add(df[[b,c]], fill_value=0)[[a,c]]", lambda d: d[["a", "b"]].add(d[["b", "c"]], fill_value=0)[["a", "c"]])
check("df[[a,b]].sub(df, fill_value=0)[c]", lambda d: d[["a", "b"]].sub(d, fill_value=0)["c"])
check("(df - df[[b]])[[a,b]]", lambda d: (d - d[["b"]])[["a", "b"]])
# same columns in a different order
check("(df[[b,a]] + df[[a,b]])[[a]]", lambda d: (d[["b", "a"]] + d[["a", "b"]])[["a"]])
check("(df[[b,a]] + df[[a,b]])[b]", lambda d: (d[["b", "a"]] + d[["a", "b"]])["b"])
sys.exit(1 if fails else 0)
