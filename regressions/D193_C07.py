import sys
import os
sys.path.insert(0, os.path.dirname(os.path.abspath(__file__)))
import pandas as pd
import fixV_common as common  # noqa: F401
from dask_expr import from_pandas

pdf = pd.DataFrame({"a": range(10), "b": range(10, 20)})
ps = pd.Series(range(10))
pf = pd.Series([0.5] * 9, index=range(9))
d = from_pandas(pdf, npartitions=3)
rc = 0


def describe(obj):
    if obj.ndim == 2:
        return (type(obj).__name__, list(obj.columns), [str(t) for t in obj.dtypes])
    return (type(obj).__name__, obj.name, str(obj.dtype))


def check(name, q, expected):
    global rc
    declared = describe(q._meta)
    optimized = describe(q.optimize()._meta)
    computed = describe(q.compute())
    exp = describe(expected)
    ok = declared == optimized == computed == exp
    print(name, "declared", declared, "optimized", optimized, "computed", computed, "pandas", exp,
          "OK" if ok else "MISMATCH")
    if not ok:
        rc = 1
    if not q.compute().sort_index().equals(expected.sort_index()):
        print("  values differ")
        rc = 1


s = from_pandas(ps, npartitions=2)
check("add axis=0", d.add(s, axis=0), pdf.add(ps, axis=0))
check("add axis=index", d.add(s, axis="index"), pdf.add(ps, axis="index"))
check("mul axis=0", d.mul(s, axis=0), pdf.mul(ps, axis=0))
# fill_value: an int frame plus a float fill value
d2 = from_pandas(pdf.iloc[:, :1], npartitions=2)
check("frame add fill_value", d.add(d2, fill_value=0.5), pdf.add(pdf.iloc[:, :1], fill_value=0.5))
sa = from_pandas(pdf.a, npartitions=3)
check("series add fill_value", sa.add(s, fill_value=1), pdf.a.add(ps, fill_value=1))
sys.exit(rc)
