import sys
import dask, pandas as pd, numpy as np
import dask_expr
dask.config.set(scheduler="sync")
rng = np.random.default_rng(0)
pdf = pd.DataFrame({"a": rng.integers(0, 3, 30), "b": rng.normal(size=30), "c": rng.normal(size=30),
                    "d": rng.normal(size=30)})
df = dask_expr.from_pandas(pdf, npartitions=3)
fails = 0
def check(label, f, sort=False):
    global fails
    try:
        exp = f(pdf)
        got = f(df).compute()
        if sort:
            got = got.sort_index(); exp = exp.sort_index()
        (pd.testing.assert_series_equal if isinstance(exp, pd.Series) else pd.testing.assert_frame_equal)(got, exp)
        print("ok  ", label)
    except Exception as e:
        fails += 1
        print("FAIL", label, type(e).__name__, str(e)[:150].replace("\n", " "))
for m in ["sum", "mean", "min", "max", "count", "std", "var", "median"]:
    check(f"rolling(3).{m}()[[b]]", lambda d, m=m: getattr(d.rolling(3), m)()[["b"]])
    check(f"rolling(3).{m}()[b]", lambda d, m=m: getattr(d.rolling(3), m)()["b"])
    check(f"rolling(3).{m}()[[c,b]]", lambda d, m=m: getattr(d.rolling(3), m)()[["c", "b"]])
    check(f"rolling(3).{m}()[[a,b,c,d]]", lambda d, m=m: getattr(d.rolling(3), m)()[["a", "b", "c", "d"]])
check("rolling(3).apply(sum)[[d,b]]", lambda d: d.rolling(3).apply(lambda x: x.sum())[["d", "b"]])
# groupby().rolling() differs from pandas across partitions independently of the
# projection, so compare with the full result selected afterwards
try:
    q = df.groupby("a").rolling(3).sum()
    pd.testing.assert_frame_equal(q[["c", "b"]].compute().sort_index(), q.compute().sort_index()[["c", "b"]])
    pd.testing.assert_series_equal(q["c"].compute().sort_index(), q.compute().sort_index()["c"])
    print("ok   groupby(a).rolling(3).sum()[[c,b]] / [c]")
except Exception as e:
    fails += 1
    print("FAIL groupby rolling", type(e).__name__, str(e)[:150])
sys.exit(1 if fails else 0)
