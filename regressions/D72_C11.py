from fixE_common import *

pdf = pd.DataFrame({"x": np.arange(100), "y": np.arange(100) % 7}, index=pd.Index(np.arange(1000, 1100), name="i"))
df = dask_expr.from_pandas(pdf, npartitions=10)

for name, r in [
    ("df.reset_index()", df.reset_index()),
    ("df.reset_index(drop=True)", df.reset_index(drop=True)),
    ("df.x.reset_index()", df.x.reset_index()),
    ("df.x.reset_index(drop=True)", df.x.reset_index(drop=True)),
    ("df.reset_index().x", df.reset_index().x),
    ("(df.reset_index() + 1)", df.reset_index() + 1),
    ("df[df.y > 2].reset_index()", df[df.y > 2].reset_index()),
]:
    ps = parts(r)
    full = r.compute()
    check(full.equals(pd.concat(ps)), f"{name}: compute() is the concatenation of the partitions")
    check(list(full.index[:12]) == list(range(10)) + [0, 1] or "y > 2" in name, f"{name}: every partition is labeled from 0")
    for n in [3, 1] if "y > 2" in name else [3, 1, 10]:
        t = r.tail(n)
        check(t.equals(full.tail(n)), f"{name}.tail({n}) index {list(t.index)} == {list(full.tail(n).index)}")
        h = r.head(n)
        check(h.equals(full.head(n)), f"{name}.head({n}) index {list(h.index)} == {list(full.head(n).index)}")
    for sel in [0, 3, [9], [2, 5], [5, 2]]:
        got = parts(r.partitions[sel].optimize())
        idx = [sel] if isinstance(sel, int) else sel
        check(
            len(got) == len(idx) and all(g.equals(ps[i]) for g, i in zip(got, idx)),
            f"{name}.partitions[{sel}] are the selected partitions",
        )
    divisions_truthful(r, name)

# tail is still pushed through real elementwise operations
q = (df + 1).tail(3, compute=False).optimize(fuse=False)
check(type(q.expr).__name__ != "BlockwiseTail", "Tail is still pushed below elementwise operations: " + type(q.expr).__name__)
finish()
