"""M5: Series.str.cat(sep=...) adds a separator for every all-null or empty partition."""
import sys
import numpy as np
import pandas as pd
import dask
import dask_expr as dx

dask.config.set(scheduler="sync")
bad = []

SERIES = {
    "a,None,b": ["a", None, "b"],
    "leading-null": [None, None, "a", "b", None, "c"],
    "all-null": [None, None, None],
    "with-empty-string": ["a", "", "b", None, "", "c"],
    "long": ["x", None, None, None, "y", "z", None, None, "w", None] * 2,
}

for name, values in SERIES.items():
    pdf = pd.DataFrame({"v": pd.Series(values, dtype=object), "i": range(len(values))})
    for k in (1, 2, 3, len(values)):
        ddf = dx.from_pandas(pdf, npartitions=k, sort=False)
        half = len(values) // 2
        variants = {
            "plain": (ddf.v, pdf.v),
            # rows are removed by position, so some partitions become empty
            "empty-leading-partitions": (ddf[ddf.i >= half].v, pdf[pdf.i >= half].v),
            "empty-inner-partitions": (ddf[(ddf.i < 1) | (ddf.i >= half)].v, pdf[(pdf.i < 1) | (pdf.i >= half)].v),
        }
        for vname, (d, p) in variants.items():
            for kwargs in ({}, {"sep": ","}, {"sep": ",", "na_rep": "?"}, {"na_rep": "-"}):
                exp = p.str.cat(**kwargs)
                try:
                    got = d.str.cat(**kwargs).compute()
                except Exception as e:  # noqa
                    got = repr(e)
                if got != exp:
                    bad.append((name, k, vname, kwargs, got, exp))

for b in bad:
    print("MISMATCH", b)
print("M5", "DEFECT PRESENT" if bad else "ok")
sys.exit(1 if bad else 0)
