import sys
import numpy as np, pandas as pd, dask
import dask_expr as dx
from dask_expr import from_pandas
dask.config.set(scheduler="sync")
bad = []
pdf = pd.DataFrame({'a': np.arange(20.), 'b': np.arange(20) * 3})

def closed(c):
    g = dict(c.optimize().__dask_graph__())
    def refs(o):
        if isinstance(o, tuple) and o and isinstance(o[0], str) and len(o) == 2 and isinstance(o[1], int) and any(k[0] == o[0] for k in g if isinstance(k, tuple)):
            yield o
        elif isinstance(o, (list, tuple)):
            for x in o: yield from refs(x)
        elif isinstance(o, dict):
            for x in o.values(): yield from refs(x)
    missing = {r for v in g.values() for r in refs(v) if r not in g}
    assert not missing, f"graph not closed: {sorted(missing)[:3]}"

def f(x, y):
    assert isinstance(y, (pd.DataFrame, pd.Series)), f"got a {type(y).__name__}: {y!r}"
    return x.assign(c=y.b.reindex(x.index) if isinstance(y, pd.DataFrame) else y.reindex(x.index))

def check(name, make, ok_to_raise=True):
    try:
        try:
            c = make()
        except (ValueError, NotImplementedError) as ex:
            if ok_to_raise:
                return
            raise
        closed(c)
        got = c.compute()
        pd.testing.assert_frame_equal(got, pdf.assign(c=pdf.b), check_dtype=False)
    except Exception as ex:
        bad.append(name); print("FAIL", name, type(ex).__name__, str(ex)[:110])

df = from_pandas(pdf, 5)
df2 = from_pandas(pdf, 2)
df2u = df2.clear_divisions()
df1 = from_pandas(pdf, 1)
meta = pdf.assign(c=0)
check("5-vs-2", lambda: dx.map_partitions(f, df, df2, meta=meta))
check("5-vs-2-method", lambda: df.map_partitions(f, df2, meta=meta))
check("5-vs-2-unknown", lambda: dx.map_partitions(f, df, df2u, meta=meta))
check("5-vs-2-series", lambda: df.map_partitions(f, df2.b, meta=meta))
check("2-vs-5", lambda: df2.map_partitions(lambda x, y: x.assign(c=x.b), df, meta=meta))
check("5-vs-2-kw", lambda: df.map_partitions(lambda x, y=None: f(x, y), y=df2, meta=meta))
# still fine: same partitioning, and a single partition is broadcast
check("5-vs-5", lambda: df.map_partitions(f, from_pandas(pdf, 5), meta=meta), ok_to_raise=False)
check("5-vs-1", lambda: df.map_partitions(f, df1, meta=meta), ok_to_raise=False)
check("5-vs-scalar", lambda: df.map_partitions(lambda x, s: x.assign(c=x.b + 0 * s), df.a.sum(), meta=meta), ok_to_raise=False)
print("bad:", bad)
sys.exit(1 if bad else 0)
