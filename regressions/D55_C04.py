import sys
import dask, pandas as pd, numpy as np
import dask_expr
dask.config.set(scheduler="sync")
pdf = pd.DataFrame({"a": np.arange(9), "b": np.arange(9) * 2, "c": np.arange(9.0)})
df = dask_expr.from_pandas(pdf, npartitions=3)
fails = 0
def check(label, f):
    global fails
    exp = f(pdf)
    try:
        got = f(df).compute()
        if isinstance(exp, pd.Series):
            pd.testing.assert_series_equal(got, exp)
        else:
            pd.testing.assert_frame_equal(got, exp)
        print("ok  ", label)
    except Exception as e:
        fails += 1
        print("FAIL", label, type(e).__name__, str(e)[:200])
check("rename({x:a})[a]", lambda d: d.rename(columns={"x": "a"})["a"])
check("rename({x:a})[[a,b]]", lambda d: d.rename(columns={"x": "a"})[["a", "b"]])
check("rename({x:a, b:z})[[a,z]]", lambda d: d.rename(columns={"x": "a", "b": "z"})[["a", "z"]])
check("rename({a:b, b:a})[a]", lambda d: d.rename(columns={"a": "b", "b": "a"})["a"])
check("rename({a:z})[z]", lambda d: d.rename(columns={"a": "z"})["z"])
check("rename({a:z})[[z,c]]", lambda d: d.rename(columns={"a": "z"})[["z", "c"]])
# duplicate labels after rename: a->b gives two 'b' columns
check("rename({a:b})[c]", lambda d: d.rename(columns={"a": "b"})["c"])
check("rename({a:b})[b]", lambda d: d.rename(columns={"a": "b"})["b"])
sys.exit(1 if fails else 0)
