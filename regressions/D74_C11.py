from fixE_common import *

pdf = pd.DataFrame({"x": np.arange(100)}, index=np.arange(100))
df = dask_expr.from_pandas(pdf, npartitions=10)
first, last = parts(df)[0], parts(df)[-1]

for m in [5, -2, 12, -12, 0]:
    for n in [3, -2, 7, -7, 0]:
        for kind, part in [("head", first), ("tail", last)]:
            q = getattr(getattr(df, kind)(m, compute=False), kind)(n, compute=False)
            exp = getattr(getattr(part, kind)(m), kind)(n)
            import warnings
            with warnings.catch_warnings():
                warnings.simplefilter("ignore")
                got_unopt = dask.get(q.expr.lower_completely().__dask_graph__(), q.expr.lower_completely().__dask_keys__())[0]
                got = q.compute()
            check(got.equals(exp), f"df.{kind}({m}).{kind}({n}): {len(got)} rows, expected {len(exp)}")
            check(got_unopt.equals(exp), f"df.{kind}({m}).{kind}({n}) unoptimized: {len(got_unopt)} rows, expected {len(exp)}")

# nested heads of the same sign are still merged
q = df.head(5, compute=False).head(3, compute=False).optimize(fuse=False)
check(len([e for e in q.expr.walk() if "Head" in type(e).__name__]) == 1, "head(5).head(3) is one Head")
q = df.head(-5, compute=False).head(-3, compute=False).optimize(fuse=False)
check(len([e for e in q.expr.walk() if "Head" in type(e).__name__]) == 1, "head(-5).head(-3) is one Head")
finish()
