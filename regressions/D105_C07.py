import sys
import dask
import pandas as pd
import dask_expr as dx

dask.config.set(scheduler="sync")
bad = []

pdf = pd.DataFrame({"a": [1.0, 2.0, 4.0, 8.0, 16.0, 3.0], "b": [3.0, 1.0, 4.0, 1.0, 5.0, 9.0]})
pdf.columns.name = "foo"
d2 = dx.from_pandas(pdf, npartitions=2)
assert d2._meta.columns.name == "foo"

for method in ("skew", "kurtosis", "var", "sum", "mean", "count", "std"):
    coll = getattr(d2, method)()
    for label, c in (("plain", coll), ("optimized", coll.optimize())):
        got = c.compute()
        names = (c._meta.index.name, got.index.name)
        if names != ("foo", "foo"):
            bad.append(f"{method}/{label}: declared index name {names[0]!r}, computed {names[1]!r}")
        if list(got.index) != ["a", "b"]:
            bad.append(f"{method}/{label}: index {list(got.index)}")

# Series still reduce to scalars
for method in ("skew", "kurtosis"):
    got = getattr(d2.a, method)().compute()
    if not isinstance(got, float):
        bad.append(f"Series.{method}: {type(got)}")

for b in bad:
    print("DEFECT:", b)
sys.exit(1 if bad else 0)
