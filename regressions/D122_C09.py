import pickle
import sys
import numpy as np, pandas as pd, dask
from dask_expr import from_pandas
from dask_expr._core import Expr
from dask_expr._collection import FrameBase

dask.config.set(scheduler="sync")
bad = []
pdf = pd.DataFrame({"a": [1, 2, 3, 4, 5, 6, 1, 2], "b": np.arange(8)})
df = from_pandas(pdf, npartitions=3)


def embedded(obj, seen=None):
    """Expr / collection objects found inside the tasks of a graph"""
    found = []
    stack = [obj]
    while stack:
        o = stack.pop()
        if isinstance(o, (Expr, FrameBase)):
            found.append(type(o).__name__)
        elif isinstance(o, dict):
            stack.extend(o.keys())
            stack.extend(o.values())
        elif isinstance(o, (list, tuple, set)):
            stack.extend(o)
    return found


def check(tag, make, expected):
    try:
        res = make()
    except (TypeError, ValueError, NotImplementedError) as e:
        # rejecting the argument with a clear error is acceptable
        print(f"{tag}: rejected with {type(e).__name__}: {str(e)[:90]}")
        return
    try:
        graph = dict(res.optimize().__dask_graph__())
        emb = embedded(graph)
        if emb:
            bad.append(f"{tag}: graph embeds {sorted(set(emb))}")
        with dask.config.set({"dask-expr-no-serialize": True}):
            try:
                pickle.dumps(graph)
            except RuntimeError as e:
                bad.append(f"{tag}: graph not picklable under the guard ({e})")
            except Exception:
                pass  # lambdas etc. need cloudpickle; not what is checked here
        got = res.compute()
    except Exception as e:
        bad.append(f"{tag}: {type(e).__name__}: {str(e)[:100]}")
        return
    exp = expected()
    ok = got.equals(exp) if hasattr(got, "equals") else got == exp
    if not ok and hasattr(got, "sort_index"):
        ok = got.sort_index().equals(exp.sort_index())  # row order is not checked
    if not ok:
        try:
            pd.testing.assert_equal(got, exp)
            ok = True
        except Exception:
            pass
    if not ok:
        bad.append(f"{tag}: result differs from pandas\n{got}\n--- expected\n{exp}")


def f(x, k=0):
    return x + k


# 1. Scalar / collection as a keyword argument of map_partitions
check("map_partitions(f, k=df.a.sum())", lambda: df.map_partitions(f, k=df.a.sum()), lambda: pdf + pdf.a.sum())
check("map_partitions(f, df.a.sum()) [positional control]", lambda: df.map_partitions(f, df.a.sum()), lambda: pdf + pdf.a.sum())
check("series.map_partitions(f, k=scalar)", lambda: df.b.map_partitions(f, k=df.a.max()), lambda: pdf.b + pdf.a.max())
check("map_partitions(f, k=3) [plain control]", lambda: df.map_partitions(f, k=3), lambda: pdf + 3)

# 2. replace with an expression as the value
check("replace(1, value=df.a.max())", lambda: df.a.replace(1, value=df.a.max()), lambda: pdf.a.replace(1, value=pdf.a.max()))
check("replace(1, df.a.max())", lambda: df.a.replace(1, df.a.max()), lambda: pdf.a.replace(1, pdf.a.max()))

# 3. groupby.apply with a collection as extra argument.  NOT repaired (reported as
# "not small and safe"): shown for information, does not count for the exit code.
n_bad = len(bad)
check(
    "groupby.apply(func, df.b.sum())",
    lambda: df.groupby("a").b.apply(lambda g, k: g + k, df.b.sum(), meta=("b", "i8")),
    lambda: pdf.groupby("a").b.apply(lambda g, k: g + k, pdf.b.sum()).sort_index(),
)
for b in bad[n_bad:]:
    print("KNOWN, not repaired:", b)
del bad[n_bad:]

# 4. groupby(expr).rolling
check(
    "groupby(df.a % 2).b.rolling(2).sum()",
    lambda: df.groupby(df.a % 2).b.rolling(2).sum(),
    lambda: pdf.groupby(pdf.a % 2).b.rolling(2).sum(),
)

for b in bad:
    print("DEFECT:", b)
sys.exit(1 if bad else 0)
