import pandas as pd, numpy as np, dask
import dask_expr as dx
dask.config.set(scheduler="sync")
pdf = pd.DataFrame({"a": [i % 5 for i in range(40)], "b": range(40), "c": range(40, 0, -1)})
pdf2 = pd.DataFrame({"a": [1, 2, 3], "z": [7, 8, 9]})
df, df2 = dx.from_pandas(pdf, npartitions=3), dx.from_pandas(pdf2, npartitions=2)
f = df[((df.a > 1) & (df.b < 30)) | ((df.a > 1) & (df.c > 35))]
pf = pdf[((pdf.a > 1) & (pdf.b < 30)) | ((pdf.a > 1) & (pdf.c > 35))]
bad = 0
for nm, q, e in (("merge right", df2.merge(f, on="a"), pdf2.merge(pf, on="a")), ("merge left", f.merge(df2, on="a"), pf.merge(pdf2, on="a")),
                 ("binop right", df2.z.sum() + f.b.sum(), pdf2.z.sum() + pf.b.sum()), ("concat second", dx.concat([df2, f]), pd.concat([pdf2, pf])),
                 ("assign other", df.assign(q=f.b), pdf.assign(q=pf.b))):
    try:
        r = q.compute()
        ok = (r == e) if np.isscalar(r) else (r.shape == e.shape and sorted(map(tuple, r.fillna(-1).values.tolist())) == sorted(map(tuple, e.fillna(-1).values.tolist())))
        print(nm, "OK" if ok else "DIFF %s vs %s" % (getattr(r, "shape", r), getattr(e, "shape", e)))
        bad += 0 if ok else 1
    except Exception as ex:
        print(nm, "FAIL", type(ex).__name__, str(ex)[:100])
        bad += 1

import sys
sys.exit(1 if bad else 0)
