"""M6: multi-key groupby value_counts / cov / corr fail only when optimized (split_out tuned for multi-key groupbys)."""
import sys
import warnings

warnings.simplefilter("ignore")
import numpy as np
import pandas as pd
import dask
import dask_expr as dx

dask.config.set(scheduler="sync")
bad = []
rs = np.random.RandomState(3)
n = 64
pdf = pd.DataFrame(
    {
        "a": rs.randint(0, 3, n),
        "b": rs.randint(0, 3, n),
        "c": rs.randint(0, 3, n),
        "x": rs.rand(n),
        "y": rs.randint(0, 3, n),
        "z": rs.rand(n),
    }
)

CASES = {
    "abc.y.value_counts": lambda d, **kw: d.groupby(["a", "b", "c"]).y.value_counts(**kw),
    "ab.y.value_counts": lambda d, **kw: d.groupby(["a", "b"]).y.value_counts(**kw),
    "a.y.value_counts": lambda d, **kw: d.groupby("a").y.value_counts(**kw),
    "ab.cov": lambda d, **kw: d[["a", "b", "x", "z"]].groupby(["a", "b"]).cov(**kw),
    "abc.cov": lambda d, **kw: d[["a", "b", "c", "x", "z"]].groupby(["a", "b", "c"]).cov(**kw),
    "ab.corr": lambda d, **kw: d[["a", "b", "x", "z"]].groupby(["a", "b"]).corr(**kw),
    "a.cov": lambda d, **kw: d[["a", "x", "z"]].groupby("a").cov(**kw),
    # same root cause: aggregations whose partial results can't take the shuffle path
    "ab.y.unique": lambda d, **kw: d.groupby(["a", "b"]).y.unique(**kw).map(lambda v: len(v), meta=("y", "i8")) if not isinstance(d, pd.DataFrame) else d.groupby(["a", "b"]).y.unique().map(len),
    "a.y.unique": lambda d, **kw: d.groupby("a").y.unique(**kw).map(lambda v: len(v), meta=("y", "i8")) if not isinstance(d, pd.DataFrame) else d.groupby("a").y.unique().map(len),
    "ab.head": lambda d, **kw: d.groupby(["a", "b"]).head(2, **kw),
    "a.tail": lambda d, **kw: d.groupby("a").tail(2, **kw),
}


def norm(x):
    if isinstance(x, pd.Series):
        x = x.to_frame("v")
    x = x.astype("float64").sort_index()
    x.index = x.index.to_flat_index() if isinstance(x.index, pd.MultiIndex) else x.index
    return x


for name, f in CASES.items():
    exp = norm(f(pdf))
    # (a single input partition trips over a different defect, see M6b_repro.py)
    for k in (2, 4, 8, 16, 30):
        ddf = dx.from_pandas(pdf, npartitions=k)
        for kw in ({}, {"split_out": 1}, {"split_out": 2}, {"split_out": 3}):
            try:
                coll = f(ddf, **kw)
            except Exception as e:  # noqa
                bad.append((name, k, kw, "construct", type(e).__name__ + ": " + str(e)[:100]))
                continue
            for mode in ("optimized", "unoptimized"):
                try:
                    if mode == "optimized":
                        got = coll.compute()
                    else:
                        got = dask.get(coll.expr.lower_completely().__dask_graph__(), coll.expr.lower_completely().__dask_keys__())
                        got = pd.concat(list(got)) if isinstance(got, (list, tuple)) else got
                    got = norm(got)
                    if not got.index.is_unique:
                        raise AssertionError(f"non-unique index ({len(got)} rows, expected {len(exp)})")
                    pd.testing.assert_frame_equal(got, exp, check_names=False)
                except Exception as e:  # noqa
                    bad.append((name, k, kw, mode, type(e).__name__ + ": " + (str(e).splitlines() or [""])[0][:120]))

for b in bad:
    print("MISMATCH", b)
print("M6", "DEFECT PRESENT" if bad else "ok")
sys.exit(1 if bad else 0)
