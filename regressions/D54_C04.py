import sys
import dask, pandas as pd, numpy as np
import dask_expr
dask.config.set(scheduler="sync")
pdf = pd.DataFrame({"a": np.arange(9), "ab": np.arange(9) * 2, "b": np.arange(9.0)})
df = dask_expr.from_pandas(pdf, npartitions=3)
fails = 0
def check(label, f):
    global fails
    exp = f(pdf)
    try:
        got = f(df).compute()
        if isinstance(exp, pd.Series):
            pd.testing.assert_series_equal(got, exp)
        else:
            pd.testing.assert_frame_equal(got, exp)
        print("ok  ", label)
    except Exception as e:
        fails += 1
        print("FAIL", label, type(e).__name__, str(e)[:200])
check("astype({a})[ab]", lambda d: d.astype({"a": "float64"})["ab"])
check("astype({a,ab})[ab]", lambda d: d.astype({"a": "float64", "ab": "float32"})["ab"])
check("astype({a,ab})[a]", lambda d: d.astype({"a": "float64", "ab": "float32"})["a"])
check("astype({ab})[a]", lambda d: d.astype({"ab": "float32"})["a"])
check("astype({ab})[b]", lambda d: d.astype({"ab": "float32"})["b"])
check("astype({a})[[ab]]", lambda d: d.astype({"a": "float64"})[["ab"]])
check("astype({a})[[a,ab]]", lambda d: d.astype({"a": "float64"})[["ab", "a"]])
check("astype(float)[ab]", lambda d: d.astype("float32")["ab"])
sys.exit(1 if fails else 0)
