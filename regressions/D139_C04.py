"""O7: read_csv column projection vs. keywords that need other columns."""
import os
import sys
import tempfile

import dask
import pandas as pd

import dask_expr as dx

dask.config.set(scheduler="sync")
d = tempfile.mkdtemp()
frames = []
for i in range(2):
    f = pd.DataFrame(
        {
            "t": pd.date_range("2020-01-0%d" % (i + 1), periods=4, freq="h").astype(str),
            "a": range(i * 4, i * 4 + 4),
            "b": [1.5] * 4,
            "k": list("wxyz"),
        }
    )
    f.to_csv(os.path.join(d, "f%d.csv" % i), index=False)
    frames.append(f)
pdf = pd.concat(frames, ignore_index=True)
pdf_dates = pdf.assign(t=pd.to_datetime(pdf.t))
glob = os.path.join(d, "f*.csv")
fail = 0


def check(name, make, expected=None, columns=None):
    global fail
    try:
        q = make()
        got = q.compute().reset_index(drop=True)
        if columns is not None:
            assert list(got.columns) == columns, list(got.columns)
            assert list(q.columns) == columns, list(q.columns)
        if expected is not None:
            pd.testing.assert_frame_equal(got, expected.reset_index(drop=True), check_dtype=False)
    except Exception as e:
        print("FAIL", name, type(e).__name__, str(e)[:200])
        fail = 1


check("parse_dates list", lambda: dx.read_csv(glob, parse_dates=["t"])[["a"]], pdf[["a"]], ["a"])
check("parse_dates kept", lambda: dx.read_csv(glob, parse_dates=["t"])[["t", "a"]], pdf_dates[["t", "a"]], ["t", "a"])
check("parse_dates series", lambda: dx.read_csv(glob, parse_dates=["t"])["a"].to_frame(), pdf[["a"]])
check("dtype dict", lambda: dx.read_csv(glob, dtype={"b": "float32", "a": "int32"})[["a"]], pdf[["a"]], ["a"])
check("converters", lambda: dx.read_csv(glob, converters={"k": str.upper})[["a"]], pdf[["a"]], ["a"])
check("converters kept", lambda: dx.read_csv(glob, converters={"k": str.upper})[["k"]], pdf[["k"]].assign(k=pdf.k.str.upper()), ["k"])
check("index_col", lambda: dx.read_csv(glob, index_col=False)[["a"]], pdf[["a"]], ["a"])
check("path only", lambda: dx.read_csv(glob, include_path_column=True)[["path"]], None, ["path"])
check("path named", lambda: dx.read_csv(glob, include_path_column="src")[["src"]], None, ["src"])
check("path + a", lambda: dx.read_csv(glob, include_path_column=True)[["a", "path"]], None, ["a", "path"])
check("path series", lambda: dx.read_csv(glob, include_path_column=True)["path"].to_frame(), None, ["path"])
check("usecols", lambda: dx.read_csv(glob, usecols=["a", "b"])[["b"]], pdf[["b"]], ["b"])
check("plain", lambda: dx.read_csv(glob)[["b"]], pdf[["b"]], ["b"])
try:
    got = dx.read_csv(glob, include_path_column=True)[["path"]].compute()
    assert sorted(got.path.astype(str).str[-6:].unique()) == ["f0.csv", "f1.csv"], got
    assert len(got) == 8
    s = dx.read_csv(glob, include_path_column=True)["path"].compute()
    assert isinstance(s, pd.Series) and len(s) == 8
except Exception as e:
    print("FAIL path values", type(e).__name__, str(e)[:200])
    fail = 1
sys.exit(fail)
