import sys, warnings
import numpy as np, pandas as pd, dask
import dask_expr as dx
dask.config.set(scheduler='sync')
warnings.simplefilter('ignore')
bad = 0
def check(label, f, exp):
    global bad
    try:
        got = f()
        ok = isinstance(got, type(exp)) and got.index.tolist() == exp.index.tolist() and np.array_equal(np.asarray(got, dtype=float), np.asarray(exp, dtype=float), equal_nan=True)
        msg = '' if ok else repr(got)[:200]
    except Exception as e:
        ok = False; msg = f'{type(e).__name__}: {e}'
    print(label, 'OK' if ok else 'BAD', msg); bad += not ok
pdf = pd.DataFrame({'a': [0, 1, 2, 3, 4, 5, 6, 7, 8, 9], 'b': [5, 6, 7, 8, 9, 0, 1, 2, 3, 4]})
pdf['f'] = pdf.a.astype(float).where(pdf.a % 3 != 0)
df = dx.from_pandas(pdf, 3)
mapping = (df.b * 2).persist()
pmapping = pdf.b * 2
assert not dx._expr.are_co_aligned(df.a.expr, mapping.expr)
check('map(persisted, na_action=ignore)', lambda: df.a.map(mapping, na_action='ignore').compute(), pdf.a.map(pmapping, na_action='ignore'))
check('map(persisted)', lambda: df.a.map(mapping).compute(), pdf.a.map(pmapping))
check('map(persisted, meta)', lambda: df.a.map(mapping, meta=('a', 'f8')).compute(), pdf.a.map(pmapping))
check('float map(persisted, ignore)', lambda: df.f.map(mapping, na_action='ignore').compute(), pdf.f.map(pmapping, na_action='ignore'))
check('map(co-aligned, ignore)', lambda: df.a.map(df.b * 2, na_action='ignore').compute(), pdf.a.map(pmapping, na_action='ignore'))
other = dx.from_pandas(pmapping, 2)
check('map(other partitioning, ignore)', lambda: df.a.map(other, na_action='ignore').compute(), pdf.a.map(pmapping, na_action='ignore'))
q = df.a.map(mapping, na_action='ignore')
ok = type(q).__name__ == 'Series' and q.npartitions == 3
print('collection type', 'OK' if ok else 'BAD', type(q).__name__); bad += not ok
# Index.map with a non co-aligned series
idx = dx.from_pandas(pdf.set_index('a'), 3).index
check('index.map(series)', lambda: idx.map(mapping, na_action='ignore').compute().to_series().reset_index(drop=True),
      pdf.set_index('a').index.map(pmapping, na_action='ignore').to_series().reset_index(drop=True))
sys.exit(1 if bad else 0)
