import sys
import dask
import pandas as pd
import dask_expr
from dask_expr import from_pandas

dask.config.set(scheduler="sync")

pdf = pd.DataFrame({"a": [1, 2, 3, 4, 1, 2], "b": [1.0, 2, 3, 4, 5, 6]})
bad = []


def check(label, q, expected):
    res = q.compute()
    parts = dask.compute(*q.optimize().to_delayed())
    names = {repr(q._meta.name), repr(q.optimize()._meta.name), repr(res.name)}
    names |= {repr(p.name) for p in parts}
    if names != {repr(expected.name)}:
        bad.append((label, repr(expected.name), [repr(p.name) for p in parts], names))
    try:
        pd.testing.assert_series_equal(res, expected)
    except AssertionError as e:
        bad.append((label, "values", str(e)[:300]))


for npart in (1, 2, 3):
    df = from_pandas(pdf, npartitions=npart)
    check(("cumcount", npart), df.groupby("a").cumcount(), pdf.groupby("a").cumcount())
    check(("cumcount-b", npart), df.groupby("a").b.cumcount(), pdf.groupby("a").b.cumcount())
    check(("cumsum-b", npart), df.groupby("a").b.cumsum(), pdf.groupby("a").b.cumsum())
    check(("cumcount-expr-by", npart), df.groupby(df.a).cumcount(), pdf.groupby(pdf.a).cumcount())

for b in bad:
    print("MISMATCH", b)
sys.exit(1 if bad else 0)
