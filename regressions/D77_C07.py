import sys
import dask
import numpy as np
import pandas as pd
import dask_expr
from dask_expr import from_pandas

dask.config.set(scheduler="sync")

pdf = pd.DataFrame(
    {
        "d": [True, False, True, True, False, True],
        "i": np.arange(6, dtype="int8"),
        "f": np.arange(6) * 1.5,
        "u": np.arange(6, dtype="uint16"),
        "n": pd.array([1, None, 3, 4, None, 6], dtype="Int32"),
        "b": pd.array([True, None, False, True, True, None], dtype="boolean"),
        "t": pd.to_timedelta(np.arange(6), unit="s"),
    }
)
df = from_pandas(pdf, npartitions=3)
bad = []


def check(label, q, expected):
    metas = [q._meta, q.optimize()._meta, q.lower_completely()._meta]
    try:
        res = q.compute()
        parts = dask.compute(*q.optimize().to_delayed())
    except Exception as e:  # separate (pre-existing) defect, not the meta one
        print("NOTE compute failed", label, type(e).__name__, e)
        return
    if isinstance(expected, pd.Series):
        want = expected.dtype
        got = {str(m.dtype) for m in metas} | {str(res.dtype)} | {str(p.dtype) for p in parts}
        if got != {str(want)}:
            bad.append((label, str(want), got))
    else:
        want = expected.dtypes.astype(str).to_dict()
        for m in metas + [res] + list(parts):
            if m.dtypes.astype(str).to_dict() != want:
                bad.append((label, want, m.dtypes.astype(str).to_dict()))
                break
    try:
        if isinstance(expected, pd.Series):
            pd.testing.assert_series_equal(res, expected)
        else:
            pd.testing.assert_frame_equal(res, expected)
    except AssertionError as e:
        bad.append((label, "values", str(e)[:200]))


for op in ["cumsum", "cumprod", "cummax", "cummin"]:
    for col in pdf.columns:
        if col == "t" and op == "cumprod":
            continue
        for skipna in [True, False]:
            check((op, col, skipna), getattr(df[col], op)(skipna=skipna), getattr(pdf[col], op)(skipna=skipna))
    # frames of one dtype family only: a mixed-dtype frame hits a separate value
    # defect (TakeLast squeezes the last row into one Series of a common dtype)
    for cols in (["d"], ["i", "i2"], ["f"]):
        p = pdf.assign(i2=pdf.i)[cols]
        d = from_pandas(p, npartitions=3)
        check((op, "frame", tuple(cols)), getattr(d, op)(), getattr(p, op)())
        check((op, "frame-proj", tuple(cols)), getattr(d, op)()[cols[0]], getattr(p, op)()[cols[0]])

for b in bad:
    print("MISMATCH", b)
sys.exit(1 if bad else 0)
