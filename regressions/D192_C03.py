import sys
import os
sys.path.insert(0, os.path.dirname(os.path.abspath(__file__)))
import pandas as pd
from fixV_common import compute_unoptimized
from dask_expr import from_pandas

pdf = pd.DataFrame({"a": range(10), "b": range(10, 20)})
pmask = pd.Series([True, False] * 5)
d = from_pandas(pdf, npartitions=3)
mask = from_pandas(pmask, npartitions=2)
rc = 0


def check(name, q, expected):
    global rc
    try:
        got = q.compute()
    except Exception as e:
        print(name, "raises", type(e).__name__, e)
        rc = 1
        return
    ok = got["b"].tolist() == expected["b"].tolist()
    print(name, got["b"].tolist(), expected["b"].tolist(), "OK" if ok else "MISMATCH")
    if not ok:
        rc = 1


g = d[mask]
pg = pdf[pmask]
check("filter on filteralign", g[g.a > 1], pg[pg.a > 1])
check("two", g[g.a > 1][g.b < 18], pg[pg.a > 1][pg.b < 18])
try:
    g[g.a > 1].optimize()
except Exception as e:
    print("optimize raises", type(e).__name__)
    rc = 1
# the misaligned mask on top of a plain filter
f = d[d.a > 1]
pf = pdf[pdf.a > 1]
check("filteralign on filter", f[mask], pf[pmask.reindex(pf.index)])
# projection on top, selection of a column
q = g[g.a > 1]["b"]
try:
    got = q.compute().tolist()
except Exception as e:
    got = type(e).__name__
print("projection", got)
if got != pg[pg.a > 1]["b"].tolist():
    rc = 1
# mask with the same divisions, mask with unknown divisions
g3 = d[from_pandas(pmask, npartitions=3)]
check("same divisions", g3[g3.a > 1], pg[pg.a > 1])
d2 = from_pandas(pdf, npartitions=3, sort=False)
mask2 = from_pandas(pmask, npartitions=2, sort=False)
g2 = d2[mask2]
q = g2[g2.a > 1]
try:
    got = sorted(q.compute()["b"].tolist())
except Exception as e:
    got = type(e).__name__
print("unknown divisions", got)
if got != pg[pg.a > 1]["b"].tolist():
    rc = 1
sys.exit(rc)
