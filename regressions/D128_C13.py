import sys
import numpy as np, pandas as pd, dask
import dask_expr as dx
dask.config.set(scheduler='sync')
bad = 0
pdf = pd.DataFrame({'a': [3, 1, 2, 5, 4, 7, 6, 0, 9, 8, 11, 10], 'b': range(12)})
rng = np.random.RandomState(1)
pdf2 = pd.DataFrame({'a': rng.permutation(200), 'b': range(200)})

def delivered(coll):
    e = coll.optimize().expr
    return len(dask.get(e.__dask_graph__(), e.__dask_keys__()))

def check(tag, pdf, nin, sort_n, rep_n, **kw):
    global bad
    df = dx.from_pandas(pdf, npartitions=nin)
    skw = {} if sort_n is None else {'npartitions': sort_n}
    r = df.sort_values('a', **skw, **kw).repartition(npartitions=rep_n)
    rep, opt, n = r.npartitions, r.optimize().npartitions, delivered(r)
    if not (rep == opt == n == rep_n):
        print(tag, f'reported {rep}, optimized reports {opt}, delivers {n}, requested {rep_n}'); bad += 1
    if len(r.divisions) != rep + 1:
        print(tag, 'divisions length', len(r.divisions)); bad += 1
    got = r.compute()
    exp = pdf.sort_values('a', **kw)
    if not got.equals(exp):
        print(tag, 'values differ'); bad += 1

check('Q4', pdf, 4, 3, 2)
check('Q4 more', pdf, 4, 2, 3)
check('Q4 same', pdf, 4, 3, 3)
check('no explicit', pdf, 4, None, 2)
check('no explicit more', pdf2, 4, None, 6)
check('big 5->2', pdf2, 4, 5, 2)
check('big 2->5', pdf2, 4, 2, 5)
check('big desc', pdf2, 4, 5, 3, ascending=False)
print('bad', bad)
sys.exit(1 if bad else 0)
