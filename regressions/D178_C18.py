import sys, tempfile, os
import pandas as pd, dask
import dask_expr as dx
dask.config.set(scheduler='sync')
pdf = pd.DataFrame({'a': range(10), 'b': list('abcdefghij')})
pdf2 = pd.DataFrame({'a': range(10, 20), 'b': list('klmnopqrst')}, index=range(10, 20))
bad = 0
with tempfile.TemporaryDirectory() as d:
    p = os.path.join(d, 'x')
    dx.from_pandas(pdf, 2).to_parquet(p, write_metadata_file=True)
    dx.from_pandas(pdf2, 2).to_parquet(p, append=True, write_metadata_file=True)
    expect = pd.concat([pdf, pdf2])
    for fs in (None, 'arrow'):
        for ign in (False, True):
            kw = {} if fs is None else {'filesystem': fs}
            r = dx.read_parquet(p, ignore_metadata_file=ign, **kw)
            out = r.compute()
            ok = r.npartitions == 4 and len(out) == 20 and sorted(out.a.tolist()) == list(range(20))
            print(fs, ign, r.npartitions, len(out), 'OK' if ok else 'BAD')
            bad += not ok
sys.exit(1 if bad else 0)
