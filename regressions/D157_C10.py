"""M2: groupby on a categorical key, observed=False, split_out > 1: every output partition emits all categories."""
import sys
import numpy as np
import pandas as pd
import dask
import dask_expr as dx

dask.config.set(scheduler="sync")
bad = []
rs = np.random.RandomState(1)
n = 40
pdf = pd.DataFrame(
    {
        "a": pd.Categorical(rs.choice(list("abc"), n), categories=list("abcde")),
        "a2": pd.Categorical(rs.choice(list("xy"), n), categories=list("xyz")),
        "k": rs.randint(0, 3, n),
        "b": rs.randint(0, 10, n),
        "c": rs.rand(n),
    }
)


def norm(x):
    x = x.sort_index()
    if isinstance(x, pd.Series):
        x = x.to_frame("v")
    x = x.astype("float64")
    x.index = x.index.to_flat_index() if isinstance(x.index, pd.MultiIndex) else pd.Index(list(x.index))
    return x


CASES = {
    "a.b.sum": lambda d, **kw: d.groupby("a", observed=False).b.sum(**kw),
    "a.b.count": lambda d, **kw: d.groupby("a", observed=False).b.count(**kw),
    "a.b.mean": lambda d, **kw: d.groupby("a", observed=False).b.mean(**kw),
    "a.sum[b,c]": lambda d, **kw: d.groupby("a", observed=False)[["b", "c"]].sum(**kw),
    "a.agg": lambda d, **kw: d.groupby("a", observed=False).agg({"b": "sum", "c": "max"}, **kw),
    "a.size": lambda d, **kw: d.groupby("a", observed=False).size(**kw),
    "a,a2.b.sum": lambda d, **kw: d.groupby(["a", "a2"], observed=False).b.sum(**kw),
    "a,k.b.sum": lambda d, **kw: d.groupby(["a", "k"], observed=False).b.sum(**kw),
    "a.b.var": lambda d, **kw: d.groupby("a", observed=False).b.var(**kw),
    "a.c.std": lambda d, **kw: d.groupby("a", observed=False).c.std(**kw),
    "a.c.min": lambda d, **kw: d.groupby("a", observed=False).c.min(**kw),
    "a.b.first": lambda d, **kw: d.groupby("a", observed=False).b.first(**kw),
    "a,k.c.mean": lambda d, **kw: d.groupby(["a", "k"], observed=False).c.mean(**kw),
    "a.agg-median": lambda d, **kw: d.groupby("a", observed=False).agg({"b": "median"}, **kw),
    "series-by-series": lambda d, **kw: d.b.groupby(d.a, observed=False).sum(**kw),
    "a.b.sum-observed": lambda d, **kw: d.groupby("a", observed=True).b.sum(**kw),
}

for name, f in CASES.items():
    exp = norm(f(pdf))
    for k in (1, 3, 5, 20):
        ddf = dx.from_pandas(pdf, npartitions=k)
        for split_out in (None, 1, 2, 3):
            try:
                got = f(ddf, split_out=split_out).compute()
                if not got.index.is_unique:
                    raise AssertionError(f"non-unique index, {len(got)} rows (expected {len(exp)})")
                pd.testing.assert_frame_equal(norm(got), exp, check_names=False)
            except Exception as e:  # noqa
                bad.append((name, k, split_out, str(e).splitlines()[0][:150]))

for b in bad:
    print("MISMATCH", b)
print("M2", "DEFECT PRESENT" if bad else "ok")
sys.exit(1 if bad else 0)
