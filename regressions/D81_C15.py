import subprocess
import sys
import tempfile

CHILD = r"""
import sys, json
import dask
import numpy as np
import pandas as pd
import dask_expr
from dask_expr import from_pandas, read_parquet
dask.config.set(scheduler="sync")
d, order = sys.argv[1], sys.argv[2]

def read():
    return read_parquet(d, filters=[("x", ">", 1000)])

out = {}
def run(tag):
    df = read()
    if tag == "x":
        r = df["x"].compute()
        out[tag] = [type(r).__name__, list(r.shape), [str(r.name)], [str(r.dtype)]]
    elif tag == "y-frame":
        r = df[["y"]].compute()
        out[tag] = [type(r).__name__, list(r.shape), list(map(str, r.columns)), list(map(str, r.dtypes))]
    elif tag == "sum":
        r = (df.x + df.y).compute()
        out[tag] = [type(r).__name__, list(r.shape), [str(r.name)], [str(r.dtype)]]
    else:
        r = df.compute()
        out[tag] = [type(r).__name__, list(r.shape), list(map(str, r.columns)), list(map(str, r.dtypes))]
        m = df._meta
        assert list(r.columns) == list(m.columns), (list(r.columns), list(m.columns))

for tag in order.split(","):
    try:
        run(tag)
    except Exception as e:
        out[tag] = ["ERR", type(e).__name__, str(e)[:200]]
print(json.dumps(out, sort_keys=True))
"""


def child(d, order):
    r = subprocess.run(
        [sys.executable, "-c", CHILD, d, order], capture_output=True, text=True
    )
    if r.returncode:
        print(r.stderr[-2000:])
        sys.exit(2)
    import json

    return json.loads(r.stdout.strip().splitlines()[-1])


def main():
    import dask
    import numpy as np
    import pandas as pd
    import dask_expr
    from dask_expr import from_pandas

    dask.config.set(scheduler="sync")
    bad = []
    with tempfile.TemporaryDirectory() as d:
        pdf = pd.DataFrame({"x": range(40), "y": np.arange(40) * 2.0})
        from_pandas(pdf, npartitions=4).to_parquet(d)
        tags = ["x", "full", "y-frame", "sum"]
        # each query alone in a fresh process is the reference
        ref = {t: child(d, t)[t] for t in tags}
        print("reference", ref)
        if ref["full"][1] != [0, 2]:
            bad.append(("fresh full read", ref["full"]))
        import itertools

        for order in itertools.permutations(tags):
            got = child(d, ",".join(order))
            for t in tags:
                if got[t] != ref[t]:
                    bad.append((",".join(order), t, got[t], ref[t]))
    seen = set()
    for b in bad:
        key = repr(b[1:])
        if key not in seen:
            seen.add(key)
            print("MISMATCH", b)
    sys.exit(1 if bad else 0)


main()
