import sys
import dask
import pandas as pd
import dask_expr
from dask_expr import from_pandas

dask.config.set(scheduler="sync")

bad = []
for name in [None, 0, "a", ""]:
    ps = pd.Series([1, 2, 2, 3, 3, 4], name=name)
    s = from_pandas(ps, npartitions=3)
    for kw in [{}, {"split_out": 2}, {"split_out": 1}]:
        q = s.drop_duplicates(**kw)
        res = q.compute()
        parts = dask.compute(*q.optimize().to_delayed())
        names = {repr(res.name)} | {repr(p.name) for p in parts}
        if names != {repr(q._meta.name)} or q._meta.name != ps.drop_duplicates().name:
            bad.append(("drop_duplicates", name, kw, repr(q._meta.name), names))
        if sorted(res.tolist()) != [1, 2, 3, 4]:
            bad.append(("values", name, kw, res.tolist()))
    # unique also goes through ShuffleReduce with split_out
    q = s.unique(split_out=2)
    res = q.compute()
    if repr(res.name) != repr(q._meta.name) or repr(res.name) != repr(name):
        bad.append(("unique", name, repr(q._meta.name), repr(res.name)))
    # value_counts split_out
    q = s.value_counts(split_out=2)
    res = q.compute()
    exp = ps.value_counts()
    if repr(res.index.name) != repr(exp.index.name) or repr(res.name) != repr(exp.name):
        bad.append(("value_counts", name, res.index.name, res.name))

# index with falsy name
pi = pd.Index([1, 2, 2, 3, 3, 4], name=0)
i = from_pandas(pd.Series(range(6), index=pi), npartitions=3, sort=False).index
q = i.drop_duplicates()
res = q.compute()
if repr(res.name) != repr(q._meta.name) or res.name != 0:
    bad.append(("index", repr(q._meta.name), repr(res.name)))

for b in bad:
    print("MISMATCH", b)
sys.exit(1 if bad else 0)
