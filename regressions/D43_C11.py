import sys
import numpy as np, pandas as pd, dask
import dask_expr
from dask_expr import from_pandas
dask.config.set(scheduler="sync")

pdf = pd.DataFrame({"a": range(20), "b": range(20)})
pdf.loc[[3, 4, 5, 11], "a"] = np.nan
df = from_pandas(pdf, npartitions=4)
ts = pd.Series(range(48), index=pd.date_range("2000-01-01", periods=48, freq="h"), name="s")
dts = from_pandas(ts, npartitions=4)

fails = []
EXTRA = [[0, 1], [1, 2], [0, 2], [2, 0], [1, 1], [3], [2, 3]]

def eq(a, b):
    if isinstance(a, (pd.Series, pd.DataFrame)):
        return a.equals(b)
    return a == b

def check(name, make):
    """every selection of partitions equals the same partitions of the fully
    computed collection (graph of the full collection, no optimized selection)"""
    try:
        q = make()
        n = q.npartitions
        opt = q.optimize(fuse=False)
        g = opt.__dask_graph__()
        ref = [dask.get(g, (opt._name, i)) for i in range(opt.npartitions)]
        assert opt.npartitions == n
        for sel in [[i] for i in range(n)] + EXTRA:
            if max(sel) >= n:
                continue
            expected = pd.concat([ref[i] for i in sel])
            for fuse in (True, False):
                q = make()
                got = q.partitions[sel].compute(fuse=fuse)
                assert eq(got, expected), (sel, fuse, got.values.tolist(), expected.values.tolist())
        q = make()
        for i in range(n):
            assert eq(q.get_partition(i).compute(), ref[i]), ("get_partition", i)
            assert eq(q.to_delayed()[i].compute(), ref[i]), ("to_delayed", i)
    except Exception as e:
        fails.append(name)
        print("FAIL", name, type(e).__name__, str(e)[:160])
    else:
        print("ok  ", name)

def pinfo(x, partition_info=None):
    if partition_info is None:  # meta inference
        partition_info = {"number": -1, "division": -1}
    return x.assign(num=partition_info["number"], div=partition_info["division"])

def split(i):
    def make():
        return df.random_split([0.5, 0.5], random_state=3)[i]
    return make

check("shift(1)", lambda: df.a.shift(1))
check("shift(-1)", lambda: df.a.shift(-1))
check("frame shift(2) + 1", lambda: df.shift(2) + 1)
check("diff()", lambda: df.a.diff())
check("diff(-1)", lambda: df.diff(-1))
check("ffill()", lambda: df.a.ffill())
check("bfill()", lambda: df.a.bfill())
check("ffill(limit=1)", lambda: df.ffill(limit=1))
check("rolling(3).sum()", lambda: df.b.rolling(3).sum())
check("map_overlap", lambda: df.map_overlap(lambda x: x.rolling(2).sum(), 1, 0))
check("sample", lambda: df.sample(frac=0.5, random_state=1))
check("sample + 1", lambda: df.sample(frac=0.5, random_state=1) + 1)
check("sample replace", lambda: df.b.sample(frac=0.8, replace=True, random_state=7))
check("random_split a", split(0))
check("random_split b", split(1))
check("random_split shuffle", lambda: df.random_split([0.3, 0.7], random_state=5, shuffle=True)[1])
check("series random_split", lambda: df.b.random_split([0.5, 0.5], random_state=3)[0])
check("map_partitions partition_info", lambda: df.map_partitions(pinfo))
check("map_partitions partition_info + 1", lambda: df.map_partitions(pinfo)[["num", "b"]] + 1)
check("map_partitions plain", lambda: df.map_partitions(lambda x: x + 1))
check("resample sum", lambda: dts.resample("6h").sum())
check("resample mean", lambda: dts.resample("3h").mean())
check("resample count frame", lambda: dts.to_frame().resample("6h").count())
check("enforce_runtime_divisions", lambda: df.enforce_runtime_divisions())
check("cumsum", lambda: df.b.cumsum())
sys.exit(1 if fails else 0)
