import sys, warnings
import pandas as pd, dask, dask_expr as dx
dask.config.set(scheduler="sync")
warnings.simplefilter("ignore")
fails = []

def truthful(coll):
    divs = coll.divisions
    rows = coll.reset_index().map_partitions(
        lambda d: pd.DataFrame({"k": [list(d.k)], "v": [list(d.v)]}),
        meta={"k": object, "v": object},
    ).compute()
    parts = [pd.Series(v, index=k) for k, v in zip(rows.k, rows.v)]
    assert len(divs) == len(parts) + 1, (divs, len(parts))
    for i, p in enumerate(parts):
        if len(p) == 0:
            continue
        lo, hi = divs[i], divs[i + 1]
        last = i == len(parts) - 1
        assert p.index.min() >= lo, (i, divs, list(p.index))
        assert (p.index.max() <= hi) if last else (p.index.max() < hi), (i, divs, list(p.index))
    return parts

def check(label, index, nparts, must_work=False, via_set_index=False):
    pdf = pd.DataFrame({"v": range(len(index))}, index=pd.Index(index, name="k"))
    try:
        if via_set_index:
            src = dx.from_pandas(pdf.reset_index(), npartitions=nparts, sort=False)
            out = src.set_index("k", sorted=True)
        else:
            src = dx.from_pandas(pdf, npartitions=nparts, sort=False)
            out = src.compute_current_divisions(set_divisions=True)
    except ValueError as e:
        if must_work:
            fails.append((label, "raised", str(e)[:80]))
        return
    try:
        parts = truthful(out)
        got = pd.concat(parts)
        assert sorted(got) == sorted(pdf.v)
    except AssertionError as e:
        fails.append((label, "untruthful", str(e)[:120]))

check("interleaved 2", [0, 5, 3, 7], 2)
check("interleaved 2 set_index", [0, 5, 3, 7], 2, via_set_index=True)
check("interleaved 3", [0, 5, 3, 7, 7, 9], 3)
check("interleaved 3b", [0, 2, 2, 6, 5, 9], 3)
check("nested", [0, 9, 3, 9], 2)
check("sorted", [0, 1, 2, 3, 4, 5], 3, must_work=True)
check("touching", [0, 3, 3, 7], 2, must_work=True)
check("touching 3", [0, 3, 3, 3, 3, 7], 3, must_work=True)
check("touching set_index", [0, 3, 3, 7], 2, must_work=True, via_set_index=True)

for f in fails:
    print("FAIL", f)
sys.exit(1 if fails else 0)
