import sys
import dask
import pandas as pd
import dask_expr as dx

dask.config.set(scheduler="sync")
bad = []

pdf = pd.DataFrame(
    {"a": [1, 2, 3, 4, 5, 6, 7, 8], "b": list("xyzxyzxy")},
    index=pd.Index([0.5, 1.5, 2.5, 3.5, 4.5, 5.5, 6.5, 7.5], name="idx"),
)
df = dx.from_pandas(pdf, npartitions=3)


def describe(index):
    return (index.name, str(index.dtype))


def check(tag, coll):
    plain = describe(coll._meta.index)
    opt = describe(coll.optimize()._meta.index)
    got = coll.compute()
    parts = [describe(coll.partitions[i].compute().index) for i in range(coll.npartitions)]
    if not (plain == opt == describe(got.index)) or any(p != plain for p in parts):
        bad.append(
            f"{tag}: declared {plain}, after optimize {opt}, computed "
            f"{describe(got.index)}, partitions {sorted(set(parts))}"
        )
    if sorted(got.a) != sorted(pdf.a):
        bad.append(f"{tag}: rows {sorted(got.a)}")


for method in ("simple", "tasks", "disk"):
    for ignore_index in (True, False):
        tag = f"shuffle('a', ignore_index={ignore_index}, shuffle_method={method!r})"
        check(tag, df.shuffle("a", ignore_index=ignore_index, shuffle_method=method))
        check(tag + "[['a']]",
              df.shuffle("a", ignore_index=ignore_index, shuffle_method=method)[["a"]])
        check("Series " + tag,
              df.a.shuffle("a", ignore_index=ignore_index, shuffle_method=method).to_frame())
    with dask.config.set({"dataframe.shuffle.method": method}):
        tag = f"shuffle('a', ignore_index=True) with default method {method!r}"
        check(tag, df.shuffle("a", ignore_index=True))

for b in bad:
    print("DEFECT:", b)
sys.exit(1 if bad else 0)
