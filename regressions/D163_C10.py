"""M7: groupby(..., sort=True).agg({'b': 'median'}, split_out=2) raises KeyError: 'options'."""
import sys
import warnings

warnings.simplefilter("ignore")
import numpy as np
import pandas as pd
import dask
import dask_expr as dx

dask.config.set(scheduler="sync")
bad = []
rs = np.random.RandomState(4)
n = 80
pdf = pd.DataFrame({"a": rs.randint(0, 7, n), "k": rs.randint(0, 3, n), "b": rs.rand(n), "c": rs.randint(0, 9, n)})

CASES = {
    "a.agg-median": ("a", {"b": "median"}),
    "a.agg-median+sum": ("a", {"b": "median", "c": "sum"}),
    "a,k.agg-median": (["a", "k"], {"b": "median"}),
}
for name, (by, spec) in CASES.items():
    for sort in (True, False, None):
        skw = {} if sort is None else {"sort": sort}
        exp = pdf.groupby(by, **skw).agg(spec)
        for k in (1, 3, 8, 20):
            ddf = dx.from_pandas(pdf, npartitions=k)
            for kw in ({}, {"split_out": 1}, {"split_out": 2}, {"split_out": 3}, {"split_out": 2, "split_every": 2}):
                try:
                    coll = ddf.groupby(by, **skw).agg(spec, **kw)
                    got = coll.compute()
                    if sort is True:
                        # a sorted groupby delivers the groups in key order over all partitions
                        pd.testing.assert_frame_equal(got, exp)
                    else:
                        pd.testing.assert_frame_equal(got.sort_index(), exp.sort_index())
                    opt = coll.optimize()
                    if len(opt.expr.divisions) != opt.npartitions + 1:
                        raise AssertionError(f"npartitions {opt.npartitions} vs {len(opt.expr.divisions)} divisions")
                except Exception as e:  # noqa
                    bad.append((name, sort, k, kw, type(e).__name__ + ": " + (str(e).splitlines() or [""])[0][:100]))

for b in bad:
    print("MISMATCH", b)
print("M7", "DEFECT PRESENT" if bad else "ok")
sys.exit(1 if bad else 0)
