import sys
import dask, pandas as pd, numpy as np
import dask_expr
dask.config.set(scheduler="sync")
pdfi = pd.DataFrame({0: np.arange(9), 1: np.arange(9) * 2.0, 2: np.arange(9)[::-1]})
dfi = dask_expr.from_pandas(pdfi, npartitions=3)
pdfs = pd.DataFrame({"a": np.arange(9), "b": np.arange(9) * 2.0, "c": np.arange(9)[::-1]})
dfs = dask_expr.from_pandas(pdfs, npartitions=3)
pdfm = pd.DataFrame({0: np.arange(9), "0": np.arange(9) * 2.0, 1.5: np.arange(9)[::-1]})
dfm = dask_expr.from_pandas(pdfm, npartitions=3)
fails = 0
def check(label, f, p, d):
    global fails
    try:
        exp = f(p)
        got = f(d).compute()
        (pd.testing.assert_series_equal if isinstance(exp, pd.Series) else pd.testing.assert_frame_equal)(got, exp)
        print("ok  ", label)
    except Exception as e:
        fails += 1
        print("FAIL", label, type(e).__name__, str(e)[:150].replace("\n", " "))
check("int add_prefix[[p_0]]", lambda d: d.add_prefix("p_")[["p_0"]], pdfi, dfi)
check("int add_prefix[p_1]", lambda d: d.add_prefix("p_")["p_1"], pdfi, dfi)
check("int add_prefix[[p_2,p_0]]", lambda d: d.add_prefix("p_")[["p_2", "p_0"]], pdfi, dfi)
check("int add_suffix[[0_s]]", lambda d: d.add_suffix("_s")[["0_s"]], pdfi, dfi)
check("int add_suffix[1_s]", lambda d: d.add_suffix("_s")["1_s"], pdfi, dfi)
check("int add_suffix[[2_s,1_s]]", lambda d: d.add_suffix("_s")[["2_s", "1_s"]], pdfi, dfi)
check("str add_prefix[[p_a]]", lambda d: d.add_prefix("p_")[["p_a"]], pdfs, dfs)
check("str add_suffix[[c_s,a_s]]", lambda d: d.add_suffix("_s")[["c_s", "a_s"]], pdfs, dfs)
check("str add_suffix('')[[a]]", lambda d: d.add_suffix("")[["a"]], pdfs, dfs)
check("str add_prefix('')[b]", lambda d: d.add_prefix("")["b"], pdfs, dfs)
check("float label add_prefix[[p_1.5]]", lambda d: d[[0, 1.5]].add_prefix("p_")[["p_1.5"]], pdfm, dfm)
check("float label add_suffix[1.5_s]", lambda d: d[[0, 1.5]].add_suffix("_s")["1.5_s"], pdfm, dfm)
sys.exit(1 if fails else 0)
