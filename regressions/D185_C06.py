import sys
import pandas as pd, dask
import dask_expr as dx
dask.config.set(scheduler='sync')
bad = 0
def check(label, f):
    global bad
    try:
        ok = f(); msg = ''
    except Exception as e:
        ok = False; msg = f'{type(e).__name__}: {e}'
    print(label, 'OK' if ok else 'BAD', msg); bad += not ok
empty = pd.DataFrame({'a': []})
def t1():
    df = dx.from_pandas(empty, chunksize=5)
    out = df.compute()
    return df.npartitions == 1 and len(out) == 0 and list(out.columns) == ['a'] and len(df) == 0 and out.dtypes.equals(empty.dtypes)
check('empty frame chunksize', t1)
check('empty frame chunksize sort=False', lambda: len(dx.from_pandas(empty, chunksize=5, sort=False).compute()) == 0)
check('empty series chunksize', lambda: len(dx.from_pandas(pd.Series([], dtype=float, name='s'), chunksize=2).compute()) == 0)
check('empty frame sum', lambda: dx.from_pandas(empty, chunksize=5).a.sum().compute() == 0)
check('empty frame npartitions', lambda: len(dx.from_pandas(empty, npartitions=2).compute()) == 0)
check('empty frame default', lambda: len(dx.from_pandas(empty).compute()) == 0)
check('nonempty chunksize', lambda: dx.from_pandas(pd.DataFrame({'a': range(10)}), chunksize=5).npartitions == 2)
sys.exit(1 if bad else 0)
