import sys
import dask
import pandas as pd
import dask_expr as dx
from dask_expr.io import FromPandas

dask.config.set(scheduler="sync")
bad = 0

pdf = pd.DataFrame({0: range(8), 1: range(8, 16), "c": [float(i) for i in range(8)]})
df = dx.from_pandas(pdf, 3)
for sel in ("c", 0, 1, ["c"], [0, "c"]):
    try:
        got = df.rolling(2).sum()[sel].compute()
        exp = pdf.rolling(2).sum()[sel]
        (pd.testing.assert_series_equal if exp.ndim == 1 else pd.testing.assert_frame_equal)(got, exp)
    except Exception as e:
        bad += 1
        print("FAIL", sel, type(e).__name__, e)

# substring test keeps too many columns
pdf2 = pd.DataFrame({"a": range(8), "ab": range(8, 16), "b": range(8)})
df2 = dx.from_pandas(pdf2, 3)
q = df2.rolling(2).sum()["ab"]
pd.testing.assert_series_equal(q.compute(), pdf2.rolling(2).sum()["ab"])
src = [e for e in q.optimize(fuse=False).expr.walk() if isinstance(e, FromPandas)]
cols = sorted({c for e in src for c in list(e.columns)})
if cols != ["ab"]:
    bad += 1
    print("FAIL pruning: source reads", cols)
sys.exit(1 if bad else 0)
