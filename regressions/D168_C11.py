import sys
import dask
import pandas as pd
from dask_expr import from_pandas

dask.config.set(scheduler="sync")
bad = []

pdf = pd.DataFrame({"a": range(6), "b": range(10, 16)})
d1 = from_pandas(pdf, npartitions=1)
d3 = from_pandas(pdf, npartitions=3)


def add(d, other=None):
    return d + 1 if other is None else d.add(other, axis=0)


def check(name, coll, sel):
    x = coll.partitions[sel]
    parts = [coll.partitions[i].compute() for i in range(coll.npartitions)]
    exp = pd.concat([parts[i] for i in sel])
    o = x.optimize()
    got = x.compute()
    if x.npartitions != len(sel) or o.npartitions != len(sel) or len(x.to_delayed()) != len(sel):
        bad.append((name, sel, "npartitions", x.npartitions, o.npartitions, len(x.to_delayed())))
    if len(got) != len(exp) or not got.reset_index(drop=True).equals(exp.reset_index(drop=True)):
        bad.append((name, sel, "rows", len(got), len(exp)))


for sel in ([0, 0], [0, 0, 0], [0]):
    check("map_partitions 1 part", d1.map_partitions(add), sel)
    check("map_partitions 1 part + 1 part arg", d1.map_partitions(add, d1.a), sel)
    check("map_partitions series", d1.a.map_partitions(add), sel)
    check("elemwise 1 part", d1 + 1, sel)
    check("merge 1 part x 1 part", d1.merge(d1, on="a"), sel)
for sel in ([1, 1], [2, 0, 0], [1]):
    check("map_partitions 3 parts", d3.map_partitions(add), sel)
    check("map_partitions 3 parts + 1 part arg", d3.map_partitions(add, d1.a.sum()), sel)

if bad:
    for b in bad:
        print("BAD", b)
    sys.exit(1)
print("ok")
