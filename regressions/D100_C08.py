import pandas as pd, dask, dask_expr as dx
dask.config.set(scheduler="sync")
pdf = pd.DataFrame({"a": [1,2,3], "b": [4,5,6]})
m = {"a": "x", "b": "y"}
q2 = dx.from_pandas(pdf, npartitions=1); q2.columns = m
q1 = dx.from_pandas(pdf, npartitions=1).rename(columns=m)
print(list(q1.columns), list(q2.columns), q1._name == q2._name)
assert list(q1.columns) == ["x", "y"], list(q1.columns)
assert list(q1.compute().columns) == ["x", "y"]
print("ok")
