import pandas as pd, dask, dask_expr as dx, sys
dask.config.set(scheduler="sync")
bad = 0
for base_freq, n in (("M", 14), ("D", 40), ("h", 60)):
    per = pd.DataFrame({"x": range(n)}, index=pd.period_range("2020-01-05", periods=n, freq=base_freq))
    for npart in (1, 3, 4):
        d = dx.from_pandas(per, npartitions=npart)
        for freq in (None, "M", "D", "Q", "h", "W", "Y"):
            for how in ("start", "end"):
                try:
                    exp = per.to_timestamp(freq=freq, how=how)
                except Exception:
                    continue
                q = d.to_timestamp(freq=freq, how=how)
                parts = [p.compute() for p in q.to_delayed()]
                got = pd.concat(parts)
                if not got.equals(exp):
                    print("DIFF", base_freq, npart, freq, how); bad += 1; continue
                divs = q.divisions
                if divs[0] is not None:
                    for i, p in enumerate(parts):
                        if len(p) and not (divs[i] <= p.index.min() and (p.index.max() < divs[i+1] or (i == len(parts)-1 and p.index.max() <= divs[i+1]))):
                            print("UNTRUTHFUL", base_freq, npart, freq, how, divs, p.index.min(), p.index.max()); bad += 1; break
print("bad", bad)
sys.exit(1 if bad else 0)
