"""I3: selecting from the result of mode() / of a reduction.

Every case compares ``query[selection].compute()`` with ``query.compute()[selection]``
(and with pandas where the full result agrees with pandas).
"""
import sys

import dask
import numpy as np
import pandas as pd

import dask_expr

dask.config.set(scheduler="sync")

pdf = pd.DataFrame(
    {
        "a": [1, 2, 3, 4, 5, 6, 7, 8],
        "b": [1.0, np.nan, 3.4, 2.0, np.nan, 6.6, 2.5, 8.0],
        "c": [8.0, 7.0, np.nan, 5.0, 4.0, 3.0, 2.0, np.nan],
        "d": [1, 1, 1, 2, 2, 3, 3, 1],
        "e": [1, 1, 2, 2, 3, 3, 4, 4],
    }
)
df = dask_expr.from_pandas(pdf, npartitions=3)

queries = {
    "mode": lambda d: d.mode(),
    "mode of a,d": lambda d: d[["a", "d"]].mode(),
    "mode of d,e": lambda d: d[["d", "e"]].mode(),
    "mean": lambda d: d.mean(),
    "mean of one column": lambda d: d[["c"]].mean(),
    "skew": lambda d: d.skew(),
    "kurtosis": lambda d: d.kurtosis(),
    "sum": lambda d: d.sum(),
    "max": lambda d: d.max(),
    "count": lambda d: d.count(),
    "var": lambda d: d.var(),
    "std": lambda d: d.std(),
    "sem": lambda d: d.sem(),
    "idxmax": lambda d: d.idxmax(),
    "any": lambda d: (d > 2).any(),
    "sum + 1": lambda d: d.sum() + 1,
    "mean.fillna.abs": lambda d: d.mean().fillna(0).abs(),
}
selections = ["d", ["d"], ["a", "d"], ["d", "a"], "a", ["c"]]
# dask's skew / kurtosis differ from pandas by design (biased estimators)
not_pandas = {"skew", "kurtosis"}


def check(got, expected, reduction):
    if isinstance(expected, pd.Series):
        # the sum of int columns is an int once the float columns are gone
        pd.testing.assert_series_equal(got, expected, check_dtype=not reduction)
    elif isinstance(expected, pd.DataFrame):
        pd.testing.assert_frame_equal(got, expected)
    else:
        assert (got == expected) or (got != got and expected != expected) or np.isclose(
            got, expected
        ), (got, expected)


bad = 0
for name, q in queries.items():
    full = q(df).compute()
    for sel in selections:
        labels = sel if isinstance(sel, list) else [sel]
        if not all(lab in (full.columns if full.ndim == 2 else full.index) for lab in labels):
            continue
        try:
            got = q(df)[sel].compute()
            check(got, full[sel], full.ndim == 1)
            if name not in not_pandas:
                check(got, q(pdf)[sel], full.ndim == 1)
        except Exception as e:
            bad += 1
            print(f"FAIL [{name}][{sel!r}]: {type(e).__name__}: {str(e)[:200]}")

print("failures:", bad)
sys.exit(1 if bad else 0)
