"""G4: arrow reader on a dataset written with write_metadata_file=True.

read_parquet(d, filesystem='arrow', calculate_divisions=True) must work (and
return the same data / divisions as the fsspec reader), as must everything else
that needs file statistics (lengths, column projection + fused reads).
"""
import shutil
import sys
import tempfile
import traceback

import dask
import pandas as pd

dask.config.set(scheduler="sync")

from dask_expr import from_pandas, read_parquet  # noqa: E402

d = tempfile.mkdtemp(prefix="G4_")
pdf = pd.DataFrame(
    {"a": range(40), "b": [float(i) for i in range(40)], "c": [i % 3 for i in range(40)]},
    index=pd.Index(range(100, 140), name="idx"),
)
from_pandas(pdf, 4).to_parquet(d, write_metadata_file=True)

ok = True


def check(label, fn, expected):
    global ok
    try:
        got = fn()
        if isinstance(expected, pd.DataFrame):
            good = got.shape == expected.shape and got.sort_index().equals(
                expected.sort_index()
            )
            shown = got.shape
        else:
            good = got == expected
            shown = got
        print(f"{label}: {shown} -> {'ok' if good else f'BAD (expected {expected})'}")
        ok &= bool(good)
    except Exception as e:  # noqa: BLE001
        print(f"{label}: BAD {type(e).__name__}: {str(e)[:120]}")
        traceback.print_exc(limit=2)
        ok = False


ref = read_parquet(d, calculate_divisions=True)
ref_div = ref.divisions
print("fsspec divisions", ref_div)


def arrow(**kw):
    return read_parquet(d, filesystem="arrow", **kw)


check("divisions", lambda: arrow(calculate_divisions=True).divisions, ref_div)
check("compute", lambda: arrow(calculate_divisions=True).compute(), pdf)
check("compute (no divisions)", lambda: arrow().compute(), pdf)
check("len", lambda: len(arrow()), 40)
check("len divisions", lambda: len(arrow(calculate_divisions=True)), 40)
check(
    "map_partitions(len)",
    lambda: tuple(arrow().map_partitions(len).compute()),
    (10, 10, 10, 10),
)
check("projection", lambda: arrow()[["a"]].compute(), pdf[["a"]])
check(
    "projection divisions",
    lambda: arrow(calculate_divisions=True)[["a"]].compute(),
    pdf[["a"]],
)
check(
    "projection fused divisions",
    lambda: (arrow(calculate_divisions=True)[["a"]] + 1).optimize(fuse=False).divisions[0],
    ref_div[0],
)
check("filter", lambda: (lambda df: df[df.a > 25])(arrow()).compute(), pdf[pdf.a > 25])
check(
    "loc with divisions",
    lambda: arrow(calculate_divisions=True).loc[105:125].compute(),
    pdf.loc[105:125],
)
check(
    "ignore_metadata_file",
    lambda: arrow(calculate_divisions=True, ignore_metadata_file=True).divisions,
    ref_div,
)

shutil.rmtree(d, ignore_errors=True)
sys.exit(0 if ok else 1)
