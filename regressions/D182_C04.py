import sys
import pandas as pd, dask
import dask_expr as dx
dask.config.set(scheduler='sync')
bad = 0
def check(label, f, exp):
    global bad
    try:
        got = f()
        ok = list(got.columns) == list(exp.columns) and got.reset_index(drop=True).equals(exp.reset_index(drop=True))
        msg = '' if ok else f'{list(got.columns)} vs {list(exp.columns)}'
    except Exception as e:
        ok = False; msg = f'{type(e).__name__}: {e}'
    print(label, 'OK' if ok else 'BAD', msg)
    bad += not ok

pdf2 = pd.DataFrame({'index': range(10, 19), 'a': range(9), 'c': [1.5] * 9})
df2 = dx.from_pandas(pdf2, 3)
exp = pdf2.reset_index()
for cols in (['level_0'], ['level_0', 'a'], ['a', 'level_0'], ['a'], ['index'], ['index', 'level_0'], ['level_0', 'index', 'a', 'c']):
    check(f'index col {cols}', lambda: df2.reset_index()[cols].compute(), exp[cols])
check('index col scalar level_0', lambda: df2.reset_index()['level_0'].to_frame().compute(), exp[['level_0']])
check('index col scalar a', lambda: df2.reset_index()['a'].to_frame().compute(), exp[['a']])

# both 'index' and 'level_0' real columns is an error in pandas; named index clash
pdf3 = pd.DataFrame({'a': range(9), 'c': [1.5] * 9})
df3 = dx.from_pandas(pdf3, 3)
exp3 = pdf3.reset_index()
for cols in (['index'], ['index', 'a'], ['a']):
    check(f'plain {cols}', lambda: df3.reset_index()[cols].compute(), exp3[cols])
pdf4 = pdf3.rename_axis('idx')
df4 = dx.from_pandas(pdf4, 3)
exp4 = pdf4.reset_index()
for cols in (['idx'], ['idx', 'c'], ['c']):
    check(f'named {cols}', lambda: df4.reset_index()[cols].compute(), exp4[cols])
sys.exit(1 if bad else 0)
