import sys
import dask
import pandas as pd
import dask_expr as dx

dask.config.set(scheduler="sync")
bad = 0


def check(name, build, exp, drop=False):
    global bad
    try:
        got = build().compute()
        # the index of a merge on columns is not meaningful
        got, exp = got.reset_index(drop=drop), exp.reset_index(drop=drop)
        got = got.sort_values(list(got.columns)).reset_index(drop=True)
        exp = exp.sort_values(list(exp.columns)).reset_index(drop=True)
        pd.testing.assert_frame_equal(got, exp, check_dtype=False)
    except Exception as e:
        bad += 1
        print("FAIL", name, type(e).__name__, str(e).splitlines()[0] if str(e) else "")


L = pd.DataFrame({0: [1, 2, 3, 4, 5, 6, 1, 2], "x": range(8)})
R = pd.DataFrame({0: [6, 5, 4, 3, 2, 1, 7, 7], "y": range(10, 18)})
pl, pr = L.set_index(0), R.set_index(0)
# unknown divisions, index named 0
l = dx.from_pandas(pl, 3, sort=False)
r = dx.from_pandas(pr, 2, sort=False)
assert not l.known_divisions and not r.known_divisions
for how in ("inner", "left", "outer"):
    check(
        f"index join tasks {how}",
        lambda: l.merge(r, left_index=True, right_index=True, how=how, shuffle_method="tasks", broadcast=False),
        pl.merge(pr, left_index=True, right_index=True, how=how),
    )
check(
    "index join default",
    lambda: l.merge(r, left_index=True, right_index=True),
    pl.merge(pr, left_index=True, right_index=True),
)
check(
    "left_index / right_on=0",
    lambda: l.merge(dx.from_pandas(R, 2), left_index=True, right_on=0, shuffle_method="tasks", broadcast=False),
    pl.merge(R, left_index=True, right_on=0),
)
check(
    "left_on=0, right_on=0",
    lambda: dx.from_pandas(L, 3).merge(dx.from_pandas(R, 2), left_on=0, right_on=0, shuffle_method="tasks", broadcast=False),
    L.merge(R, left_on=0, right_on=0),
    drop=True,
)
check(
    "left_on=0, right_on=0 broadcast",
    lambda: dx.from_pandas(L, 3).merge(dx.from_pandas(R, 2), left_on=0, right_on=0, how="left", broadcast=True),
    L.merge(R, left_on=0, right_on=0, how="left"),
    drop=True,
)
# index named by a string keeps working
pl2, pr2 = pl.rename_axis("k"), pr.rename_axis("k")
check(
    "index join named k",
    lambda: dx.from_pandas(pl2, 3, sort=False).merge(
        dx.from_pandas(pr2, 2, sort=False), left_index=True, right_index=True, shuffle_method="tasks", broadcast=False
    ),
    pl2.merge(pr2, left_index=True, right_index=True),
)
sys.exit(1 if bad else 0)
