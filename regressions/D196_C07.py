import sys
import os
sys.path.insert(0, os.path.dirname(os.path.abspath(__file__)))
import dask
import pandas as pd
import fixV_common as common  # noqa: F401
from dask_expr import concat, from_pandas

rc = 0
pi = pd.Series([1, 2, 3, 4], name="x")
pf = pd.Series([0.5, 1.5, 2.5, 3.5], name="x", index=[4, 5, 6, 7])
pb = pd.Series([True, False], name="x", index=[8, 9])


def check(name, parts, pparts):
    global rc
    q = concat(parts)
    expected = pd.concat(pparts)
    opt = q.optimize()
    partitions = dask.compute(*opt.to_delayed())
    dtypes = {str(p.dtype) for p in partitions}
    got = q.compute()
    ok = (
        dtypes == {str(q._meta.dtype)}
        and str(q._meta.dtype) == str(opt._meta.dtype) == str(got.dtype) == str(expected.dtype)
        and got.tolist() == expected.tolist()
    )
    print(name, "declared", q._meta.dtype, "partitions", sorted(dtypes), "computed", got.dtype,
          "pandas", expected.dtype, "OK" if ok else "MISMATCH")
    if not ok:
        rc = 1


check("int + float", [from_pandas(pi, npartitions=2), from_pandas(pf, npartitions=2)], [pi, pf])
check("float + int", [from_pandas(pf.rename(index=lambda i: i - 10), npartitions=2), from_pandas(pi, npartitions=2)],
      [pf.rename(index=lambda i: i - 10), pi])
check("int32 + int64", [from_pandas(pi.astype("int32"), npartitions=2), from_pandas(pi + 10, npartitions=1)],
      [pi.astype("int32"), pi + 10])
# a Series with a DataFrame: nothing to cast, must not raise
q = concat([from_pandas(pi, npartitions=2), from_pandas(pf.to_frame("y"), npartitions=1)])
if not q.compute().equals(pd.concat([pi, pf.to_frame("y")])):
    print("series + frame differs")
    rc = 1
check("int + int", [from_pandas(pi, npartitions=2), from_pandas(pi + 10, npartitions=1)], [pi, pi + 10])
sys.exit(rc)
