"""I1: column selection pushed into elementwise ops whose argument is keyed by column."""
import sys
import traceback

import dask
import numpy as np
import pandas as pd

import dask_expr

dask.config.set(scheduler="sync")

pdf = pd.DataFrame(
    {
        "a": [1, 2, 3, 4, 5, 6, 7, 8],
        "b": [1.0, np.nan, 3.4, 2.0, np.nan, 6.6, 2.5, 8.0],
        "c": [8.0, 7.0, np.nan, 5.0, 4.0, 3.0, 2.0, np.nan],
    }
)
df = dask_expr.from_pandas(pdf, npartitions=3)

cases = {
    "fillna dict -> series": lambda d: d.fillna({"a": 0, "b": 100})["b"],
    "fillna dict -> list": lambda d: d.fillna({"a": 0, "b": 100})[["b", "c"]],
    "fillna series value": lambda d: d.fillna(pd.Series({"a": 0, "b": 100}))["b"],
    "fillna scalar": lambda d: d.fillna(5)["b"],
    "isin dict": lambda d: d.isin({"a": [1], "b": [2.0]})["b"],
    "isin dict list": lambda d: d.isin({"a": [1], "b": [2.0]})[["b"]],
    "isin list": lambda d: d.isin([1, 2.0])["b"],
    "round dict": lambda d: d[["a", "b"]].round({"b": 0})["b"],
    "round dict other": lambda d: d[["a", "b"]].round({"b": 0})["a"],
    "round series": lambda d: d[["a", "b"]].round(pd.Series({"b": 0}))["b"],
    "round int": lambda d: d.round(0)["b"],
    "replace nested dict": lambda d: d.replace({"a": {1: 100}})["a"],
    "replace nested dict other": lambda d: d.replace({"a": {1: 100}})["b"],
    "replace nested dict list": lambda d: d.replace({"a": {1: 100}})[["a", "b"]],
    "replace dict+value": lambda d: d.replace({"a": 1, "b": 2.0}, 55)["b"],
    "replace flat dict": lambda d: d.replace({1: 100, 2.0: 200})["a"],
    "replace scalar": lambda d: d.replace(1, 100)["a"],
    "where frame cond": lambda d: (lambda x: x.where(x > 2)["a"])(d[["a", "b"]]),
    "where frame cond list": lambda d: (lambda x: x.where(x > 2)[["a"]])(d[["a", "b"]]),
    "where frame cond+other": lambda d: (lambda x: x.where(x > 2, x * 10)["b"])(
        d[["a", "b"]]
    ),
    "mask frame cond+other": lambda d: (lambda x: x.mask(x > 2, x * 10)["b"])(
        d[["a", "b"]]
    ),
    "mask frame cond": lambda d: (lambda x: x.mask(x > 2)["a"])(d[["a", "b"]]),
    "mask series cond": lambda d: d.mask(d.a > 2, 7)["b"],
    "where series cond": lambda d: d.where(d.a > 2, 7)[["b", "c"]],
    "mask frame cond+other list": lambda d: (lambda x: x.mask(x > 2, x * 10)[["b"]])(
        d[["a", "b"]]
    ),
    "replace nested dict list other": lambda d: d.replace({"a": {1: 100}})[["b", "c"]],
    "single column frame": lambda d: d[["b"]].fillna({"b": 1})["b"],
    "clip": lambda d: d.clip(2, 5)["b"],
}

bad = 0
for name, f in cases.items():
    expected = f(pdf)
    try:
        got = f(df).compute()
        if isinstance(expected, pd.Series):
            pd.testing.assert_series_equal(got, expected)
        else:
            pd.testing.assert_frame_equal(got, expected)
    except Exception as e:
        bad += 1
        print(f"FAIL [{name}]: {type(e).__name__}: {str(e)[:150]}")

print("failures:", bad)
sys.exit(1 if bad else 0)
