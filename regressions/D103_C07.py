import sys
import dask
import pandas as pd
import dask_expr as dx

dask.config.set(scheduler="sync")
bad = []

pdf = pd.DataFrame({"a": [1, 2, 3, 4, 5, 6], "b": [1.5, 2.5, 3.5, 4.5, 5.5, 6.5],
                    "c": list("xyzxyz")})
df = dx.from_pandas(pdf, npartitions=2)


def check(tag, expected, coll):
    for label in ("plain", "optimized"):
        try:
            c = coll if label == "plain" else coll.optimize()
            meta = c._meta
            got = c.compute()
            if isinstance(expected, pd.DataFrame):
                assert list(meta.columns) == list(got.columns) == list(expected.columns), (
                    list(meta.columns), list(got.columns), list(expected.columns))
                pd.testing.assert_frame_equal(got, expected, check_dtype=False, check_column_type=False)
            else:
                assert meta.name == got.name == expected.name, (meta.name, got.name, expected.name)
                pd.testing.assert_series_equal(got, expected, check_dtype=False)
        except Exception as e:  # noqa
            bad.append(f"{tag}/{label}: {type(e).__name__}: {e}")


pc = pd.concat([pdf.a.rename(None), pdf[["c"]], pdf.b.rename(None)], axis=1)
c = dx.concat([df.a.rename(None), df[["c"]], df.b.rename(None)], axis=1)
assert list(pc.columns) == [0, "c", 1]
check("all", pc, c)
check("[[1]]", pc[[1]], c[[1]])
check("[1]", pc[1], c[1])
check("[[0]]", pc[[0]], c[[0]])
check("[0]", pc[0], c[0])
check("[['c']]", pc[["c"]], c[["c"]])
check("['c']", pc["c"], c["c"])
check("[[1, 'c']]", pc[[1, "c"]], c[[1, "c"]])
check("[[0, 1]]", pc[[0, 1]], c[[0, 1]])

# one unnamed and one named Series
pc2 = pd.concat([pdf.a, pdf[["c"]], pdf.b.rename(None)], axis=1)
c2 = dx.concat([df.a, df[["c"]], df.b.rename(None)], axis=1)
check("named[[0]]", pc2[[0]], c2[[0]])
check("named[0]", pc2[0], c2[0])
check("named['a']", pc2["a"], c2["a"])
check("named[['c', 'a']]", pc2[["c", "a"]], c2[["c", "a"]])

for b in bad:
    print("DEFECT:", b)
sys.exit(1 if bad else 0)
