from fixE_common import *

rng = np.random.default_rng(0)
pdf = pd.DataFrame(
    {"x": np.arange(100), "b": rng.permutation(100), "c": rng.integers(0, 5, 100)},
    index=np.arange(1000, 1100),
)
df = dask_expr.from_pandas(pdf, npartitions=10)
one = dask_expr.from_pandas(pdf, npartitions=1)

# (a) divisions
for name, coll in [
    ("presorted x, ignore_index", df.sort_values("x", ignore_index=True)),
    ("presorted x, ignore_index, 1 partition", one.sort_values("x", ignore_index=True)),
    ("shuffled b, ignore_index", df.sort_values("b", ignore_index=True)),
    ("presorted x", df.sort_values("x")),
    ("1 partition b", one.sort_values("b")),
]:
    divisions_truthful(coll, name)
    divisions_truthful(coll.optimize(), name + " optimized")
    full = coll.compute()
    check(list(full.x) == list(pdf.sort_values(coll.expr.by).x), name + ": values sorted like pandas")
check(df.sort_values("x").optimize().known_divisions, "presorted x without ignore_index keeps divisions")

# (b) head / tail agree with the fully computed collection
for by in ["b", "x"]:
    for ignore_index in [True, False]:
        s = df.sort_values(by, ignore_index=ignore_index)
        # the partitions of the collection, concatenated (compute() first repartitions
        # to one partition, which labels an ignore_index sort 0..n-1 globally)
        full = pd.concat(parts(s))
        check(full.head(3).equals(s.compute().head(3)), "partitions and compute() agree on the head")
        for n in [3, 1]:
            h = s.head(n)
            check(h.equals(full.head(n)), f"sort_values({by!r}, ignore_index={ignore_index}).head({n}) index {list(h.index)} == {list(full.head(n).index)}")
            t = s.tail(n)
            check(t.equals(full.tail(n)), f"sort_values({by!r}, ignore_index={ignore_index}).tail({n}) index {list(t.index)} == {list(full.tail(n).index)}")
        h = s[["c"]].head(3)
        check(h.equals(full[["c"]].head(3)), f"sort_values({by!r}, ignore_index={ignore_index})[['c']].head(3)")

# the head of a sort stays a reduction (no shuffle)
q = df.sort_values("b", ignore_index=True).head(3, compute=False).optimize()
check(not any("Shuffle" in type(e).__name__ for e in q.expr.walk()), "head of sort_values(ignore_index=True) does not shuffle")
finish()
