import sys
import os
sys.path.insert(0, os.path.dirname(os.path.abspath(__file__)))
import numpy as np
import pandas as pd
from fixV_common import compute_unoptimized
from dask_expr import from_pandas

pdf = pd.DataFrame({"a": range(8), "b": [1.0, np.nan, 3.0, 4.0, 5.0, np.nan, 7.0, 8.0],
                    "s": ["1", "x", "3", "4", "5", "y", "7", "8"]})
x = from_pandas(pdf, npartitions=2)
rc = 0


def check(name, q, expected):
    global rc
    try:
        got = q.compute()
    except Exception as e:
        print(name, "raises", type(e).__name__, e)
        rc = 1
        return
    ok = got["a"].tolist() == expected["a"].tolist()
    print(name, got["a"].tolist(), expected["a"].tolist(), "OK" if ok else "MISMATCH")
    if not ok:
        rc = 1


f = x[x.b.notnull()]
pf = pdf[pdf.b.notnull()]
check("astype int", f[f.b.astype("int64") > 3], pf[pf.b.astype("int64") > 3])

f = x[x.s.str.isdigit()]
pf = pdf[pdf.s.str.isdigit()]
check("astype from str", f[f.s.astype("int64") > 3], pf[pf.s.astype("int64") > 3])

f = x[x.b.notnull()]
pf = pdf[pdf.b.notnull()]
check("three filters", f[f.b.astype("int64") > 3][f.a < 7], pf[pf.b.astype("int64") > 3][pf.a < 7])

f = x[x.s.str.isdigit()]
pf = pdf[pdf.s.str.isdigit()]
check("apply udf", f[f.s.apply(int, meta=("s", "int64")) > 3], pf[pf.s.apply(int) > 3])
check("map udf", f[f.s.map(int, meta=("s", "int64")) > 3], pf[pf.s.map(int) > 3])

# plain predicates are still merged into one filter
f = x[x.a > 1]
q = f[f.b > 3]
check("plain", q, pdf[pdf.a > 1][pdf.b > 3])
from dask_expr._expr import Filter
opt = q.optimize(fuse=False).expr
n = sum(isinstance(e, Filter) for e in opt.walk())
print("filters in optimized plain plan:", n)
if n != 1:
    rc = 1
sys.exit(rc)
