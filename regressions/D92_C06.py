"""G6: reordered partition selection over a fused multi-file read must not report
non-monotonic divisions; sorted selections keep correct divisions.
"""
import shutil
import sys
import tempfile

import dask
import pandas as pd

dask.config.set(scheduler="sync")

from dask_expr import from_pandas, read_parquet  # noqa: E402

d = tempfile.mkdtemp(prefix="G6_")
pdf = pd.DataFrame(
    {"a": range(64), "b": [float(i) for i in range(64)], "c": [i % 3 for i in range(64)],
     "e": [str(i) * 5 for i in range(64)]},
    index=pd.Index([100 + i for i in range(64)], name="idx"),
)
from_pandas(pdf, 8).to_parquet(d)

ok = True


def valid(divs, parts):
    """divs valid for the list of computed partitions"""
    if len(divs) != len(parts) + 1:
        return False
    if all(x is None for x in divs):
        return True
    if any(x is None for x in divs):
        return False
    if list(divs) != sorted(divs):
        return False
    for i, p in enumerate(parts):
        if len(p) == 0:
            continue
        lo, hi = divs[i], divs[i + 1]
        last = i == len(parts) - 1
        if p.index.min() < lo or (p.index.max() > hi if last else p.index.max() >= hi):
            return False
    return True


for fs in ["fsspec", "arrow"]:
    for sel in [[5, 3, 1, 0], [0, 1, 3, 5], [7, 6], [2, 2, 4], [1, 4, 5, 6, 7], [3], None]:
        df = read_parquet(d, filesystem=fs, calculate_divisions=True)
        assert df.npartitions == 8 and df.known_divisions, (df.npartitions, df.divisions)
        s = df.partitions[sel] if sel is not None else df
        q = s[["a"]] + 1
        before = q.divisions
        opt = q.optimize(fuse=False)
        after = opt.divisions
        parts = [opt.partitions[i].compute() for i in range(opt.npartitions)]
        exp_rows = sum(10 * 0 + 8 for _ in (sel if sel is not None else range(8)))
        good = valid(after, parts) and sum(len(p) for p in parts) == exp_rows
        good &= valid(before, [s.partitions[i].compute() for i in range(s.npartitions)])
        # sorted selections must keep known divisions (no lost optimization)
        if sel is None or sel == sorted(set(sel)):
            good &= all(x is not None for x in after)
        print(f"{fs:6s} partitions[{sel}]: before {before} fused {after} -> "
              f"{'ok' if good else 'BAD'}")
        ok &= good

shutil.rmtree(d, ignore_errors=True)
sys.exit(0 if ok else 1)
