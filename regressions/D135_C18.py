"""O3: user-supplied `in` filter followed by a pushed-down predicate crashes."""
import os
import sys
import tempfile

import dask
import pandas as pd

import dask_expr as dx

dask.config.set(scheduler="sync")
d = tempfile.mkdtemp()
p = os.path.join(d, "ds.parquet")
pdf = pd.DataFrame({"a": range(40), "b": list(range(8)) * 5, "c": list("abcd") * 10})
dx.from_pandas(pdf, npartitions=2).to_parquet(p)

fail = 0


def check(name, make, expected):
    global fail
    try:
        got = make().compute()
        pd.testing.assert_frame_equal(
            got.sort_index(), expected, check_dtype=False, check_index_type=False
        )
    except Exception as e:
        print("FAIL", name, type(e).__name__, e)
        fail = 1


def q1():
    r = dx.read_parquet(p, filesystem="arrow", filters=[("a", "in", [1, 2, 30])])
    return r[r.b > 1]


check("in list", q1, pdf[pdf.a.isin([1, 2, 30]) & (pdf.b > 1)])


def q2():
    r = dx.read_parquet(p, filesystem="arrow", filters=[[("a", "in", [1, 2, 30])], [("c", "not in", ["a", "b", "c"])]])
    return r[(r.b > 1) & (r.a < 35)]


check(
    "or of in lists",
    q2,
    pdf[(pdf.a.isin([1, 2, 30]) | ~pdf.c.isin(["a", "b", "c"])) & (pdf.b > 1) & (pdf.a < 35)],
)


def q3():
    r = dx.read_parquet(p, filesystem="arrow", filters=[("a", "in", {1, 2, 30})])
    return r[r.b > 1]


check("in set", q3, pdf[pdf.a.isin([1, 2, 30]) & (pdf.b > 1)])


def q4():
    r = dx.read_parquet(p, filesystem="arrow", filters=[("a", "in", (1, 2, 30))])
    return r[r.b > 1]


check("in tuple", q4, pdf[pdf.a.isin([1, 2, 30]) & (pdf.b > 1)])

# the pushed-down plan is the same query: names must agree between equal queries
n1 = q1().optimize()._name
n2 = q1().optimize()._name
if n1 != n2:
    print("FAIL names differ")
    fail = 1

# ... and between interpreters (set values)
import subprocess

CHILD = """
import sys, dask_expr as dx
r = dx.read_parquet(sys.argv[1], filesystem="arrow", filters=[("c", "in", {"a", "b", "d"})])
print(r[r.b > 1].optimize()._name)
"""
outs = set()
for seed in range(1, 6):
    env = dict(os.environ, PYTHONHASHSEED=str(seed))
    res = subprocess.run([sys.executable, "-c", CHILD, p], env=env, capture_output=True, text=True)
    outs.add(res.stdout if res.returncode == 0 else res.stderr[-300:])
if len(outs) != 1:
    print("FAIL names differ across hash seeds", outs)
    fail = 1
sys.exit(fail)
