"""G5: fsspec reader, files whose index ranges touch (0..5 and 5..10, the value 5
in both files). Divisions (0, 5, 10) would claim that every row labelled 5 lives
in the second partition, so df.loc[5] loses a row.
"""
import os
import shutil
import sys
import tempfile

import dask
import pandas as pd

dask.config.set(scheduler="sync")

from dask_expr import read_parquet  # noqa: E402

ok = True


def write(frames):
    d = tempfile.mkdtemp(prefix="G5_")
    for i, f in enumerate(frames):
        f.to_parquet(os.path.join(d, f"part.{i}.parquet"))
    return d


def frame(lo, hi, off=0):
    idx = pd.Index(list(range(lo, hi + 1)), name="idx")  # not a RangeIndex
    return pd.DataFrame({"a": [off + i for i in range(len(idx))]}, index=idx)


def valid_divisions(divs, frames):
    """divisions are valid iff partition i holds only labels in [d_i, d_i+1)
    (the last one in [d_n-1, d_n])"""
    if divs[0] is None:
        return True
    for i, f in enumerate(frames):
        lo, hi = divs[i], divs[i + 1]
        last = i == len(frames) - 1
        if not ((f.index >= lo).all() and ((f.index <= hi) if last else (f.index < hi)).all()):
            return False
    return True


def check(label, frames, probes):
    global ok
    d = write(frames)
    pdf = pd.concat(frames)
    try:
        for fs in ["fsspec", "arrow"]:
            df = read_parquet(d, filesystem=fs, calculate_divisions=True)
            divs = df.divisions
            good = valid_divisions(divs, frames)
            for key in probes:
                got = df.loc[key].compute()
                exp = pdf.loc[[key]] if not isinstance(key, slice) else pdf.loc[key]
                exp = exp.sort_index()
                g = len(got) == len(exp) and sorted(got.a) == sorted(exp.a)
                if not g:
                    print(f"   {fs} loc[{key}] -> {len(got)} rows, pandas {len(exp)}")
                good &= g
            print(f"{label} [{fs}]: divisions {divs} -> {'ok' if good else 'BAD'}")
            ok &= good
    finally:
        shutil.rmtree(d, ignore_errors=True)


# touching ranges: 5 is in both files
check("touching 0..5 / 5..10", [frame(0, 5), frame(5, 10, 100)], [5, 4, 6])
check(
    "touching, three files",
    [frame(0, 5), frame(5, 10, 100), frame(10, 15, 200)],
    [5, 10, 0, 15],
)
# disjoint ranges keep their divisions
d = write([frame(0, 4), frame(5, 10, 100)])
for fs in ["fsspec", "arrow"]:
    divs = read_parquet(d, filesystem=fs, calculate_divisions=True).divisions
    good = divs == (0, 5, 10)
    print(f"disjoint [{fs}]: divisions {divs} -> {'ok' if good else 'BAD'}")
    ok &= good
shutil.rmtree(d, ignore_errors=True)
check("disjoint loc", [frame(0, 4), frame(5, 10, 100)], [5, 4, slice(3, 6)])

sys.exit(0 if ok else 1)
