"""D5: npartitions of set_index / sort_values(npartitions=n) must agree with
the divisions and with the number of partitions that are computed."""
import sys

import dask
import numpy as np
import pandas as pd

import dask_expr
from dask_expr import from_pandas

dask.config.set(scheduler="sync")
print("dask_expr from", dask_expr.__file__)

pdf = pd.DataFrame({"x": np.arange(60)})
pdf["y"] = pdf.x % 3
pdf["z"] = (pdf.x * 7) % 60

bad = 0


def check(label, coll, exp, key):
    global bad
    problems = []
    nparts = coll.npartitions
    ndivs = len(coll.divisions) - 1
    if nparts != ndivs:
        problems.append(f"npartitions={nparts} but {ndivs + 1} divisions")
    opt = coll.optimize()
    if opt.npartitions != nparts:
        problems.append(f"npartitions={nparts} but optimized plan has {opt.npartitions}")
    parts = dask.compute(*coll.to_delayed())
    if len(parts) != nparts:
        problems.append(f"npartitions={nparts} but {len(parts)} partitions computed")
    # partitions addressable and complete
    try:
        got = pd.concat([coll.partitions[i].compute() for i in range(nparts)])
    except Exception as e:
        problems.append(f"partitions[i] raised {type(e).__name__}: {e}")
        got = None
    if got is not None:
        g = key(got)
        e = key(exp)
        if g != e:
            problems.append("rows differ from pandas")
    if key(coll.compute()) != key(exp):
        problems.append("compute() differs from pandas")
    # something that consumes npartitions downstream
    try:
        lens = coll.map_partitions(len).compute()
        if len(lens) != nparts or lens.sum() != len(exp):
            problems.append(f"map_partitions(len) gave {lens.tolist()}")
    except Exception as e:
        problems.append(f"map_partitions raised {type(e).__name__}: {e}")
    if problems:
        bad += 1
        print("MISMATCH", label)
        for p in problems:
            print("   ", p)


for src_parts in (1, 2, 5, 8):
    df = from_pandas(pdf, npartitions=src_parts)
    for n in (12, 8, 4, 2):
        for col in ("y", "z", "x"):
            check(
                f"set_index({col!r}, npartitions={n}) from {src_parts}",
                df.set_index(col, npartitions=n),
                pdf.set_index(col).sort_index(),
                lambda f: (f.index.tolist(), sorted(f.reset_index().x.tolist())),
            )
            check(
                f"sort_values({col!r}, npartitions={n}) from {src_parts}",
                df.sort_values(col, npartitions=n),
                pdf.sort_values(col),
                lambda f, col=col: (f[col].tolist(), sorted(f.x.tolist())),
            )
    for col in ("y", "z", "x"):
        check(
            f"set_index({col!r}) from {src_parts}",
            df.set_index(col),
            pdf.set_index(col).sort_index(),
            lambda f: (f.index.tolist(), sorted(f.reset_index().x.tolist())),
        )
        check(
            f"sort_values({col!r}) from {src_parts}",
            df.sort_values(col),
            pdf.sort_values(col),
            lambda f, col=col: (f[col].tolist(), sorted(f.x.tolist())),
        )

print("mismatches:", bad)
sys.exit(1 if bad else 0)
