import sys
import os
sys.path.insert(0, os.path.dirname(os.path.abspath(__file__)))
import dask
import pandas as pd
import fixV_common as common  # noqa: F401
from dask_expr import from_pandas

rc = 0
pdf = pd.DataFrame(
    {"a": [5, 3, 8, 1, 9, 2, 7, 4, 6, 0], "b": range(10)},
    index=pd.Index([float(i) / 2 for i in range(10)], name="idx"),
)


def describe(index):
    return (type(index).__name__ if False else "", str(index.dtype), index.name)


def check(name, q, expected):
    global rc
    states = {
        "declared": describe(q._meta.index),
        "optimized": describe(q.optimize()._meta.index),
        "lowered": describe(q.expr.lower_completely()._meta.index),
        "pandas": describe(expected.index),
    }
    parts = dask.compute(*q.optimize().to_delayed())
    states["partitions"] = sorted({describe(p.index) for p in parts if len(p)}, key=repr)
    states["partitions"] = states["partitions"][0] if len(states["partitions"]) == 1 else states["partitions"]
    ok = len({repr(v) for v in states.values()}) == 1
    got = q.compute()
    if got["b"].tolist() != expected["b"].tolist():
        ok = False
    print(name, "OK" if ok else "MISMATCH", states)
    if not ok:
        rc = 1


for npart in (1, 3):
    d = from_pandas(pdf, npartitions=npart)
    check(f"ignore_index np={npart}", d.sort_values("a", ignore_index=True), pdf.sort_values("a", ignore_index=True))
    check(f"keep index np={npart}", d.sort_values("a"), pdf.sort_values("a"))
    check(f"ignore_index presorted np={npart}", d.sort_values("b", ignore_index=True), pdf.sort_values("b", ignore_index=True))
    check(f"ignore_index column np={npart}", d.sort_values("a", ignore_index=True)[["b"]],
          pdf.sort_values("a", ignore_index=True)[["b"]])
sys.exit(rc)
