import sys
import warnings
import dask
import numpy as np
import pandas as pd
from dask_expr import from_pandas

warnings.simplefilter("ignore")
dask.config.set(scheduler="sync")
bad = []


def unoptimized(coll):
    e = coll.expr.lower_completely()
    res = dask.get(e.__dask_graph__(), e.__dask_keys__())
    return pd.concat(list(res))


def same(got, expected):
    return (
        got.index.nlevels == expected.index.nlevels
        and list(got.index.names) == list(expected.index.names)
        and got.equals(expected)
    )


# (a) presorted column, head / tail through the SetIndex rewrite
pdf = pd.DataFrame({"c": range(20), "y": range(19, -1, -1), "z": np.arange(20) * 0.5})
df = from_pandas(pdf, npartitions=4)
q = df.set_index("c", append=True)
expected_full = pdf.set_index("c", append=True)
if not same(q.compute(), expected_full):
    bad.append(("a.full", q.compute().index.nlevels))
for meth, n in [("head", 3), ("tail", 3), ("head", -2)]:
    lazy = getattr(q, meth)(n, compute=False)
    unopt = unoptimized(lazy)
    assert unopt.index.nlevels == 2, unopt
    got = lazy.compute()
    if not same(got, unopt):
        bad.append(("a", meth, n, got.index.nlevels, unopt.index.nlevels))
    if lazy._meta.index.nlevels != 2:
        bad.append(("a.meta", meth, n, lazy._meta.index.nlevels))
if q._meta.index.nlevels != 2:
    bad.append(("a.meta", q._meta.index.nlevels))

# the same with an old index that isn't sorted, and on a single partition
pdf2 = pdf.set_axis(list(range(7, 27))[::-1])
for npart in (4, 1):
    q2 = from_pandas(pdf2, npartitions=npart, sort=False).set_index("c", append=True)
    for meth, n in [("head", 3), ("tail", 3)]:
        lazy = getattr(q2, meth)(n, compute=False)
        unopt = unoptimized(lazy)
        got = lazy.compute()
        if not same(got, unopt):
            bad.append(("a.unsorted", npart, meth, got.index.tolist(), unopt.index.tolist()))
one = from_pandas(pdf, npartitions=1).set_index("y", append=True)
if one.compute().index.nlevels != 2 or one.head(3).index.nlevels != 2:
    bad.append(("a.one_partition", one.compute().index.nlevels))

# (b) not presorted: MultiIndex like pandas, or NotImplementedError
for drop in (True, False):
    try:
        r = df.set_index("y", append=True, drop=drop)
        got = r.compute()
    except NotImplementedError:
        continue
    expected = pdf.set_index("y", append=True, drop=drop)
    if got.index.nlevels != 2 or not same(
        got.sort_index(level=[1, 0]), expected.sort_index(level=[1, 0])
    ):
        bad.append(("b", drop, got.index.nlevels, list(got.columns)))
    if r._meta.index.nlevels != 2:
        bad.append(("b.meta", drop))
# with user divisions as well
try:
    got = df.set_index("y", append=True, divisions=[0, 5, 12, 19]).compute()
    if got.index.nlevels != 2:
        bad.append(("b.user_divisions", got.index.nlevels))
except NotImplementedError:
    pass
# append=False is untouched
got = df.set_index("y").compute()
if not same(got, pdf.set_index("y").sort_index()):
    bad.append(("append=False",))

for b in bad:
    print("MISMATCH", b)
print("N4", "FAIL" if bad else "ok")
sys.exit(1 if bad else 0)
