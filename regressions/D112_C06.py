"""I2: len()/size obtained through the Len push-down differ from the computed data."""
import sys

import dask
import numpy as np
import pandas as pd

import dask_expr

dask.config.set(scheduler="sync")

pdf = pd.DataFrame(
    {
        "a": [1, 2, 3, 4, 5, 6, 7, 8],
        "b": [1.0, np.nan, 3.4, 2.0, np.nan, 6.6, 2.5, 8.0],
        "c": [8.0, 7.0, np.nan, 5.0, 4.0, 3.0, 2.0, np.nan],
    }
)
df = dask_expr.from_pandas(pdf, npartitions=3)
s1 = dask_expr.from_pandas(pdf.a, npartitions=1)
ps1 = pdf.a
df1 = dask_expr.from_pandas(pdf, npartitions=1)

cases = {
    "df[[]].size": (lambda: df[[]].size, pdf[[]].size),
    "df[['a']].size": (lambda: df[["a"]].size, pdf[["a"]].size),
    "df.size": (lambda: df.size, pdf.size),
    "df.a.size": (lambda: df.a.size, pdf.a.size),
    "df[[]].shape[0]": (lambda: df[[]].shape[0], pdf[[]].shape[0]),
    "df.shape[0]": (lambda: df.shape[0], pdf.shape[0]),
    "len(df[[]])": (lambda: len(df[[]]), len(pdf[[]])),
    "len(s.sum() + s)": (lambda: len(s1.sum() + s1), len(ps1.sum() + ps1)),
    "len(s + s.sum())": (lambda: len(s1 + s1.sum()), len(ps1 + ps1.sum())),
    "(s.sum() + s).size": (lambda: (s1.sum() + s1).size, (ps1.sum() + ps1).size),
    "len(df1.a.max() * df1)": (lambda: len(df1.a.max() * df1), len(pdf)),
    "(filtered + full).size": (
        lambda: (df[df.b > 2].a + df.a).size,
        (pdf[pdf.b > 2].a + pdf.a).size,
    ),
    "len(full + filtered)": (
        lambda: len(df.a + df[df.b > 2].a),
        len(pdf.a + pdf[pdf.b > 2].a),
    ),
    "len(frame full + filtered)": (
        lambda: len(df + df[df.b > 2]),
        len(pdf + pdf[pdf.b > 2]),
    ),
    "len(where filtered cond)": (
        lambda: len(df.a.where(df[df.b > 2].a > 3)),
        len(pdf.a.where(pdf[pdf.b > 2].a > 3)),
    ),
    "len(df.a + df.b)": (lambda: len(df.a + df.b), len(pdf)),
    "len((df.a + df.b) * df.c + 1)": (lambda: len((df.a + df.b) * df.c + 1), len(pdf)),
    "len(filtered a + filtered b)": (
        lambda: len(df[df.b > 2].a + df[df.b > 2].c),
        len(pdf[pdf.b > 2].a + pdf[pdf.b > 2].c),
    ),
}

bad = 0
for name, (f, expected) in cases.items():
    try:
        got = f()
        if not isinstance(got, int):
            got = got.compute()
        if got != expected:
            bad += 1
            print(f"FAIL [{name}]: got {got}, expected {expected}")
    except Exception as e:
        bad += 1
        print(f"FAIL [{name}]: {type(e).__name__}: {str(e)[:150]}")

# The push-down itself has to survive for operands with provably the same rows
from dask_expr._reductions import Len

opt = Len((df.a + df.b).expr).optimize()
if "Add" in str(opt.tree_repr()) or "add" in opt._name:
    bad += 1
    print("FAIL: Len(df.a + df.b) still computes the addition")

print("failures:", bad)
sys.exit(1 if bad else 0)
