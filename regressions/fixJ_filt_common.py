import sys
import warnings
import dask
import pandas as pd
import dask_expr as dx

dask.config.set(scheduler="sync")
warnings.simplefilter("ignore")
bad = []


def norm(x):
    if isinstance(x, pd.Series):
        x = x.to_frame()
    x = x.rename_axis('__index__').reset_index()
    x.columns = [str(c) for c in x.columns]
    return x.sort_values(list(x.columns)).reset_index(drop=True)


def check(tag, build, pobj, dobj, sort=True):
    """build(q) -> filtered q; compare dask with pandas"""
    try:
        expected = build(pobj)
    except Exception as e:  # noqa
        # pandas refuses: so must dask, when the query is built or computed
        try:
            got = build(dobj).compute()
        except Exception:  # noqa
            return
        bad.append(f"{tag}: pandas raises {type(e).__name__}, dask returns a {type(got).__name__}")
        return
    try:
        got = build(dobj).compute()
        assert type(got) is type(expected), (type(got), type(expected))
        if sort:
            pd.testing.assert_frame_equal(norm(got), norm(expected), check_dtype=False,
                                          check_index_type=False)
        elif isinstance(got, pd.Series):
            pd.testing.assert_series_equal(got, expected, check_dtype=False,
                                           check_index_type=False)
        else:
            pd.testing.assert_frame_equal(got, expected, check_dtype=False,
                                          check_index_type=False)
    except Exception as e:  # noqa
        msg = str(e).strip().splitlines()
        bad.append(f"{tag}: {type(e).__name__}: {' | '.join(msg[:1] + msg[-2:])}"[:400])


def finish():
    for b in bad:
        print("DEFECT:", b)
    sys.exit(1 if bad else 0)
