import sys
import dask
import pandas as pd
from dask_expr import from_pandas

dask.config.set(scheduler="sync")
bad = []


def check(pdf, col, nparts, k, labels):
    df = from_pandas(pdf, npartitions=nparts, sort=False)
    res = df.set_index(col, npartitions=k)
    expected = pdf.set_index(col)
    divs = res.divisions
    for stage, coll in (("raw", res), ("opt", res.optimize())):
        divs = coll.divisions
        parts = [p.compute() for p in coll.to_delayed()] if False else [
            coll.partitions[i].compute() for i in range(coll.npartitions)
        ]
        if len(divs) != len(parts) + 1:
            bad.append((stage, "npartitions", divs, len(parts)))
            continue
        if divs[0] is None:
            continue
        for i, p in enumerate(parts):
            if not len(p):
                continue
            lo, hi = divs[i], divs[i + 1]
            last = i == len(parts) - 1
            ok = p.index.min() >= lo and (
                p.index.max() <= hi if last else p.index.max() < hi
            )
            if not ok:
                bad.append((stage, "partition %d" % i, divs, p.index.tolist()))
    for lab in labels:
        got = res.loc[lab].compute()
        exp = expected.loc[[lab]]
        if len(got) != len(exp) or sorted(got.iloc[:, 0]) != sorted(exp.iloc[:, 0]):
            bad.append(("loc", lab, len(got), len(exp)))
    full = res.compute()
    if sorted(full.iloc[:, 0]) != sorted(expected.iloc[:, 0]) or not full.index.is_monotonic_increasing:
        bad.append(("compute", full.index.tolist()))


pdf = pd.DataFrame({"a": [0, 0, 1, 1, 11, 12, 13, 14, 24, 25, 25, 25], "b": range(12)})
check(pdf, "a", 3, 4, [11, 1, 24])
pdf = pd.DataFrame({"k": [0] * 5 + [1] * 3 + [2] * 8, "v": range(16)})
check(pdf, "k", 2, 8, [0, 1, 2])
# same-count presorted path still works (and stays blockwise)
pdf = pd.DataFrame({"a": range(12), "b": range(12)})
check(pdf, "a", 3, None, [0, 5, 11])
check(pdf, "a", 3, 3, [0, 5, 11])

if bad:
    for b in bad:
        print("BAD", b)
    sys.exit(1)
print("ok")
