import sys
import warnings
import dask
import numpy as np
import pandas as pd
from dask_expr import from_pandas

warnings.simplefilter("ignore")
dask.config.set(scheduler="sync")
bad = []
pdf = pd.DataFrame({"a": range(20), "c": list("abcde") * 4, "d": list("xyxyz") * 4})
df = from_pandas(pdf, npartitions=4)


def check(name, q, project=lambda x: x):
    first = project(q.partitions[0].compute())
    last = project(q.partitions[q.npartitions - 1].compute())
    for meth, n, part in [("head", 2, first), ("tail", 2, last), ("head", -3, first)]:
        expected = getattr(part, meth)(n)
        got = project(getattr(q, meth)(n))
        lazy = project(getattr(q, meth)(n, compute=False).compute())
        for g in (got, lazy):
            try:
                if isinstance(expected, pd.DataFrame):
                    pd.testing.assert_frame_equal(g, expected)
                else:
                    pd.testing.assert_series_equal(g, expected)
            except AssertionError as e:
                bad.append((name, meth, n, str(e).splitlines()[-2:]))


check("frame dict", df.astype({"c": "category"}))
check("frame dict .c", df.astype({"c": "category"}), lambda x: x["c"])
check("frame all", df[["c", "d"]].astype("category"))
check("series", df.c.astype("category"))
check("series dtype obj", df.c.astype(pd.CategoricalDtype()))
check("elemwise on top", df.astype({"c": "category"}).assign(e=1))
check("isin on top", df.astype({"c": "category"}).c.isin(["a"]))
check("index", df.set_index("c", sort=False).index.astype("category").to_series())
# known categories and other dtypes are still fine (and Head still goes below)
check("known", df.astype({"c": pd.CategoricalDtype(list("abcdefg"))}))
check("float", df.astype({"a": "float64"}))
for q in (df.astype({"a": "float64"}), df.astype({"c": pd.CategoricalDtype(list("abcdefg"))})):
    opt = q.head(2, compute=False).optimize(fuse=False).expr
    if type(opt).__name__ != "AsType":
        bad.append(("Head isn't pushed below a plain astype anymore", type(opt).__name__))

cats = list(df.astype({"c": "category"}).head(2).c.cat.categories)
if cats != list("abcde"):
    bad.append(("categories", cats))
for b in bad:
    print("MISMATCH", b)
print("N5", "FAIL" if bad else "ok")
sys.exit(1 if bad else 0)
