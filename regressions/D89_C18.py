"""G3: arrow reader, hive-partitioned dataset, partition subset + filter.

sel = df.partitions[[4, 5]]; sel[sel.c == 'b'] must give the same rows whether the
filter is pushed into the reader or applied in memory.
"""
import shutil
import sys
import tempfile
import traceback

import dask
import pandas as pd

dask.config.set(scheduler="sync")

from dask_expr import from_pandas, read_parquet  # noqa: E402

d = tempfile.mkdtemp(prefix="G3_")
pdf = pd.DataFrame(
    {
        "a": range(60),
        "b": [float(i) for i in range(60)],
        "c": [("a", "b", "c")[i % 3] for i in range(60)],
    }
)
from_pandas(pdf, 3).to_parquet(d, partition_on="c")

ok = True


def norm(x):
    x = x.copy()
    x["c"] = x["c"].astype(str)
    return x.sort_values("a").reset_index(drop=True)[["a", "b", "c"]]


def check(label, build):
    global ok
    try:
        df = read_parquet(d, filesystem="arrow")
        q = build(df)
        got = norm(q.optimize().compute())
        got2 = norm(q.optimize(fuse=False).compute())
        # reference: the selected partitions read without any filter, then
        # filtered in memory with pandas
        df0 = read_parquet(d, filesystem="arrow")
        expected = norm(build_ref(label, df0))
        good = got.equals(expected) and got2.equals(expected)
        print(f"{label}: got {got.shape} expected {expected.shape} -> "
              f"{'ok' if good else 'BAD'}")
        ok &= good
    except Exception as e:  # noqa: BLE001
        print(f"{label}: BAD {type(e).__name__}: {str(e)[:120]}")
        traceback.print_exc(limit=3)
        ok = False


def parts(df, idx):
    """reference: materialize the selected partitions without any filter"""
    return pd.concat([df.partitions[i].compute() for i in idx])


def build_ref(label, df):
    idx, pred = REF[label]
    p = parts(df, idx) if idx is not None else df.compute()
    return p[pred(p)]


REF = {
    "partitions[[4,5]] c=='b'": ([4, 5], lambda p: p.c.astype(str) == "b"),
    "partitions[[0,8]] c=='c'": ([0, 8], lambda p: p.c.astype(str) == "c"),
    "partitions[[7,2]] a>10": ([7, 2], lambda p: p.a > 10),
    "partitions[[1,3]] c=='a'": ([1, 3], lambda p: p.c.astype(str) == "a"),
    "all c=='b'": (None, lambda p: p.c.astype(str) == "b"),
    # in-bounds indices: used to silently read other files
    "partitions[[1,2]] c=='b'": ([1, 2], lambda p: p.c.astype(str) == "b"),
    "partitions[[2,3,4]] c=='b'": ([2, 3, 4], lambda p: p.c.astype(str) == "b"),
    "partitions[[5,3]] c=='b' (reordered)": ([5, 3], lambda p: p.c.astype(str) == "b"),
    "filter first, then partitions[[1,4]]": ([1, 4], lambda p: p.c.astype(str) == "b"),
}

n = read_parquet(d, filesystem="arrow").npartitions
print("npartitions", n)
assert n == 9

check("partitions[[4,5]] c=='b'", lambda df: (lambda s: s[s.c == "b"])(df.partitions[[4, 5]]))
check("partitions[[0,8]] c=='c'", lambda df: (lambda s: s[s.c == "c"])(df.partitions[[0, 8]]))
check("partitions[[7,2]] a>10", lambda df: (lambda s: s[s.a > 10])(df.partitions[[7, 2]]))
check("partitions[[1,3]] c=='a'", lambda df: (lambda s: s[s.c == "a"])(df.partitions[[1, 3]]))
check("all c=='b'", lambda df: df[df.c == "b"])
check("partitions[[1,2]] c=='b'", lambda df: (lambda s: s[s.c == "b"])(df.partitions[[1, 2]]))
check("partitions[[2,3,4]] c=='b'", lambda df: (lambda s: s[s.c == "b"])(df.partitions[[2, 3, 4]]))
check(
    "partitions[[5,3]] c=='b' (reordered)",
    lambda df: (lambda s: s[s.c == "b"])(df.partitions[[5, 3]]),
)
check("filter first, then partitions[[1,4]]", lambda df: df[df.c == "b"].partitions[[1, 4]])

shutil.rmtree(d, ignore_errors=True)
sys.exit(0 if ok else 1)
