import sys
import dask
import numpy as np
import pandas as pd
import dask_expr as dx

dask.config.set(scheduler="sync")
nan = np.nan
bad = 0
pdf = pd.DataFrame({"a": [1, nan, 3, nan, 5, 6.0], "b": [nan, 1, 2, 3, nan, 9.0]})
df = dx.from_pandas(pdf, 3)


def check(name, build, exp):
    global bad
    try:
        got = build().compute()
        (pd.testing.assert_series_equal if exp.ndim == 1 else pd.testing.assert_frame_equal)(got, exp)
    except Exception as e:
        bad += 1
        print("FAIL", name, type(e).__name__, e)


check("fillna(mean)['a']", lambda: df.fillna(df.mean())["a"], pdf.fillna(pdf.mean())["a"])
check("fillna(mean)['b']", lambda: df.fillna(df.mean())["b"], pdf.fillna(pdf.mean())["b"])
check("fillna(mean)[['a']]", lambda: df.fillna(df.mean())[["a"]], pdf.fillna(pdf.mean())[["a"]])
check("fillna(max+1)['a']", lambda: df.fillna(df.max() + 1)["a"], pdf.fillna(pdf.max() + 1)["a"])
check("fillna(mean) full", lambda: df.fillna(df.mean()), pdf.fillna(pdf.mean()))
# a row-aligned Series value must keep working
s = pdf["b"].fillna(0)
check("series.fillna(series)", lambda: df["a"].fillna(dx.from_pandas(s, 3)), pdf["a"].fillna(s))
sys.exit(1 if bad else 0)
