import sys
import numpy as np, pandas as pd, dask
from dask_expr import from_pandas
dask.config.set(scheduler="sync")
bad = []
pdf = pd.DataFrame({'x': np.arange(24) % 5, 'y': np.arange(24.), 'z': list("abcdef") * 4}, index=pd.Index(np.arange(24) % 7, name='i'))

def check(name, make, sortby):
    try:
        q = make()
        got = q.compute()
        cols = list(got.columns) if got.ndim == 2 else [got.name]
        e = pdf[cols] if got.ndim == 2 else pdf[cols[0]]
        g = got.reset_index(); e = e.reset_index()
        key = list(g.columns)
        pd.testing.assert_frame_equal(g.sort_values(key).reset_index(drop=True), e.sort_values(key).reset_index(drop=True), check_dtype=False)
    except Exception as ex:
        bad.append(name); print("FAIL", name, type(ex).__name__, str(ex)[:100])

df = lambda: from_pandas(pdf, 4, sort=False)
def series_keyed():
    d = df(); return d.shuffle(d.x)[['y']]
def series_keyed_s():
    d = df(); return d.shuffle(d.x).y
def series_keyed_expr():
    d = df(); return d.shuffle(d.x + 1)[['y', 'z']]
def frame_keyed():
    d = df(); return d.shuffle(d[['x', 'z']])[['y']]
check("series", series_keyed, None)
check("series-getitem", series_keyed_s, None)
check("series-expr", series_keyed_expr, None)
check("frame", frame_keyed, None)
check("on_index", lambda: df().shuffle(on_index=True)[['y']], None)
check("on_index-s", lambda: df().shuffle(on_index=True).y, None)
check("col", lambda: df().shuffle('x')[['y']], None)
check("index-name", lambda: df().shuffle('i')[['y']], None)

# rows with equal keys still end up in one partition after the projection
def nparts_per_key(q, keyf):
    parts = [q.partitions[i].compute() for i in range(q.npartitions)]
    seen = {}
    for n, p in enumerate(parts):
        for k in set(keyf(p)):
            seen.setdefault(k, set()).add(n)
    return max(len(v) for v in seen.values())
try:
    d = df(); q = d.shuffle(on_index=True)[['y']]
    assert nparts_per_key(q, lambda p: p.index) == 1
    d = df(); q = d.shuffle(d.x)[['x', 'y']]
    assert nparts_per_key(q, lambda p: p.x) == 1
    d = df(); q = d.shuffle(d.x)[['y']]
    m = pdf.set_index('y').x
    assert nparts_per_key(q, lambda p: m.loc[p.y].values) == 1
except Exception as ex:
    bad.append("colocated"); print("FAIL colocated", type(ex).__name__, str(ex)[:100])
print("bad:", bad)
sys.exit(1 if bad else 0)
