from fixE_common import *

pdf = pd.DataFrame({"x": np.arange(30) * 2}, index=np.arange(30))
df = dask_expr.from_pandas(pdf, npartitions=3)

for name, op, pop in [
    ("add_prefix('p')", lambda s: s.add_prefix("p"), lambda s: s.add_prefix("p")),
    ("add_suffix('s')", lambda s: s.add_suffix("s"), lambda s: s.add_suffix("s")),
]:
    r = op(df.x)
    divisions_truthful(r, f"int index {name}")
    divisions_truthful(r.optimize(), f"int index {name} optimized")
    check(r.compute().equals(pop(pdf.x)), f"int index {name} equals pandas")

    # unknown divisions stay unknown
    u = op(df.clear_divisions().x)
    check(not u.known_divisions, f"unknown divisions {name}: still unknown, got {u.divisions}")
    check(u.compute().equals(pop(pdf.x)), f"unknown divisions {name} equals pandas")

    # string index
    spdf = pd.DataFrame({"x": np.arange(8)}, index=["a", "ab", "abd", "b", "ba", "c", "ca", "d"])
    sdf = dask_expr.from_pandas(spdf, npartitions=4, sort=True)
    r = op(sdf.x)
    divisions_truthful(r, f"str index {name}")
    check(r.compute().equals(pop(spdf.x)), f"str index {name} equals pandas")

# a string index keeps sorted divisions under a prefix
spdf = pd.DataFrame({"x": np.arange(8)}, index=["a", "ab", "abd", "b", "ba", "c", "ca", "d"])
sdf = dask_expr.from_pandas(spdf, npartitions=4, sort=True)
check(sdf.known_divisions, "string frame has known divisions")
check(sdf.x.add_prefix("p").known_divisions, "str index add_prefix keeps known divisions")
# "a" < "ab" but "ac" > "abc"
r = sdf.x.add_suffix("c")
divisions_truthful(r, "str index add_suffix('c')")
finish()
