import sys
import dask, pandas as pd, numpy as np
import dask_expr
dask.config.set(scheduler="sync")
rng = np.random.default_rng(0)
pl = pd.DataFrame({"t": np.arange(0, 40, 2), "k": rng.integers(0, 3, 20), "k2": rng.integers(0, 2, 20),
                   "v": rng.normal(size=20), "u": rng.normal(size=20)})
pr = pd.DataFrame({"t": np.arange(1, 41, 2), "k": rng.integers(0, 3, 20), "k2": rng.integers(0, 2, 20),
                   "w": rng.normal(size=20), "u": rng.normal(size=20)})
pr2 = pr.rename(columns={"k": "kk", "t": "tt"})
dl = dask_expr.from_pandas(pl, npartitions=3)
dr = dask_expr.from_pandas(pr, npartitions=2)
dr2 = dask_expr.from_pandas(pr2, npartitions=2)
fails = 0
def check(label, f, sel):
    global fails
    try:
        exp = sel(f(pd.merge_asof, pl, pr, pr2))
        got = sel(f(dask_expr.merge_asof, dl, dr, dr2)).compute()
        exp = exp.reset_index(drop=True); got = got.reset_index(drop=True)
        (pd.testing.assert_series_equal if isinstance(exp, pd.Series) else pd.testing.assert_frame_equal)(got, exp)
        print("ok  ", label)
    except Exception as e:
        fails += 1
        print("FAIL", label, type(e).__name__, str(e)[:150].replace("\n", " "))
by = lambda m, l, r, r2: m(l, r, on="t", by="k")
check("on=t,by=k full", by, lambda x: x)
check("on=t,by=k [[v,w]]", by, lambda x: x[["v", "w"]])
check("on=t,by=k [w]", by, lambda x: x["w"])
check("on=t,by=k [[u_x,u_y]]", by, lambda x: x[["u_x", "u_y"]])
check("on=t,by=k [[k,w]]", by, lambda x: x[["k", "w"]])
by2 = lambda m, l, r, r2: m(l, r, on="t", by=["k", "k2"])
check("on=t,by=[k,k2] [[v,w]]", by2, lambda x: x[["v", "w"]])
lr = lambda m, l, r, r2: m(l, r2, left_on="t", right_on="tt", left_by="k", right_by="kk")
check("left_by/right_by full", lr, lambda x: x)
check("left_by/right_by [[v,w]]", lr, lambda x: x[["v", "w"]])
check("left_by/right_by [w]", lr, lambda x: x["w"])
nob = lambda m, l, r, r2: m(l, r, on="t")
check("no by [[v,w]]", nob, lambda x: x[["v", "w"]])
fw = lambda m, l, r, r2: m(l, r, on="t", by="k", direction="forward")
check("forward by=k [[v,w]]", fw, lambda x: x[["v", "w"]])
sys.exit(1 if fails else 0)
