import sys
import dask
import pandas as pd
from dask_expr import from_pandas
from dask_expr._expr import Tail, BlockwiseTail, Head, BlockwiseHead

dask.config.set(scheduler="sync")
pdf = pd.DataFrame({"a": range(20), "b": range(20)})
ps = pd.Series(range(20), name="z")
bad = []
for fuse in (False, True):
    for kind in ("tail", "head"):
        df = from_pandas(pdf, npartitions=4)
        s = from_pandas(ps, npartitions=2)
        q = getattr(df.assign(d=s), kind)(3, compute=False)
        o = q.optimize(fuse=fuse)
        o2 = o.optimize(fuse=fuse)
        if o2._name != o._name:
            bad.append((kind, fuse, "optimize not idempotent"))
        for plan in (o, o2):
            for e in plan.expr.walk():
                if type(e) in (Tail, Head):
                    bad.append((kind, fuse, "unlowered %s in optimized plan" % type(e).__name__))
        exp = getattr(pdf.assign(d=ps), kind)(3)
        for plan in (o, o2):
            pd.testing.assert_frame_equal(plan.compute(), exp)
for b in bad:
    print("DEFECT:", b)
sys.exit(1 if bad else 0)
