import sys
import os
sys.path.insert(0, os.path.dirname(os.path.abspath(__file__)))
import pandas as pd
from fixV_common import compute_unoptimized
from dask_expr import from_pandas

pdf = pd.DataFrame({"a": range(10), "b": range(10, 20)}, index=range(100, 110))
d = from_pandas(pdf, npartitions=3, sort=False)
rc = 0


def check(name, q, expected):
    global rc
    want = compute_unoptimized(q)["b"].tolist()
    try:
        got = q.compute()["b"].tolist()
    except Exception as e:
        got = f"{type(e).__name__}: {e}"
    ok = want == got == expected
    print(name, "pandas", expected, "unoptimized", want, "optimized", got, "OK" if ok else "MISMATCH")
    if not ok:
        rc = 1


r = d.repartition(npartitions=1).reset_index(drop=True)
pr = pdf.reset_index(drop=True)
check("reset_index eval index", r[r.eval("index >= 5")], pr[pr.eval("index >= 5")]["b"].tolist())

# index named like no column, read by name in eval
d2 = from_pandas(pdf.rename_axis("idx"), npartitions=3, sort=False)
r = d2.repartition(npartitions=1).reset_index(drop=True).rename_axis("idx")
pr = pdf.reset_index(drop=True).rename_axis("idx")
check("rename_axis eval idx", r[r.eval("idx >= 5")], pr[pr.eval("idx >= 5")]["b"].tolist())

# set_index(sorted) + eval on the new index
r = d.set_index("b", sorted=True)
pr = pdf.set_index("b")
q = r[r.eval("index >= 15")]
want = compute_unoptimized(q)["a"].tolist()
got = q.compute()["a"].tolist()
exp = pr[pr.eval("index >= 15")]["a"].tolist()
print("set_index eval", exp, want, got)
if not (exp == want == got):
    rc = 1

# eval that only reads columns
r = d.repartition(npartitions=1).reset_index(drop=True)
pr = pdf.reset_index(drop=True)
check("eval columns", r[r.eval("a >= 5")], pr[pr.eval("a >= 5")]["b"].tolist())
# ... and is still moved below the reset_index / repartition
if not isinstance(r[r.eval("a >= 5")].optimize(fuse=False).expr, type(r.expr)):
    print("filter on columns is no longer pushed down")
    rc = 1
sys.exit(rc)
