import sys, traceback
import numpy as np, pandas as pd, dask
import dask_expr as dx
dask.config.set(scheduler='sync')
bad = 0
pdf = pd.DataFrame({'x': np.arange(30.0) % 7, 'y': np.arange(30) * 3, 'z': np.linspace(0, 1, 30)})

def check(tag, make, exp):
    global bad
    try:
        r = make()
        rep = (r.npartitions, r.divisions)
        opt = r.optimize()
        if (opt.npartitions, opt.divisions) != rep:
            print(tag, 'optimized layout', opt.npartitions, opt.divisions, 'logical', rep); bad += 1
        got = r.compute()
        if len(got) != len(r):
            print(tag, 'len', len(r), 'computed rows', len(got)); bad += 1
        # dask always reports the median, and its quantiles over several
        # partitions are approximate: compare the exact statistics only
        rows = ['count', 'mean', 'std', 'min', 'max'] if npart > 1 else [i for i in exp.index]
        missing = [i for i in exp.index if i not in got.index]
        if missing:
            print(tag, 'missing rows', missing); bad += 1
        got, exp = got.loc[rows], exp.loc[rows]
        if isinstance(exp, pd.DataFrame):
            pd.testing.assert_frame_equal(got, exp, check_dtype=False)
        else:
            pd.testing.assert_series_equal(got, exp, check_dtype=False)
    except Exception as ex:
        print(tag, 'raises', type(ex).__name__, str(ex)[:200])
        if not str(ex):
            print(''.join(traceback.format_tb(ex.__traceback__)[-2:]))
        bad += 1

for npart in (1, 3):
    df = dx.from_pandas(pdf, npartitions=npart)
    check(f'df.describe() n={npart}', lambda: df.describe(), pdf.describe())
    check(f'series.describe() n={npart}', lambda: df.x.describe(), pdf.x.describe())
    check(f'df.describe(percentiles) n={npart}', lambda: df.describe(percentiles=[0.1, 0.9]), pdf.describe(percentiles=[0.1, 0.9]))
print('bad', bad)
sys.exit(1 if bad else 0)
