import sys
import dask
import numpy as np
import pandas as pd
import dask_expr
from dask_expr import from_pandas


pdf = pd.DataFrame(
    {
        "k": [1, 2, 1, 3, 2, 1, 3, 2, 1, 3, 2, 3],
        "v": range(12),
        "w": [5, 1, 5, 2, 1, 0, 2, 7, 0, 9, 7, 9],
    },
    index=pd.Index(range(100, 112), name="i"),
)
rng = np.random.default_rng(0)
big = pd.DataFrame({"k": rng.integers(0, 7, 400), "v": np.arange(400), "w": rng.integers(0, 3, 400)})
bad = []


def eq(a, b):
    try:
        (pd.testing.assert_series_equal if a.ndim == 1 else pd.testing.assert_frame_equal)(
            a, b, check_dtype=False
        )
        return True
    except AssertionError:
        return False


def run(scheduler, data, npartitions, tag):
    df = from_pandas(data, npartitions=npartitions, sort=False)
    cases = {
        "first": (lambda m, so: df.groupby("k").first(split_out=so, shuffle_method=m), lambda: data.groupby("k").first(), True),
        "last": (lambda m, so: df.groupby("k").last(split_out=so, shuffle_method=m), lambda: data.groupby("k").last(), True),
        "agg-first-last": (
            lambda m, so: df.groupby("k").agg({"v": "first", "w": "last"}, split_out=so, shuffle_method=m),
            lambda: data.groupby("k").agg({"v": "first", "w": "last"}),
            True,
        ),
        # groupby idxmin/idxmax are wrong on their own (aggregate = "first candidate", a
        # separate defect), so only require that the knobs do not change their result
        "idxmin": (lambda m, so: df.groupby("k").w.idxmin(split_out=so, shuffle_method=m), "knobs", True),
        "idxmax": (lambda m, so: df.groupby("k").w.idxmax(split_out=so, shuffle_method=m), "knobs", True),
        "drop_duplicates-first": (
            lambda m, so: df.drop_duplicates(subset=["k"], keep="first", split_out=so, shuffle_method=m),
            lambda: data.drop_duplicates(subset=["k"], keep="first"),
            True,
        ),
        "drop_duplicates-last": (
            lambda m, so: df.drop_duplicates(subset=["k"], keep="last", split_out=so, shuffle_method=m),
            lambda: data.drop_duplicates(subset=["k"], keep="last"),
            True,
        ),
        # the shuffle itself: every output partition keeps the input row order
        "shuffle-order": (lambda m, so: df.shuffle("k", shuffle_method=m, npartitions=so), None, False),
    }
    with dask.config.set(scheduler=scheduler):
        for name, (mk, pd_expected, sort_result) in cases.items():
            for so in (1, 2, 3):
                for m in ("disk", "tasks", None):
                    label = (tag, scheduler, name, so, m)
                    try:
                        q = mk(m, so)
                        if name == "shuffle-order":
                            for p in dask.compute(*q.optimize().to_delayed()):
                                if not p.v.is_monotonic_increasing:
                                    bad.append(label + ("rows reordered inside a partition",))
                                    break
                            continue
                        res = q.compute()
                    except Exception as e:
                        bad.append(label + (type(e).__name__, str(e)[:120]))
                        continue
                    if pd_expected == "knobs":
                        exp = mk("tasks", 1).compute()
                    else:
                        exp = pd_expected()
                    if sort_result:
                        res, exp = res.sort_index(), exp.sort_index()
                    if not eq(res, exp):
                        bad.append(label + ("differs from " + ("split_out=1/tasks" if pd_expected == "knobs" else "pandas"),))


for scheduler in ("sync", "threads"):
    run(scheduler, pdf, 4, "small")
    run(scheduler, big, 7, "big")

seen = set()
for b in bad:
    key = (b[0], b[2], b[4])
    if key in seen:
        continue
    seen.add(key)
    print("MISMATCH", b)
print(len(bad), "mismatching configurations")
sys.exit(1 if bad else 0)
