"""L2: to_parquet / read_parquet round trip of an unnamed index must keep the
index unnamed with both readers (meta and computed data)."""
import shutil
import sys
import tempfile
import warnings

import dask
import pandas as pd

warnings.simplefilter("ignore")
dask.config.set(scheduler="sync")

from dask_expr import from_pandas, read_parquet  # noqa: E402

failures = []


def check(label, got, expected):
    if got != expected:
        failures.append(f"{label}: {got!r}, expected {expected!r}")


def roundtrip(tag, pdf, npartitions, **to_parquet_kwargs):
    d = tempfile.mkdtemp()
    try:
        from_pandas(pdf, npartitions).to_parquet(d, **to_parquet_kwargs)
        for kwargs in ({}, {"filesystem": "arrow"}):
            r = "arrow" if kwargs else "fsspec"
            lab = f"[{tag}, {r}] "
            df = read_parquet(d, **kwargs)
            want = pdf.index.name if to_parquet_kwargs.get("write_index", True) else None
            check(lab + "df.index.name", df.index.name, want)
            check(lab + "df._meta.index.name", df._meta.index.name, want)
            out = df.compute()
            check(lab + "df.compute().index.name", out.index.name, want)
            check(lab + "df.index.compute().name", df.index.compute().name, want)
            check(lab + "df.columns", list(df.columns), list(pdf.columns))
            check(lab + "df.compute().columns", list(out.columns), list(pdf.columns))
            check(lab + "df['a'].compute().index.name", df["a"].compute().index.name, want)
            check(lab + "df[['a']]._meta.index.name", df[["a"]]._meta.index.name, want)
            check(
                lab + "df[['a']].optimize().compute().index.name",
                df[["a"]].optimize().compute().index.name,
                want,
            )
            check(
                lab + "df.partitions[0].compute().index.name",
                df.partitions[0].compute().index.name,
                want,
            )
            if to_parquet_kwargs.get("write_index", True):
                try:
                    pd.testing.assert_frame_equal(
                        out, pdf, check_dtype=False, check_index_type=False
                    )
                except AssertionError as e:
                    failures.append(lab + "round trip differs: " + str(e).replace("\n", " "))
            # reset_index must not materialize a "__null_dask_index__" column
            check(
                lab + "df.reset_index().columns",
                list(df.reset_index().compute().columns),
                list(pdf.reset_index().columns)
                if to_parquet_kwargs.get("write_index", True)
                else ["index"] + list(pdf.columns),
            )
    finally:
        shutil.rmtree(d, ignore_errors=True)


pdf = pd.DataFrame({"a": range(9), "b": [float(i) for i in range(9)]}, index=range(10, 19))
roundtrip("unnamed index", pdf.reset_index(drop=True), 3)
roundtrip("unnamed non-default index", pdf, 3)
roundtrip("named index", pdf.rename_axis("idx"), 3)
roundtrip("index named 'index'", pdf.rename_axis("index"), 3)
roundtrip("unnamed index, 1 file", pdf.reset_index(drop=True), 1)

if failures:
    print(f"L2 DEFECT PRESENT ({len(failures)}):")
    for f in failures:
        print(" -", f)
    sys.exit(1)
print("L2 ok")
