import sys
import dask
import numpy as np
import pandas as pd
import dask_expr
from dask_expr import from_pandas

dask.config.set(scheduler="sync")

pdf = pd.DataFrame(
    {"_0": [1, 2, 3, 4, 5, 6], "_1": [6.0, 5, 4, 3, 2, 1], "s": ["a", None, "c", None, "e", "f"]}
)
g = from_pandas(pdf, npartitions=3).map_partitions(lambda d: d)
h = from_pandas(pdf[["_1"]] * 2, npartitions=3).map_partitions(lambda d: d)
bad = []


def check(label, q, expected=None):
    try:
        unfused = q.compute(fuse=False)
    except Exception as e:
        bad.append((label, "unfused raised", repr(e)[:200]))
        return
    try:
        fused = q.compute(fuse=True)
    except Exception as e:
        bad.append((label, "fused raised", type(e).__name__, str(e)[:200]))
        return
    try:
        (pd.testing.assert_series_equal if fused.ndim == 1 else pd.testing.assert_frame_equal)(
            fused, unfused
        )
        if expected is not None:
            (pd.testing.assert_series_equal if fused.ndim == 1 else pd.testing.assert_frame_equal)(
                fused, expected, check_dtype=False
            )
    except AssertionError as e:
        bad.append((label, "fused != unfused", str(e)[:300]))


check("getitem '_0'", g["_0"] + 1, pdf["_0"] + 1)
check("getitem '_1' two deps", g["_1"] + h["_1"] + 1, pdf["_1"] * 3 + 1)
check("fillna('_0')", g.fillna("_0").rename(columns={"s": "t"}), pdf.fillna("_0").rename(columns={"s": "t"}))
check("assign literal", g.assign(z="_0")[["z", "s"]], pdf.assign(z="_0")[["z", "s"]])
check("isin", g.s.isin(["_0", "a"]) | (g["_0"] > 100), pdf.s.isin(["_0", "a"]) | (pdf["_0"] > 100))
check("eq literal", (g.s.fillna("_0") == "_0") & (g["_1"] > 0), (pdf.s.fillna("_0") == "_0") & (pdf["_1"] > 0))

for m in bad:
    print("MISMATCH", m)
sys.exit(1 if bad else 0)
