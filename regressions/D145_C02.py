import sys
import dask
import pandas as pd
import dask_expr as dx

dask.config.set(scheduler="sync")
bad = 0


def check(name, build, exp):
    global bad
    try:
        got = build().compute()
        (pd.testing.assert_series_equal if exp.ndim == 1 else pd.testing.assert_frame_equal)(got, exp)
    except Exception as e:
        bad += 1
        print("FAIL", name, type(e).__name__, str(e).splitlines()[0] if str(e) else "")


pdf = pd.DataFrame({"g": [1, 2, 1, 2, 1, 2], "b": range(6), "_by_g": [10, 20, 30, 40, 50, 60]})
df = dx.from_pandas(pdf, 3)
check("cumsum", lambda: df.groupby("g").cumsum(), pdf.groupby("g").cumsum())
check("cumprod", lambda: df.groupby("g").cumprod(), pdf.groupby("g").cumprod())
check("cumsum[_by_g]", lambda: df.groupby("g")["_by_g"].cumsum(), pdf.groupby("g")["_by_g"].cumsum())
check("cumcount", lambda: df.groupby("g").cumcount(), pdf.groupby("g").cumcount())
# also when the next candidate name is taken, and with two keys whose helper names coincide
pdf2 = pd.DataFrame(
    {"g": [1, 2, 1, 2, 1, 2], 1: [1, 1, 2, 2, 1, 1], "1": [1, 1, 1, 2, 2, 2],
     "_by_g": [10, 20, 30, 40, 50, 60], "__by_g": range(6), "_by_1": range(6)}
)
df2 = dx.from_pandas(pdf2, 3)
check("cumsum nested", lambda: df2.groupby("g").cumsum(), pdf2.groupby("g").cumsum())
check("cumsum keys 1 and '1'", lambda: df2.groupby([1, "1"]).cumsum(), pdf2.groupby([1, "1"]).cumsum())
# no collision: unchanged
pdf3 = pd.DataFrame({"g": [1, 2, 1, 2, 1, 2], "b": range(6)})
check("plain", lambda: dx.from_pandas(pdf3, 3).groupby("g").cumsum(), pdf3.groupby("g").cumsum())
sys.exit(1 if bad else 0)
