"""O1: order of pushed-down filters (and the plan name) depends on PYTHONHASHSEED."""
import os
import subprocess
import sys
import tempfile

CHILD = r"""
import sys, dask, pandas as pd, numpy as np
import dask_expr as dx
dask.config.set(scheduler='sync')
p = sys.argv[1]
df = dx.read_parquet(p, filesystem='arrow')
q1 = df[(df.a > 5) & (df.b < 90) & (df.c == 'a')].optimize()
q2 = df[(df.a > 5) | (df.b < 90) | (df.c == 'a')].optimize()
q3 = df[((df.a > 5) & (df.b < 90)) | ((df.c == 'a') & (df.a < 50))].optimize()
for q in (q1, q2, q3):
    print(q._name, q.expr.find_operations(dx.io.parquet.ReadParquetPyarrowFS).__next__().filters)
"""

if __name__ == "__main__":
    import pandas as pd

    d = tempfile.mkdtemp()
    p = os.path.join(d, "ds.parquet")
    pdf = pd.DataFrame(
        {"a": range(100), "b": range(100), "c": ["a", "b", "c", "d"] * 25}
    )
    import dask
    import dask_expr as dx

    dask.config.set(scheduler="sync")
    dx.from_pandas(pdf, npartitions=2).to_parquet(p)
    outs = set()
    for seed in range(1, 9):
        env = dict(os.environ, PYTHONHASHSEED=str(seed))
        r = subprocess.run(
            [sys.executable, "-c", CHILD, p], env=env, capture_output=True, text=True
        )
        if r.returncode:
            print(r.stderr)
            sys.exit(2)
        outs.add(r.stdout)
    # results must also be right
    df = dx.read_parquet(p, filesystem="arrow")
    for q, e in [
        (df[(df.a > 5) & (df.b < 90) & (df.c == "a")],
         pdf[(pdf.a > 5) & (pdf.b < 90) & (pdf.c == "a")]),
        (df[((df.a > 5) & (df.b < 90)) | ((df.c == "a") & (df.a < 50))],
         pdf[((pdf.a > 5) & (pdf.b < 90)) | ((pdf.c == "a") & (pdf.a < 50))]),
    ]:
        pd.testing.assert_frame_equal(q.compute(), e, check_dtype=False)
    if len(outs) != 1:
        print("FAIL: %d different plans across hash seeds" % len(outs))
        for o in outs:
            print(o)
        sys.exit(1)
    print("OK")
