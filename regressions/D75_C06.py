from fixE_common import *
import traceback

pdf = pd.DataFrame({"x": np.arange(100.0), "a": np.arange(100) % 7}, index=np.arange(100))
df = dask_expr.from_pandas(pdf, npartitions=10)

cases = {
    "df.x.sum() + df.x": (lambda d: d.x.sum() + d.x, lambda p: p.x.sum() + p.x),
    "df.x + df.x.sum()": (lambda d: d.x + d.x.sum(), lambda p: p.x + p.x.sum()),
    "df.x.sum() * df": (lambda d: d.x.sum() * d, lambda p: p.x.sum() * p),
    "df.x.max() - df.x": (lambda d: d.x.max() - d.x, lambda p: p.x.max() - p.x),
    "df.x.sum() + df.x.partitions[[2, 3]]": (lambda d: d.x.sum() + d.x.partitions[[2, 3]], lambda p: p.x.sum() + p.x.iloc[20:40]),
    "df[(df.index * 2 + df.a) % 3 == 0]": (lambda d: d[(d.index * 2 + d.a) % 3 == 0], lambda p: p[(p.index * 2 + p.a) % 3 == 0]),
    "df[(df.index % 3 + df.a) == 2]": (lambda d: d[(d.index % 3 + d.a) == 2], lambda p: p[(p.index % 3 + p.a) == 2]),
    "df.a + df.index * 2": (lambda d: d.a + d.index * 2, lambda p: p.a + p.index * 2),
    "df.index * 2 + df.a": (lambda d: d.index * 2 + d.a, lambda p: p.index * 2 + p.a),
}
for name, (f, pf) in cases.items():
    for stage in ["unoptimized", "optimized", "fuse=False", "compute"]:
        try:
            r = f(df)
            if stage == "optimized":
                r = r.optimize()
            elif stage == "fuse=False":
                r = r.optimize(fuse=False)
            if stage == "compute":
                got = r.compute()
            else:
                divisions_truthful(r, f"{name} {stage}")
                got = pd.concat(parts(r))
            exp = pf(pdf)
            check(got.equals(exp) or np.allclose(got.values, exp.values), f"{name} {stage}: equals pandas")
        except Exception as e:
            tb = traceback.extract_tb(e.__traceback__)[-1]
            check(False, f"{name} {stage}: raised {type(e).__name__}: {e} in {tb.name} ({tb.filename.split('/')[-1]}:{tb.lineno})")
finish()
