import sys
import os
sys.path.insert(0, os.path.dirname(os.path.abspath(__file__)))
import pandas as pd
from fixV_common import compute_unoptimized
from dask_expr import from_pandas

pdf = pd.DataFrame({"a": [1, 2, 3, 4, 50, 6, 7, 8, 9, 100], "b": range(10)})
d = from_pandas(pdf, npartitions=3, sort=False)
rc = 0


def check(name, q, sort=False):
    global rc
    want = compute_unoptimized(q)
    got = q.compute()
    if sort:
        want, got = want.sort_values("b"), got.sort_values("b")
    ok = want["b"].tolist() == got["b"].tolist()
    print(name, "unoptimized", want["b"].tolist(), "optimized", got["b"].tolist(), "OK" if ok else "MISMATCH")
    if not ok:
        rc = 1


above_mean = lambda s: s > s.mean()

r = d.repartition(npartitions=1)
check("repartition", r[r.a.map_partitions(above_mean, meta=("a", bool))])
# expected: the mean of the one partition (19) -> rows 4 and 9
exp = pdf[pdf.a > pdf.a.mean()]["b"].tolist()
got = r[r.a.map_partitions(above_mean, meta=("a", bool))].compute()["b"].tolist()
print("pandas", exp, "got", got)
if exp != got:
    rc = 1

r = d.sort_values("a", ascending=False)
check("sort_values", r[r.a.map_partitions(above_mean, meta=("a", bool))], sort=True)

r = d.shuffle("b", npartitions=2)
check("shuffle", r[r.a.map_partitions(above_mean, meta=("a", bool))], sort=True)

r = d.set_index("a", npartitions=2)
check("set_index", r[r.b.map_partitions(above_mean, meta=("b", bool))], sort=True)

# a frame-level map_partitions in the predicate
r = d.repartition(npartitions=1)
check("frame map_partitions", r[r.map_partitions(lambda x: x.a > x.a.mean(), meta=("a", bool))])

# two filters must not be merged either: the second mean is the one of the kept rows
f = d[d.b > 2]
check("filter", f[f.a.map_partitions(above_mean, meta=("a", bool))])

sys.exit(rc)
