import sys
import numpy as np, pandas as pd, dask
import dask_expr
from dask_expr import from_pandas
dask.config.set(scheduler="sync")

pdf = pd.DataFrame({"k": [1, 2, 3, 4], "v": [10, 20, 30, 40]})
pdf3 = pd.DataFrame({"k": [1, 2, 3, 4, 1, 2], "w": range(6)})

fails = []
def check(name, f, expected):
    try:
        got = f()
        if isinstance(expected, pd.DataFrame):
            key = list(expected.columns)
            got = got.sort_values(key).reset_index(drop=True)
            expected = expected.sort_values(key).reset_index(drop=True)
            pd.testing.assert_frame_equal(got, expected, check_dtype=False)
        else:
            pd.testing.assert_series_equal(got, expected, check_dtype=False)
    except Exception as e:
        fails.append(name)
        print("FAIL", name, type(e).__name__, str(e)[:160])
    else:
        print("ok  ", name)

def one():
    return (from_pandas(pdf, 1) + 1 - 1).optimize()

check("merge(optimized one-partition frame)",
      lambda: from_pandas(pdf3, 2).merge(one()).compute(), pdf3.merge(pdf))
check("same, fuse=False",
      lambda: from_pandas(pdf3, 2).merge(one()).compute(fuse=False), pdf3.merge(pdf))
check("one-partition frame on the left",
      lambda: one().merge(from_pandas(pdf3, 3)).compute(), pdf.merge(pdf3))
check("(merge) + follow-up blockwise ops",
      lambda: (from_pandas(pdf3, 3).merge(one()).assign(z=1)).compute(), pdf3.merge(pdf).assign(z=1))
# broadcast of an optimized one-partition series in an arithmetic operation
s1 = pd.Series([5], name="w")
check("map_partitions with optimized one-partition arg",
      lambda: from_pandas(pdf3, 3).map_partitions(lambda a, b: a.assign(n=len(b)), one()).compute(),
      pdf3.assign(n=len(pdf)))
# nested groups with the same number of partitions keep working
check("nested multi-partition group",
      lambda: ((from_pandas(pdf3, 2) + 1 - 1).optimize() * 2 + 1).compute(), pdf3 * 2 + 1)
check("nested one-partition group in one-partition group",
      lambda: (one() * 2 + 1).compute(), pdf * 2 + 1)
sys.exit(1 if fails else 0)
