"""An index-aligned operation between operands with EQUAL known divisions whose last value is repeated, e.g. (2, 3, 5, 6, 6):
the collection reported unique(merge_sorted(...)) = (2, 3, 5, 6) -- 3 partitions -- while nothing is repartitioned and 4
partitions are computed."""
import sys
import dask
import pandas as pd
import dask_expr as dx

dask.config.set(scheduler="sync")
bad = []
for divs in ([2, 3, 5, 6, 6], [0, 4, 4], [1, 2, 3], [0, 0], [5, 7, 9, 9]):
    idx = list(range(divs[0], divs[-1] + 1))
    pa = pd.DataFrame({"x": range(len(idx))}, index=pd.Index(idx, name="i"))
    pb = pd.DataFrame({"y": range(len(idx))}, index=pd.Index(idx, name="i"))
    a = dx.from_pandas(pa, npartitions=1).repartition(divisions=divs, force=True)
    b = dx.from_pandas(pb, npartitions=1).repartition(divisions=divs, force=True)
    for nm, q, exp in (("a.x + b.y", a.x + b.y, pa.x + pb.y), ("a.x.add(b.y, fill_value=0)", a.x.add(b.y, fill_value=0), pa.x.add(pb.y, fill_value=0)),
                       ("a.assign(y=b.y)", a.assign(y=b.y), pa.assign(y=pb.y)), ("a.x.where(b.y > 1)", a.x.where(b.y > 1), pa.x.where(pb.y > 1))):
        o = q.optimize(fuse=False)
        parts = [o.partitions[i].compute() for i in range(o.npartitions)]
        if q.npartitions != len(parts) or len(q.to_delayed()) != q.npartitions:
            bad.append((divs, nm, "npartitions", q.npartitions, len(parts)))
        if tuple(q.divisions) != tuple(o.divisions):
            bad.append((divs, nm, "divisions", q.divisions, o.divisions))
        d = q.divisions
        if d[0] is not None and len(d) == len(parts) + 1:
            for i, p in enumerate(parts):
                last = i == len(parts) - 1
                if len(p) and not (d[i] <= p.index.min() and (p.index.max() <= d[i + 1] if last else p.index.max() < d[i + 1])):
                    bad.append((divs, nm, "partition %d outside its divisions" % i, list(p.index), d))
        got = pd.concat(parts)
        if not got.sort_index().equals(exp.sort_index().astype(got.dtypes if hasattr(got, "dtypes") and got.ndim == 2 else got.dtype)):
            bad.append((divs, nm, "values"))
for b_ in bad[:10]:
    print(b_)
print("failures:", len(bad))
sys.exit(1 if bad else 0)
