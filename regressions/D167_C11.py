import sys
import warnings
import dask
import pandas as pd
from dask_expr import from_pandas

dask.config.set(scheduler="sync")
warnings.simplefilter("ignore")
bad = []

pdf = pd.DataFrame({"a": range(12), "b": list("abcdefghijkl")}, index=range(100, 112))
df = from_pandas(pdf, npartitions=4)


def check(name, make, n, k):
    coll = make(df)
    parts = [coll.partitions[i].compute() for i in range(coll.npartitions)]
    sel = parts if k == -1 else parts[:k]
    exp = pd.concat(sel).head(n)
    got = coll.head(n, npartitions=k, compute=False)
    for stage, res in (("compute", got.compute()), ("optimize", got.optimize().compute())):
        if res.index.tolist() != exp.index.tolist() or not res.equals(exp):
            bad.append((name, n, k, stage, res.index.tolist(), exp.index.tolist()))


for n in (2, 5, 7):
    for k in (1, 2, 3, 4, -1):
        check("reset_index", lambda d: d.reset_index(), n, k)
        check("reset_index(drop)", lambda d: d.reset_index(drop=True), n, k)
        check("series.reset_index", lambda d: d.a.reset_index(), n, k)
        check("reset_index + op", lambda d: d.reset_index().a + 1, n, k)
        check("plain", lambda d: d, n, k)

# a one-partition frame: nothing to relabel, still fine
d1 = from_pandas(pdf, npartitions=1)
r = d1.reset_index().head(5, npartitions=-1)
if r.index.tolist() != [0, 1, 2, 3, 4]:
    bad.append(("one partition", r.index.tolist()))

if bad:
    for b in bad:
        print("BAD", b)
    sys.exit(1)
print("ok")
