import sys, warnings
import numpy as np, pandas as pd, dask, dask_expr as dx
dask.config.set(scheduler="sync")
warnings.simplefilter("ignore")
fails = []
pdf = pd.DataFrame({"a": range(12), "b": np.arange(12)[::-1].copy()})
ps = pd.Series(np.arange(12) % 5, name="s")
ps_short = pd.Series([3, 4, 5], index=[1, 5, 30], name="s")
df = dx.from_pandas(pdf, npartitions=3)

def check(label, build, expected):
    try:
        got = build().compute()
        exp = expected()
        if isinstance(exp, pd.DataFrame):
            pd.testing.assert_frame_equal(got.sort_index(), exp.sort_index(), check_dtype=False)
        else:
            pd.testing.assert_series_equal(got.sort_index(), exp.sort_index(), check_dtype=False, check_names=False)
    except Exception as e:
        fails.append((label, type(e).__name__, str(e)[:150].replace("\n", " ")))

for npart in (2, 3, 1):
    s2 = dx.from_pandas(ps, npartitions=npart)
    f2 = dx.from_pandas(pdf[::-1].sort_index() + 1, npartitions=npart)
    for op in ("lt", "le", "gt", "ge", "eq", "ne"):
        check(f"df.{op}(s, axis=0) np={npart}", lambda: getattr(df, op)(s2, axis=0), lambda: getattr(pdf, op)(ps, axis=0))
        check(f"ser.{op}(s) np={npart}", lambda: getattr(df.a, op)(s2), lambda: getattr(pdf.a, op)(ps))
        check(f"ser.{op}(s, fill_value=0) np={npart}", lambda: getattr(df.a, op)(s2, fill_value=0), lambda: getattr(pdf.a, op)(ps, fill_value=0))
        check(f"df.{op}(df) np={npart}", lambda: getattr(df, op)(f2), lambda: getattr(pdf, op)(pdf + 1))
s3 = dx.from_pandas(ps_short, npartitions=2)
check("ser.lt(short, fill_value=0)", lambda: df.a.lt(s3, fill_value=0), lambda: pdf.a.lt(ps_short, fill_value=0))
check("ser.lt(short)", lambda: df.a.lt(s3), lambda: pdf.a.lt(ps_short))
check("ser.lt(scalar)", lambda: df.a.lt(3), lambda: pdf.a.lt(3))
check("df.lt(scalar)", lambda: df.lt(3), lambda: pdf.lt(3))
check("df.lt(list, axis=1)", lambda: df.lt([3, 4], axis=1), lambda: pdf.lt([3, 4], axis=1))
check("df.add(s, axis=0)", lambda: df.add(dx.from_pandas(ps, npartitions=2), axis=0), lambda: pdf.add(ps, axis=0))

for f in fails:
    print("FAIL", f)
print(len(fails), "failures")
sys.exit(1 if fails else 0)
