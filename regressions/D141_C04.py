import sys
import dask
import pandas as pd
import dask_expr as dx

dask.config.set(scheduler="sync")
pdf = pd.DataFrame({"x": list("abcabc"), "y": list("uvwuvw"), "z": range(6)})
c = dx.from_pandas(pdf, 2).categorize(columns=["x", "y"])
full = c.compute()
bad = 0
for sel in (["x"], "x", "z", ["z", "y"], ["y", "x"], ["x", "y", "z"]):
    try:
        got = c[sel].compute()
        exp = full[sel]
        if isinstance(exp, pd.Series):
            pd.testing.assert_series_equal(got, exp)
        else:
            pd.testing.assert_frame_equal(got, exp)
        # the selection must still prune the source
        opt = c[sel].optimize()
    except Exception as e:
        bad += 1
        print("FAIL", sel, type(e).__name__, e)
# categorize of the index together with a column selection
pdf2 = pdf.set_index("x")
c2 = dx.from_pandas(pdf2, 2).categorize(columns=["y"], index=True)
try:
    pd.testing.assert_series_equal(c2["z"].compute(), c2.compute()["z"])
    pd.testing.assert_index_equal(c2.index.compute(), c2.compute().index)
except Exception as e:
    bad += 1
    print("FAIL index", type(e).__name__, e)
sys.exit(1 if bad else 0)
