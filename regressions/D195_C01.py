import sys
import os
sys.path.insert(0, os.path.dirname(os.path.abspath(__file__)))
import pandas as pd
import fixV_common as common  # noqa: F401
from dask_expr import from_pandas

pdf = pd.DataFrame({"a": range(10), "b": range(10, 20)})
d = from_pandas(pdf, npartitions=3)
rc = 0


def check(name, f):
    global rc
    expected = f(pdf)
    try:
        q = f(d)
        got = q.compute()
        meta = q.optimize()._meta
    except Exception as e:
        print(name, "raises", type(e).__name__, e)
        rc = 1
        return
    same = (
        type(got) is type(expected)
        and got.equals(expected)
        and list(got.index.names) == list(expected.index.names)
        and list(meta.index.names) == list(expected.index.names)
        and (got.ndim == 1 or list(got.columns.names) == list(expected.columns.names)
             and list(meta.columns.names) == list(expected.columns.names))
        and (got.ndim == 2 or got.name == expected.name)
    )
    print(name, "OK" if same else "MISMATCH")
    if not same:
        print(got, expected)
        rc = 1


check("columns= then column", lambda x: x.rename_axis(columns="cc")["a"])
check("mapper axis=1 then column", lambda x: x.rename_axis("cc", axis=1)["a"])
check("mapper axis='columns' then column", lambda x: x.rename_axis("cc", axis="columns")["b"])
check("index= and columns= then column", lambda x: x.rename_axis(index="ii", columns="cc")["a"])
check("columns= then list", lambda x: x.rename_axis(columns="cc")[["a"]])
check("index= then column", lambda x: x.rename_axis(index="ii")["a"])
check("mapper then column", lambda x: x.rename_axis("ii")["a"])
check("columns= then expression", lambda x: x.rename_axis(columns="cc")["a"] + x.rename_axis(columns="cc")["a"])
check("columns= then sum of column", lambda x: x.rename_axis(columns="cc").a + 1)
sys.exit(rc)
