"""O2: name of a lowered Concat with dtype coercion depends on PYTHONHASHSEED."""
import os
import subprocess
import sys

CHILD = r"""
import dask, pandas as pd
import dask_expr as dx
dask.config.set(scheduler='sync')
a = pd.DataFrame({"alpha": [1, 2], "beta": [3, 4], "gamma": [5, 6], "delta": [7, 8]})
c = dx.concat([dx.from_pandas(a, 1), dx.from_pandas(a.astype(float), 1)])
o = c.optimize(fuse=False)
print(o._name)
print(sorted(map(str, o.__dask_graph__())))
pd.testing.assert_frame_equal(c.compute(), pd.concat([a, a.astype(float)]))
"""

if __name__ == "__main__":
    outs = set()
    for seed in range(0, 8):
        env = dict(os.environ, PYTHONHASHSEED=str(seed))
        r = subprocess.run(
            [sys.executable, "-c", CHILD], env=env, capture_output=True, text=True
        )
        if r.returncode:
            print(r.stderr)
            sys.exit(2)
        outs.add(r.stdout)
    if len(outs) != 1:
        print("FAIL: %d different plans across hash seeds" % len(outs))
        sys.exit(1)
    print("OK")
