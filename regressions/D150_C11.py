import sys
import dask
import pandas as pd
from dask_expr import from_pandas

dask.config.set(scheduler="sync")
pdf = pd.DataFrame({"a": range(20), "b": list("abcde") * 4})
df = from_pandas(pdf, npartitions=4)
bad = []


def parts(q, k):
    n = q.npartitions if k == -1 else k
    return pd.concat([q.partitions[i].compute() for i in range(n)])


for q, qname in [(df, "df"), (df[df.a % 3 != 0], "filtered"), (df.a, "series")]:
    for n in (-2, -1, -7, 0, 3, 7):
        for k in (1, 2, 3, 4, -1):
            expected = parts(q, k).head(n)
            for compute in (True, False):
                try:
                    got = q.head(n, npartitions=k, compute=compute)
                    if not compute:
                        got = got.compute()
                except Exception as e:  # noqa
                    bad.append((qname, n, k, compute, repr(e)))
                    continue
                if not got.equals(expected):
                    bad.append((qname, n, k, compute, len(got), len(expected)))
for b in bad:
    print("MISMATCH", b)
print("N1", "FAIL" if bad else "ok")
sys.exit(1 if bad else 0)
