"""D2: sort_values(..., na_position='first') must put the NaN rows first."""
import sys

import dask
import numpy as np
import pandas as pd

import dask_expr
from dask_expr import from_pandas

dask.config.set(scheduler="sync")
print("dask_expr from", dask_expr.__file__)

rng = np.random.RandomState(0)
n = 40
a = rng.randint(0, 20, n).astype(float)
a[[3, 7, 11, 25, 39]] = np.nan
pdf = pd.DataFrame({"a": a, "b": np.arange(n)})

bad = 0


def check(label, got, exp, by_b=True):
    """Compare the sort key order exactly (ties between rows may differ)."""
    global bad
    ok = np.array_equal(got["a"].to_numpy(), exp["a"].to_numpy(), equal_nan=True)
    # and the same multiset of rows
    ok = ok and sorted(got["b"].tolist()) == sorted(exp["b"].tolist())
    if not ok:
        bad += 1
        print("MISMATCH", label)
        print("  got     ", got["a"].tolist())
        print("  expected", exp["a"].tolist())


for npart in (2, 3, 5):
    df = from_pandas(pdf, npartitions=npart)
    for ascending in (True, False):
        for na_position in ("first", "last"):
            kw = dict(ascending=ascending, na_position=na_position)
            exp = pdf.sort_values("a", **kw)
            s = df.sort_values("a", **kw)
            assert s.npartitions > 1

            # the order of the partitions matters; do not let a final
            # repartition(1) be pushed below the sort
            got = s.reset_index(drop=True).compute()
            check(f"reset_index np={npart} {kw}", got, exp)

            parts = dask.compute(*s.to_delayed())
            check(f"to_delayed np={npart} {kw}", pd.concat(parts), exp)

            check(f"compute np={npart} {kw}", s.compute(), exp)

            for k in (3, 7):
                got = s.head(k)
                e = exp.head(k)
                if not np.array_equal(
                    got["a"].to_numpy(), e["a"].to_numpy(), equal_nan=True
                ):
                    bad += 1
                    print("MISMATCH", f"head({k}) np={npart} {kw}")
                    print("  got     ", got["a"].tolist())
                    print("  expected", e["a"].tolist())
                got = s.tail(k)
                e = exp.tail(k)
                if not np.array_equal(
                    got["a"].to_numpy(), e["a"].to_numpy(), equal_nan=True
                ):
                    bad += 1
                    print("MISMATCH", f"tail({k}) np={npart} {kw}")
                    print("  got     ", got["a"].tolist())
                    print("  expected", e["a"].tolist())

print("mismatches:", bad)
sys.exit(1 if bad else 0)
