"""L1: head(n, npartitions=k) / tail(n) / partitions[i] over a multi-file parquet
read that the optimizer fuses into fewer partitions must select partitions of the
collection as the user sees it (q.npartitions, q.partitions[i])."""
import shutil
import sys
import tempfile
import warnings

import dask
import pandas as pd

warnings.simplefilter("ignore")
dask.config.set(scheduler="sync")

import dask_expr  # noqa: E402
from dask_expr import from_pandas, read_parquet  # noqa: E402

failures = []


def cat(parts):
    if isinstance(parts[0], pd.Index):
        out = parts[0]
        for p in parts[1:]:
            out = out.append(p)
        return out
    return pd.concat(parts)


def first(x, n):
    return x[:n] if isinstance(x, pd.Index) else x.head(n)


def last(x, n):
    return x[-n:] if isinstance(x, pd.Index) else x.tail(n)


def check(label, fn, expected):
    try:
        got = fn()
    except Exception as e:  # noqa
        failures.append(f"{label}: raised {type(e).__name__}: {e}")
        return
    try:
        if isinstance(expected, pd.Index):
            pd.testing.assert_index_equal(got, expected)
        elif isinstance(expected, pd.Series):
            pd.testing.assert_series_equal(got, expected)
        else:
            pd.testing.assert_frame_equal(got, expected)
    except AssertionError:
        failures.append(
            f"{label}: wrong rows: got index {list(getattr(got, 'index', got))}, "
            f"expected {list(getattr(expected, 'index', expected))}"
        )


d = tempfile.mkdtemp()
try:
    pdf = pd.DataFrame(
        {"a": range(12), "b": [float(i) for i in range(12)], "c": list("abcdefghijkl")}
    )
    from_pandas(pdf, npartitions=4, sort=False).to_parquet(d)
    queries = [
        ("df['a'] + 1", lambda df: df["a"] + 1),
        ("df['a']", lambda df: df["a"]),
        ("df[['a']]", lambda df: df[["a"]]),
        ("df[['a']].index", lambda df: df[["a"]].index),
        (
            "df[['a']].map_partitions(lambda x: x.assign(n=len(x)))",
            lambda df: df[["a"]].map_partitions(lambda x: x.assign(n=len(x))),
        ),
        ("df[['a']].cumsum()", lambda df: df[["a"]].cumsum()),
        (
            "concat([df[['a']], df[['b']]])",
            lambda df: dask_expr.concat([df[["a"]], df[["b"]]]),
        ),
    ]
    for kwargs in ({}, {"filesystem": "arrow"}):
        tag = "arrow" if kwargs else "fsspec"
        df = read_parquet(d, **kwargs)
        assert df.npartitions == 4
        for qname, mk in queries:
            q = mk(df)
            # the partitions of the collection: its plan as written (lowered, but
            # neither simplified nor tuned), one output key per partition
            parts = list(dask.get(q.__dask_graph__(), q.__dask_keys__()))
            assert sum(map(len, parts)) == len(q.compute())
            N = len(parts)
            assert q.npartitions == N, (qname, q.npartitions)
            lab = f"[{tag}] q = {qname}: "
            for i in range(N):
                check(
                    lab + f"q.partitions[{i}].compute()",
                    lambda: q.partitions[i].compute(),
                    parts[i],
                )
            for n, k in [(2, N), (7, 2), (5, 3), (5, 1), (2, 1), (100, -1)]:
                kk = N if k == -1 else k
                # every partition: the rows of the computed collection
                whole = q.compute() if k == -1 else cat(parts[:kk])
                check(
                    lab + f"q.head({n}, npartitions={k}, compute=False).compute()",
                    lambda: q.head(n, npartitions=k, compute=False).compute(),
                    first(whole, n),
                )
                check(
                    lab + f"q.head({n}, npartitions={k})",
                    lambda: q.head(n, npartitions=k),
                    first(whole, n),
                )
            for n in (5, 2):
                check(lab + f"q.tail({n})", lambda: q.tail(n), last(parts[-1], n))
finally:
    shutil.rmtree(d, ignore_errors=True)

if failures:
    print(f"L1 DEFECT PRESENT ({len(failures)} wrong selections):")
    for f in failures:
        print(" -", f)
    sys.exit(1)
print("L1 ok")
