import sys
import dask
import pandas as pd
import dask_expr as dx

dask.config.set(scheduler="sync")

bad = []


def check(label, pdf, fn, npartitions=3):
    df = dx.from_pandas(pdf, npartitions=npartitions)
    expected = fn(pdf)
    try:
        got = fn(df).compute()
    except Exception as e:  # noqa
        bad.append(f"{label}: raised {type(e).__name__}: {e}")
        return
    try:
        pd.testing.assert_frame_equal(
            got.reset_index(drop=True), expected.reset_index(drop=True), check_dtype=False
        ) if isinstance(expected, pd.DataFrame) else pd.testing.assert_series_equal(
            got.reset_index(drop=True), expected.reset_index(drop=True), check_dtype=False
        )
    except AssertionError as e:
        bad.append(f"{label}: wrong result\n{got}\nvs\n{expected}\n{e}")


pdf = pd.DataFrame({"a": range(20), "b": range(20, 40)}, index=range(5, 25))
named = pd.DataFrame(
    {"a": range(20), "b": range(20)}, index=pd.Index(range(5, 25), name="idx")
)


def f1(df):
    q = df.reset_index()
    return q[(q["index"] > 12) & (q.a > 1)]


def f2(df):
    q = df.reset_index()
    return q[(q.idx > 13) & (q.b > 6)]


def f3(df):
    q = df.reset_index()
    return q[(q.a > 1) & (q["index"] > 12)]


def f4(df):
    q = df.reset_index()
    return q[q["index"] > q.a + 8]


def f5(df):
    q = df.reset_index()
    return q[(q["index"] > 12) | (q.a < 1)]


def f6(df):
    q = df.reset_index()
    return q[(q["index"] > 12) & (q.a > 1)]["b"]


def f7(df):
    # single terms (worked before)
    q = df.reset_index()
    return q[q["index"] > 12]


def f8(df):
    q = df.reset_index()
    return q[q.a > 3]


def f9(df):
    # series reset_index
    q = df.a.reset_index()
    return q[(q["index"] > 12) & (q.a > 1)]


def f10(df):
    q = df.reset_index()
    return q[q[["index", "a"]].sum(axis=1) > 20]


check("unnamed and", pdf, f1)
check("named and", named, f2)
check("reversed and", pdf, f3)
check("binop both", pdf, f4)
check("or", pdf, f5)
check("and + projection", pdf, f6)
check("single index", pdf, f7)
check("single col", pdf, f8)
check("series reset_index", pdf, f9)
check("list projection incl. index", pdf, f10)



def f11(df):
    q = df.reset_index()
    return q[q["index"].between(8, 20) & (q.a > 4)]


def f12(df):
    q = df.reset_index()
    return q[(q["index"] * 2 + q.a) % 3 == 0]


def f13(df):
    q = df.reset_index()
    return q[q.b > q["index"].sum() / 10]


check("series method on index column", pdf, f11)
check("arithmetic on index column", pdf, f12)
check("reduction of index column", pdf, f13)

if bad:
    print("C1 DEFECT PRESENT")
    for b in bad:
        print(" -", b)
    sys.exit(1)
print("C1 ok")
