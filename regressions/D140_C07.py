"""O8: arrow_to_pandas options: duplicated keywords; meta ignores types_mapper / dtype_backend."""
import os
import sys
import tempfile

import dask
import pandas as pd
import pyarrow as pa

import dask_expr as dx

dask.config.set(scheduler="sync")
d = tempfile.mkdtemp()
p = os.path.join(d, "ds.parquet")
pdf = pd.DataFrame({"a": range(40), "b": [1.5] * 40, "c": list("abcd") * 10})
dx.from_pandas(pdf, npartitions=2).to_parquet(p)
fail = 0


def check(name, **kw):
    global fail
    try:
        r = dx.read_parquet(p, filesystem="arrow", **kw)
        got = r.compute()
        assert got.shape == pdf.shape
        assert list(got.a) == list(pdf.a)
        meta, real = r._meta.dtypes.tolist(), got.dtypes.tolist()
        assert meta == real, ("meta dtypes %s, computed dtypes %s" % (meta, real))
        assert type(r._meta.index) is type(got.index) and r._meta.index.dtype == got.index.dtype, (r._meta.index, got.index)
        # projections and fused reads agree too
        got = r[["a"]].compute()
        assert r[["a"]]._meta.dtypes.tolist() == got.dtypes.tolist()
        got = (r.a + 1).compute()
        assert (r.a + 1)._meta.dtype == got.dtype, ((r.a + 1)._meta.dtype, got.dtype)
    except Exception as e:
        print("FAIL", name, type(e).__name__, str(e)[:300])
        fail = 1


check("plain")
check("use_threads", arrow_to_pandas={"use_threads": True})
check("self_destruct", arrow_to_pandas={"self_destruct": False})
check("both", arrow_to_pandas={"self_destruct": True, "use_threads": False, "split_blocks": True})
check("types_mapper", arrow_to_pandas={"types_mapper": {pa.int64(): pd.Int64Dtype()}.get})
check("numpy_nullable", dtype_backend="numpy_nullable")
check("pyarrow", dtype_backend="pyarrow")
check(
    "types_mapper+backend",
    dtype_backend="pyarrow",
    arrow_to_pandas={"types_mapper": {pa.float64(): pd.Float32Dtype()}.get},
)
with dask.config.set({"dataframe.convert-string": False}):
    check("no string conversion")
    check("no string conversion nullable", dtype_backend="numpy_nullable")
sys.exit(fail)
