import sys
import os
sys.path.insert(0, os.path.dirname(os.path.abspath(__file__)))
import pandas as pd
from fixV_common import compute_unoptimized
from dask_expr import from_pandas

rc = 0
import dask
dask.config.set({"dataframe.convert-string": False})
pdf = pd.DataFrame(
    {"a": [[1, 2], [3], [], [4, 5, 6]], "b": [[7], [8, 9], [10], []], "c": [1, 2, 3, 4]},
    index=[10, 11, 12, 13],
)
d = from_pandas(pdf, npartitions=2)


def check(name, f):
    global rc
    expected = f(pdf)
    try:
        got = f(d).compute()
    except Exception as e:
        print(name, "raises", type(e).__name__, e)
        rc = 1
        return
    ok = (
        type(got) is type(expected)
        and len(got) == len(expected)
        and got.index.tolist() == expected.index.tolist()
        and got.astype(object).where(got.notna(), None).values.tolist()
        == expected.astype(object).where(expected.notna(), None).values.tolist()
    )
    print(name, "OK" if ok else "MISMATCH", len(got), len(expected))
    if not ok:
        print(got, expected, sep="\n")
        rc = 1


check("explode(a)[a]", lambda x: x.explode("a")["a"])
check("explode(a).a + 0", lambda x: x.explode("a").a.astype("float64") + 0)
check("explode(a)[b]", lambda x: x.explode("a")["b"])
check("explode(a)[c]", lambda x: x.explode("a")["c"])
check("explode(a)[[a]]", lambda x: x.explode("a")[["a"]])
check("explode(a)[[a, c]]", lambda x: x.explode("a")[["a", "c"]])
check("explode(a)", lambda x: x.explode("a"))
check("series explode", lambda x: x["a"].explode())
sys.exit(rc)
