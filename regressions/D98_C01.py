import sys
import warnings
import dask
import numpy as np
import pandas as pd
from dask_expr import from_pandas

dask.config.set(scheduler="sync")
bad = []


def outcome(fn):
    with warnings.catch_warnings():
        warnings.simplefilter("ignore")
        try:
            return fn()
        except Exception as e:
            return type(e).__name__


def check(label, pobj, a, b):
    d = from_pandas(pobj, npartitions=2)
    expected = outcome(lambda: a * (b * pobj))
    unopt = outcome(lambda: dask.compute(a * (b * d), optimize_graph=False)[0])
    got = outcome(lambda: (a * (b * d)).compute())
    for name, r in (("optimized", got), ("unoptimized", unopt)):
        if isinstance(expected, str) or isinstance(r, str):
            if not (isinstance(expected, str) and isinstance(r, str)):
                bad.append((label, name, "pandas: %s, dask: %s" % (
                    expected if isinstance(expected, str) else "result",
                    r if isinstance(r, str) else "result")))
            continue
        same = r.equals(expected) and (
            r.dtypes.equals(expected.dtypes) if r.ndim == 2 else r.dtype == expected.dtype
        )
        if not same:
            diff = (r != expected)
            n = int(diff.values.sum())
            bad.append((label, name, "%d values differ from pandas" % n))


rng = np.random.RandomState(0)
fl = pd.Series(rng.uniform(0, 10, 200), name="x")
check("float series 0.1*(3*s)", fl, 0.1, 3)
check("float series 3*(0.1*s)", fl, 3, 0.1)
check("float series 3*(7*s)", fl * 1e-3 + 0.1, 3, 7)
check("float frame", pd.DataFrame({"x": fl, "y": fl * 3.3}), 0.1, 0.7)
i8 = pd.Series(np.arange(-20, 20, dtype="int8"), name="i")
check("int8 20*(20*s)", i8, 20, 20)
check("int8 2*(3*s)", i8, 2, 3)
u8 = pd.Series(np.arange(0, 40, dtype="uint8"), name="u")
check("uint8 -1*(-1*s)", u8, -1, -1)
i64 = pd.Series(np.arange(-100, 100, dtype="int64") * 10**15, name="l")
check("int64 wrap", i64, 1000, 1000)
check("int64 2**40*(2**40*s)", i64, 2**40, 2**40)
check("int with float literal", pd.Series(np.arange(200), name="k"), 0.1, 3)
check("int with float literal 2", pd.Series(np.arange(200), name="k"), 3, 0.1)
check("bool", pd.Series([True, False] * 10, name="b"), 2, 3)
check("mixed frame", pd.DataFrame({"i": np.arange(200), "x": fl}), 3, 7)

for b_ in bad:
    print("DEFECT:", b_)
sys.exit(1 if bad else 0)
