import sys
import numpy as np, pandas as pd, dask
import dask_expr as dx
dask.config.set(scheduler='sync')
bad = 0
def report(label, ok, msg=''):
    global bad
    print(label, 'OK' if ok else 'BAD', msg); bad += not ok
pdf = pd.DataFrame({'a': range(8), 'b': np.arange(8) * 2.0})
pdf2 = pdf.set_index(pd.Index(range(100, 108)))
df = dx.from_pandas(pdf, 2)
df2 = dx.from_pandas(pdf2, 2)
arr = df[['a', 'b']].to_dask_array(lengths=True)
x = dx.from_dask_array(arr, columns=['a', 'b'], index=df.index)
y = dx.from_dask_array(arr, columns=['a', 'b'], index=df2.index)
report('x alone', x.compute().index.tolist() == list(range(8)))
report('y alone', y.compute().index.tolist() == list(range(100, 108)))
out = dx.concat([x, y]).compute()
report('concat([x, y]) index', out.index.tolist() == list(range(8)) + list(range(100, 108)), out.index.tolist())
out = (x.a.sum() + y.index.to_series().sum()).compute()
report('shared graph scalar', out == sum(range(8)) + sum(range(100, 108)), out)
# same inputs -> same name (names are a function of the content)
x2 = dx.from_dask_array(arr, columns=['a', 'b'], index=df.index)
report('deterministic name', x2._name == x._name and x._name != y._name)
s = dx.from_dask_array(arr[:, 0], columns='a', index=df2.index)
report('series', s.compute().index.tolist() == list(range(100, 108)) and s.compute().tolist() == list(range(8)))
sys.exit(1 if bad else 0)
