import sys
import dask
import pandas as pd
from dask.base import tokenize
import dask_expr
from dask_expr import from_pandas

dask.config.set(scheduler="sync")

pdf = pd.DataFrame({"x": ["a", "b", "c", "d"], "y": ["p", "q", "r", "s"]})
df = from_pandas(pdf, npartitions=2)
bad = []

q1 = df.x + df.y
lit = df.y._name
q2 = df.x + lit  # column + a string literal
if q1._name == q2._name:
    bad.append(("same name for expr operand and equal string", q1._name))
r2 = q2.compute()
exp2 = pdf.x + lit
if r2.tolist() != exp2.tolist():
    bad.append(("q2 result", r2.tolist()[:2], exp2.tolist()[:2]))
if q1.compute().tolist() != (pdf.x + pdf.y).tolist():
    bad.append(("q1 result",))

# other operand positions
a = df.x.isin([df.y._name])
b = df.x.isin([lit + "z"])
if a._name == b._name:
    bad.append(("isin",))
if tokenize(df.y.expr) == tokenize(df.y._name):
    bad.append(("tokenize(expr) == tokenize(expr._name)",))
# determinism is kept
if tokenize(df.y.expr) != tokenize(df["y"].expr) or (df.x + df.y)._name != q1._name:
    bad.append(("non-deterministic",))

for m in bad:
    print("MISMATCH", m)
sys.exit(1 if bad else 0)
