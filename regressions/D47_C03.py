import sys
import dask
import pandas as pd
import dask_expr as dx

dask.config.set(scheduler="sync")

l = pd.DataFrame({"k": [1, 2, 3, 4, 5, 6], "a": [1, 2, 3, 4, 5, 6], "b": [10, 20, 30, 40, 50, 60]})
r = pd.DataFrame({"k": [1, 1, 1, 2, 7], "c": [1, 2, 3, 4, 5]})

bad = []


def check(label, fn, how="inner", npl=2, npr=2):
    dl = dx.from_pandas(l, npartitions=npl)
    dr = dx.from_pandas(r, npartitions=npr)
    expected = fn(l.merge(r, on="k", how=how))
    q = fn(dl.merge(dr, on="k", how=how))
    try:
        got = q.compute()
    except Exception as e:
        bad.append(f"{label}: raised {type(e).__name__}: {e}")
        return
    key = list(expected.columns)
    got = got.sort_values(key).reset_index(drop=True)
    expected = expected.sort_values(key).reset_index(drop=True)
    try:
        pd.testing.assert_frame_equal(got, expected, check_dtype=False)
    except AssertionError:
        bad.append(f"{label}: got {len(got)} rows, pandas {len(expected)} rows")


check("b > a.sum()+1", lambda m: m[m.b > (m.a.sum() + 1)])
check("b > a.sum()", lambda m: m[m.b > m.a.sum()])
check("b + a.sum() > 30", lambda m: m[(m.b + m.a.sum()) > 30])
check("b > a.max()*5", lambda m: m[m.b > (m.a.max() * 5)])
check("c >= c.mean()+0", lambda m: m[m.c >= (m.c.mean() + 0)])
check("left: b > a.sum()+1", lambda m: m[m.b > (m.a.sum() + 1)], how="left")
check("and: (k>0) & (b > a.sum()+1)", lambda m: m[(m.k > 0) & (m.b > (m.a.sum() + 1))])
check("b > len", lambda m: m[m.b > (m.a.count() + 3)])
check("isin-free unary", lambda m: m[~(m.b > (m.a.sum() + 1))])
# plain elementwise predicates must still be right
check("b > a + 5", lambda m: m[m.b > (m.a + 5)])
check("c > 1", lambda m: m[m.c > 1])

if bad:
    print("C2 DEFECT PRESENT")
    for b in bad:
        print(" -", b)
    sys.exit(1)
print("C2 ok")
