from fixE_common import *

rng = np.random.default_rng(1)
pdf = pd.DataFrame({"a": rng.permutation(200), "x": np.arange(200)}, index=np.arange(200))
df = dask_expr.from_pandas(pdf, npartitions=10)

for kwargs in [{}, {"shuffle_method": "tasks"}, {"shuffle_method": "disk"}]:
    s = df.set_index("a", **kwargs)
    full = parts(s)
    for sel in [1, [1], [0, 1], [2, 5], [8, 9], [9], [3, 1], [1, 1], [4, 2, 7], slice(2, 5)]:
        p = s.partitions[sel]
        o = p.optimize()
        label = f"set_index('a', {kwargs}).partitions[{sel}]"
        divisions_truthful(p, label)
        divisions_truthful(o, label + " optimized")
        if p.known_divisions:
            check(o.divisions == p.divisions, f"{label}: optimized divisions {o.divisions} == {p.divisions}")
        idx = [sel] if isinstance(sel, int) else (list(range(10))[sel] if isinstance(sel, slice) else sel)
        exp = [full[i] for i in idx]
        got = parts(o)
        check(
            len(got) == len(exp) and all(g.equals(e) for g, e in zip(got, exp)),
            f"{label}: optimized partitions are the selected partitions",
        )
finish()
