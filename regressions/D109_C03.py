import os, sys
sys.path.insert(0, os.path.dirname(os.path.abspath(__file__)))
from fixJ_filt_common import *  # noqa

pdf = pd.DataFrame({"a": [1, 2, 3, 4, 5, 6, 7, 8], "b": [8, 7, 6, 5, 4, 3, 2, 1]},
                   index=[10, 11, 12, 13, 14, 15, 16, 17])
df = dx.from_pandas(pdf, npartitions=3)

on_index = {
    "q.index.to_series() > 3": lambda q: q[q.index.to_series() > 3],
    "q.index.to_series() > 25": lambda q: q[q.index.to_series() > 25],
    "q.index.to_series() < 13": lambda q: q[q.index.to_series() < 13],
}


def all_preds(tag, pq, dq, **kwargs):
    for name, pred in on_index.items():
        check(f"q = {tag}; q[{name}]", pred, pq, dq, **kwargs)


# one output partition, so that the new index is the same as in pandas
all_preds("df.sort_values('b', ignore_index=True)",
          pdf.sort_values("b", ignore_index=True),
          df.repartition(npartitions=1).sort_values("b", ignore_index=True))
all_preds("df.repartition(npartitions=1).reset_index(drop=True)",
          pdf.reset_index(drop=True), df.repartition(npartitions=1).reset_index(drop=True))
all_preds("df.a.rename(index=lambda i: i * 2)",
          pdf.a.rename(index=lambda i: i * 2), df.a.rename(index=lambda i: i * 2))
all_preds("df.a.rename(index={10: 100, 17: 0})",
          pdf.a.rename(index={10: 100, 17: 0}), df.a.rename(index={10: 100, 17: 0}))
all_preds("df.set_index('b')", pdf.set_index("b"), df.set_index("b"))
all_preds("df.set_index(df.b * 3)", pdf.set_index(pdf.b * 3), df.set_index(df.b * 3))

# the labels are strings after add_prefix / add_suffix
ps, ds = pdf.a.add_prefix("2"), df.a.add_prefix("2")
check("q = df.a.add_prefix('2'); q[q.index.to_series() > '213']",
      lambda q: q[q.index.to_series() > "213"], ps, ds)
ps, ds = pdf.a.add_suffix("0"), df.a.add_suffix("0")
check("q = df.a.add_suffix('0'); q[q.index.to_series().str.len() > 2]",
      lambda q: q[q.index.to_series().str.len() > 2], ps, ds)

# shuffle(ignore_index=True): compare with the same plan evaluated step by step
q = df.shuffle("a", ignore_index=True, shuffle_method="tasks")
got = q[q.index.to_series() > 1].compute()
full = q.compute()
exp = full[full.index.to_series() > 1]
if sorted(got.a) != sorted(exp.a):
    bad.append(f"q = df.shuffle('a', ignore_index=True); q[q.index.to_series() > 1]: "
               f"{sorted(got.a)} != {sorted(exp.a)}")

# to_timestamp
pper = pd.DataFrame({"a": range(8)}, index=pd.period_range("2020-01", periods=8, freq="M"))
dper = dx.from_pandas(pper, npartitions=2)
check("q = d.to_timestamp(); q[q.index.to_series().dt.day == 1]",
      lambda q: q[q.index.to_series().dt.day == 1], pper.to_timestamp(), dper.to_timestamp())

# an Index turned into a Series / frame
check("q = df.index.to_series(); q[q.index.to_series() > 13]",
      lambda q: q[q.index.to_series() > 13], pdf.index.to_series(), df.index.to_series())
check("q = df.index.to_frame(); q[q.index.to_series() > 13]",
      lambda q: q[q.index.to_series() > 13], pdf.index.to_frame(), df.index.to_frame())
check("q = df.index.to_series(); q[q > 13]",
      lambda q: q[q > 13], pdf.index.to_series(), df.index.to_series())
# the name of the index is part of index.to_frame()
check("q = df.rename_axis('i'); q[q.index.to_frame().i > 13]",
      lambda q: q[q.index.to_frame().i > 13], pdf.rename_axis("i"), df.rename_axis("i"))

# predicates that don't read the index are still fine
check("q = df.sort_values('b', ignore_index=True); q[q.a > 3]", lambda q: q[q.a > 3],
      pdf.sort_values("b", ignore_index=True),
      df.repartition(npartitions=1).sort_values("b", ignore_index=True))
# operations that keep the index
check("q = df.a.rename('x'); q[q.index.to_series() > 13]",
      lambda q: q[q.index.to_series() > 13], pdf.a.rename("x"), df.a.rename("x"))
check("q = df.sort_values('b'); q[q.index.to_series() > 13]",
      lambda q: q[q.index.to_series() > 13], pdf.sort_values("b"), df.sort_values("b"))
finish()
