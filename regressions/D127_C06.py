import sys, itertools
import numpy as np, pandas as pd, dask
import dask_expr as dx
dask.config.set(scheduler='sync')
bad = 0; checked = 0; skipped = 0

def own_parts(coll):
    # partitions of exactly this expression's graph (no further optimization)
    e = coll.expr
    return e.divisions, dask.get(e.__dask_graph__(), e.__dask_keys__())

def truthful(tag, divs, parts):
    global bad
    n = len(parts)
    if len(divs) != n + 1:
        print(tag, 'npartitions mismatch', len(divs) - 1, n); bad += 1; return
    if None in divs:
        return
    for i, p in enumerate(parts):
        if len(p):
            lo, hi = p.index.min(), p.index.max()
            ok = lo >= divs[i] and (hi <= divs[i + 1] if i == n - 1 else hi < divs[i + 1])
            if not ok:
                print(tag, 'partition', i, lo, '..', hi, 'outside', divs[i], divs[i + 1]); bad += 1

idx = pd.date_range('2000-01-01', periods=60, freq='7h')
pdf = pd.DataFrame({'a': np.arange(60.0), 'b': np.arange(60) % 7}, index=idx)
df = dx.from_pandas(pdf, npartitions=4)
for rule, closed, label in itertools.product(['1D', '2D', '30min', '3h'], [None, 'left', 'right'], [None, 'left', 'right']):
    kw = {k: v for k, v in (('closed', closed), ('label', label)) if v is not None}
    tag = f'{rule} {kw}'
    r = df.a.resample(rule, **kw).sum()
    exp = pdf.a.resample(rule, **kw).sum()
    logical = r.divisions
    opt = r.optimize()
    try:
        divs, parts = own_parts(opt)
    except ValueError as ex:
        # limitation inherited from dask ("Index is not contained within new index")
        assert 'not contained' in str(ex)
        skipped += 1
        continue
    checked += 1
    if divs != logical:
        print(tag, 'optimized divisions differ from logical\n   ', divs, '\n   ', logical); bad += 1
    low = r.lower_once()
    if low.divisions != logical:
        print(tag, 'lowered divisions differ from logical'); bad += 1
    truthful(tag + ' optimized', divs, parts)
    try:
        pd.testing.assert_series_equal(pd.concat(parts), exp, check_freq=False, check_dtype=False)
    except AssertionError:
        print(tag, 'values differ from pandas'); bad += 1
    # selection of partitions of the lowered expression
    for sel_parts in ([1, 3], [2, 0], [1, 1]):
        sel = opt.partitions[sel_parts].optimize()
        sdivs, sparts = own_parts(sel)
        if sel_parts == [1, 3]:
            if sdivs != (logical[1], logical[3], logical[4]):
                print(tag, 'selected divisions', sdivs); bad += 1
        elif sdivs != (None, None, None):
            print(tag, 'reordered selection has divisions', sdivs); bad += 1
        truthful(tag + f' partitions{sel_parts}', sdivs, sparts)
        for j, p in zip(sel_parts, sparts):
            if not p.equals(parts[j]):
                print(tag, 'selected partition differs'); bad += 1
print('checked', checked, 'skipped', skipped, 'bad', bad)
sys.exit(1 if bad or not checked else 0)
