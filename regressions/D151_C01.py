import sys
import warnings
import dask
import numpy as np
import pandas as pd
from dask_expr import from_pandas

warnings.simplefilter("ignore")
dask.config.set(scheduler="sync")
rng = np.random.RandomState(0)
pdf = pd.DataFrame({"a": rng.permutation(40), "b": range(40)})
df = from_pandas(pdf, npartitions=4)
bad = []


def unoptimized(coll):
    e = coll.expr.lower_completely()
    res = dask.get(e.__dask_graph__(), e.__dask_keys__())
    return pd.concat(list(res))


cases = {
    "sort_values.head": lambda n: (df.sort_values("a"), "head", n),
    "sort_values_desc.head": lambda n: (df.sort_values("a", ascending=False), "head", n),
    "set_index.head": lambda n: (df.set_index("a"), "head", n),
    "sort_values.tail": lambda n: (df.sort_values("a"), "tail", n),
    "set_index.tail": lambda n: (df.set_index("a"), "tail", n),
}
for name, mk in cases.items():
    for n in (-3, -1, -12, 3):
        q, meth, n = mk(n)
        first, last = q.partitions[0].compute(), q.partitions[q.npartitions - 1].compute()
        expected = first.head(n) if meth == "head" else last.tail(n)
        lazy = getattr(q, meth)(n, compute=False)
        got = lazy.compute()
        unopt = unoptimized(lazy)
        if n < 0:
            assert unopt.equals(expected), (name, n, unopt, expected)
        if not got.equals(unopt):
            bad.append((name, n, len(got), len(unopt)))
            continue
        got2 = getattr(q, meth)(n)
        if not got2.equals(unopt):
            bad.append((name, n, "compute=True", len(got2), len(unopt)))
for b in bad:
    print("MISMATCH", b)
print("N2", "FAIL" if bad else "ok")
sys.exit(1 if bad else 0)
