"""D1: groupby(..., dropna=False).nunique() must keep the NaN group."""
import sys

import dask
import numpy as np
import pandas as pd

import dask_expr
from dask_expr import from_pandas

dask.config.set(scheduler="sync")
print("dask_expr from", dask_expr.__file__)

pdf = pd.DataFrame(
    {
        "k": [1.0, np.nan, 2.0, 1.0, np.nan, 3.0, 2.0, np.nan, 1.0, 3.0, np.nan, 2.0],
        "k2": [1.0, 1.0, np.nan, 1.0, 1.0, np.nan, 2.0, 2.0, 1.0, 3.0, np.nan, 2.0],
        "v": [1, 2, 3, 1, 5, 6, 7, 2, 9, 6, 11, 3],
        "w": [1, 1, 3, 1, 5, 6, 7, 2, 9, 6, 1, 3],
    }
)

bad = 0


def check(label, got, exp):
    global bad
    got = got.sort_index()
    exp = exp.sort_index()
    try:
        if isinstance(exp, pd.Series):
            pd.testing.assert_series_equal(got, exp, check_dtype=False)
        else:
            pd.testing.assert_frame_equal(got, exp, check_dtype=False)
    except AssertionError as e:
        bad += 1
        print("MISMATCH", label, "got", len(got), "groups, expected", len(exp))
        print(str(e).splitlines()[0])


for npart in (1, 2, 5):
    df = from_pandas(pdf, npartitions=npart)
    for dropna in (False, True, None):
        kw = {} if dropna is None else {"dropna": dropna}
        for split_every in (None, 2):
            for split_out in (1, 2):
                if split_out > 1:
                    # sort=True is unsupported with split_out>1
                    kw2 = dict(kw, sort=False)
                else:
                    kw2 = kw
                exp = pdf.groupby("k", **kw).v.nunique()
                got = (
                    df.groupby("k", **kw2)
                    .v.nunique(split_every=split_every, split_out=split_out)
                    .compute()
                )
                check(f"series np={npart} {kw2} se={split_every} so={split_out}", got, exp)

                exp = pdf.groupby(["k", "k2"], **kw).v.nunique()
                got = (
                    df.groupby(["k", "k2"], **kw2)
                    .v.nunique(split_every=split_every, split_out=split_out)
                    .compute()
                )
                check(f"multi np={npart} {kw2} se={split_every} so={split_out}", got, exp)

                # grouping by a series rather than by a column name
                exp = pdf.groupby(pdf.k, **kw).v.nunique()
                got = (
                    df.groupby(df.k, **kw2)
                    .v.nunique(split_every=split_every, split_out=split_out)
                    .compute()
                )
                check(f"bykey np={npart} {kw2} se={split_every} so={split_out}", got, exp)

    # keys that are computed series (slow path of the chunk step)
    for kw in ({"dropna": False}, {"dropna": True}, {}):
        exp = pdf.groupby(pdf.k + 1, **kw).v.nunique()
        got = df.groupby(df.k + 1, **kw).v.nunique().compute()
        check(f"exprkey np={npart} {kw}", got, exp)
        exp = pdf.v.groupby(pdf.k + 1, **kw).nunique()
        got = df.v.groupby(df.k + 1, **kw).nunique().compute()
        check(f"series.groupby(exprkey) np={npart} {kw}", got, exp)

print("mismatches:", bad)
sys.exit(1 if bad else 0)
