from fixE_common import *

pdf = pd.DataFrame({"x": np.arange(100)}, index=np.arange(100))
df = dask_expr.from_pandas(pdf, npartitions=10)
ps = parts(df)
mask = np.zeros(10, dtype=bool)
mask[[2, 7]] = True
for sel, idx in [
    (1, [1]),
    (-1, [9]),
    (np.int64(1), [1]),
    (np.int32(3), [3]),
    (np.uint8(4), [4]),
    (np.int64(-1), [9]),
    (np.array(2), [2]),
    ([1, 3], [1, 3]),
    (np.array([5, 2]), [5, 2]),
    (slice(2, 4), [2, 3]),
    (mask, [2, 7]),
]:
    try:
        p = df.partitions[sel]
        got = parts(p)
        check(
            p.npartitions == len(idx) and len(got) == len(idx) and all(g.equals(ps[i]) for g, i in zip(got, idx)),
            f"df.partitions[{sel!r}] ({type(sel).__name__}) selects partitions {idx}",
        )
        check(all(type(i) is int for i in p.expr.operand("partitions")), f"df.partitions[{sel!r}] stores python ints")
        check(p.compute().equals(pd.concat([ps[i] for i in idx])), f"df.partitions[{sel!r}].compute()")
    except Exception as e:
        check(False, f"df.partitions[{sel!r}] ({type(sel).__name__}) raised {type(e).__name__}: {e}")
for bad in [10, np.int64(10), -11]:
    try:
        df.partitions[bad]
        check(False, f"df.partitions[{bad!r}] should raise")
    except (IndexError, AssertionError):
        check(True, f"df.partitions[{bad!r}] raises")
finish()
