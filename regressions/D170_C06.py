import sys
import dask
import numpy as np
import pandas as pd
from dask_expr import from_pandas

dask.config.set(scheduler="sync")
bad = []

pdf = pd.DataFrame({"a": np.arange(4000) % 10, "b": np.arange(4000.0), "c": np.arange(4000)})
df = from_pandas(pdf, npartitions=2)


def check(name, q, exp):
    o = q.optimize()
    n_raw, n_opt, n_del = q.npartitions, o.npartitions, len(q.to_delayed())
    if not (n_raw == n_opt == n_del):
        bad.append((name, "npartitions raw/optimized/delayed", n_raw, n_opt, n_del))
    if len(q.divisions) != n_del + 1 or len(o.divisions) != n_del + 1:
        bad.append((name, "divisions", len(q.divisions), len(o.divisions), n_del))
    got = q.compute()
    if not got.sort_index().equals(exp.sort_index()):
        bad.append((name, "rows", len(got), len(exp)))


r = df.repartition(partition_size="8kB")
check("size + filter", r[r.a > 5], pdf[pdf.a > 5])
check("size + filter + op", r[r.a > 8] + 1, pdf[pdf.a > 8] + 1)
check("size only", r, pdf)

# filters are still pushed below a repartition with a fixed layout
for name, r2 in (("npartitions", df.repartition(npartitions=4)), ("divisions", df.repartition(divisions=(0, 1000, 3999)))):
    q = r2[r2.a > 5]
    check(name + " + filter", q, pdf[pdf.a > 5])
    top = q.simplify().expr
    if type(top).__name__ == "Filter":
        bad.append((name, "filter is no longer pushed below the repartition"))

if bad:
    for b in bad:
        print("BAD", b)
    sys.exit(1)
print("ok")
