import sys
import dask
import pandas as pd
import dask_expr as dx

dask.config.set(scheduler="sync")
bad = 0


def check(name, build, exp, sort=None):
    global bad
    try:
        got = build().compute()
        if sort is not None:
            by = {} if exp.ndim == 1 else {"by": sort}
            got = got.sort_values(**by).reset_index(drop=True)
            exp = exp.sort_values(**by).reset_index(drop=True)
        else:
            got, exp = got.sort_index(), exp.sort_index()
        (pd.testing.assert_series_equal if exp.ndim == 1 else pd.testing.assert_frame_equal)(got, exp)
    except Exception as e:
        bad += 1
        print("FAIL", name, type(e).__name__, str(e).splitlines()[0] if str(e) else "")


pdf = pd.DataFrame({0: [1, 2, 3, 1, 2, 3, 1, 2, 3], 1: [1, 1, 2, 2, 3, 3, 4, 4, 4]})
df = dx.from_pandas(pdf, 3)
check("drop_duplicates(subset=[0])[[0]]", lambda: df.drop_duplicates(subset=[0])[[0]], pdf.drop_duplicates(subset=[0])[[0]], sort=[0])
check("drop_duplicates(subset=[0])", lambda: df.drop_duplicates(subset=[0]), pdf.drop_duplicates(subset=[0]), sort=[0])
check("drop_duplicates(subset=0)", lambda: df.drop_duplicates(subset=0), pdf.drop_duplicates(subset=0), sort=[0])
check("drop_duplicates(subset=[1])", lambda: df.drop_duplicates(subset=[1]), pdf.drop_duplicates(subset=[1]), sort=[1])
check("groupby(0)[1].nunique()", lambda: df.groupby(0)[1].nunique(), pdf.groupby(0)[1].nunique())
check("groupby(1)[0].nunique()", lambda: df.groupby(1)[0].nunique(), pdf.groupby(1)[0].nunique())
check("x[[0,1]].drop_duplicates()", lambda: df[[0, 1]].drop_duplicates(), pdf[[0, 1]].drop_duplicates(), sort=[0, 1])
check("x[[1,0]].drop_duplicates()", lambda: df[[1, 0]].drop_duplicates(), pdf[[1, 0]].drop_duplicates(), sort=[0, 1])
check("drop_duplicates shuffle", lambda: df.drop_duplicates(subset=[0], shuffle_method="tasks", split_out=2), pdf.drop_duplicates(subset=[0]), sort=[0])
pdf2 = pd.DataFrame({0: [3, 1, 2, 2, 3, 1], 1: [1.0, 2, 3, 4, 5, 6]})
df2 = dx.from_pandas(pdf2, 3)
check("groupby(0)[1].nunique() #2", lambda: df2.groupby(0)[1].nunique(), pdf2.groupby(0)[1].nunique())
check("groupby(0)[1].nunique(split_out=2)", lambda: df2.groupby(0)[1].nunique(split_out=2), pdf2.groupby(0)[1].nunique())
check("groupby(0).sum(split_out=2)", lambda: df2.groupby(0).sum(split_out=2), pdf2.groupby(0).sum())
# Series named by an integer
check("series 1 drop_duplicates", lambda: df[1].drop_duplicates(), pdf[1].drop_duplicates(), sort=1)
check("series 0 drop_duplicates", lambda: df[0].drop_duplicates(), pdf[0].drop_duplicates(), sort=0)
check("series 1 value_counts", lambda: df[1].value_counts(), pdf[1].value_counts())
# string labels keep working
pdfs = pdf.rename(columns={0: "a", 1: "b"})
dfs = dx.from_pandas(pdfs, 3)
check("str drop_duplicates", lambda: dfs.drop_duplicates(subset=["a"]), pdfs.drop_duplicates(subset=["a"]), sort=["a"])
check("str nunique", lambda: dfs.groupby("a")["b"].nunique(), pdfs.groupby("a")["b"].nunique())
sys.exit(1 if bad else 0)
