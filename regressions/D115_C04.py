"""I7: user columns named like the temporary columns of the shuffle are lost."""
import sys

import dask
import numpy as np
import pandas as pd

import dask_expr

dask.config.set(scheduler="sync")

pdf = pd.DataFrame(
    {
        "a": [5, 3, 8, 1, 9, 2, 7, 4, 6, 0],
        "_partitions": [1.5, 2.5, 3.5, 4.5, 5.5, 6.5, 7.5, 8.5, 9.5, 0.5],
        "_index": list("abcdefghij"),
        "_partitions_0": np.arange(10) * 2,
        "b": np.arange(10.0),
    }
)
df = dask_expr.from_pandas(pdf, npartitions=3)
pdf2 = pd.DataFrame({"a": [0, 1, 2, 3, 4, 5, 6, 7, 8, 9], "z": np.arange(10) + 100})
df2 = dask_expr.from_pandas(pdf2, npartitions=2)


def by_index(x):
    # dask sorts by the new index
    x = x.sort_index()
    x.index = x.index.astype(object)
    return x


def sort(x):
    return x.sort_values("a").reset_index(drop=True)


cases = {
    "set_index('a')": (lambda d: d.set_index("a"), by_index),
    "set_index(a * 2)": (lambda d: d.set_index(d.a * 2), by_index),
    "set_index('_partitions')": (lambda d: d.set_index("_partitions"), by_index),
    "set_index('_index')": (lambda d: d.set_index("_index"), by_index),
    "sort_values('a')": (lambda d: d.sort_values("a"), None),
    "sort_values('_partitions')": (lambda d: d.sort_values("_partitions"), None),
    "shuffle('a')": (lambda d: d.shuffle("a") if d is df else d, sort),
    "shuffle('_partitions')": (lambda d: d.shuffle("_partitions") if d is df else d, sort),
    "merge": (
        lambda d: d.merge(df2 if d is df else pdf2, on="a", how="inner"),
        sort,
    ),
    "groupby shuffle": (
        lambda d: (
            d.groupby("a").agg({"_partitions": "sum", "_index": "first"}, split_out=2)
            if d is df
            else d.groupby("a").agg({"_partitions": "sum", "_index": "first"})
        ),
        lambda x: x.sort_index(),
    ),
    "drop_duplicates shuffle": (
        lambda d: (
            d.drop_duplicates(subset=["a"], split_out=2) if d is df else d.drop_duplicates(subset=["a"])
        ),
        sort,
    ),
}

bad = 0
for name, (f, norm) in cases.items():
    expected = f(pdf)
    try:
        got = f(df).compute()
        if norm is not None:
            got, expected = norm(got), norm(expected)
        if isinstance(expected, pd.Series):
            pd.testing.assert_series_equal(got, expected)
        else:
            pd.testing.assert_frame_equal(got, expected, check_dtype=False)
    except Exception as e:
        bad += 1
        print(f"FAIL [{name}]: {type(e).__name__}: {str(e)[:250]}")

print("failures:", bad)
sys.exit(1 if bad else 0)
