import os, sys
sys.path.insert(0, os.path.dirname(os.path.abspath(__file__)))
from fixJ_filt_common import *  # noqa

pdf = pd.DataFrame({"a": [1, 2, 3, 4, 5, 6, 7, 8], "b": [8, 7, 6, 5, 4, 3, 2, 1]})
df = dx.from_pandas(pdf, npartitions=3)


def unopt(tag, coll, expected):
    # shuffle has no pandas counterpart: the rows are those of the input
    try:
        got = coll.compute()
        pd.testing.assert_frame_equal(norm(got), norm(expected), check_dtype=False)
    except Exception as e:  # noqa
        msg = str(e).strip().splitlines()
        bad.append(f"{tag}: {type(e).__name__}: {' | '.join(msg[:1] + msg[-2:])}"[:400])


def filt(q, col, n):
    return q[q[col] > n]


for method in ("tasks", "disk"):
    unopt(f"q = df.shuffle(on=df.a % 2, shuffle_method={method!r}); q[q.a > 3]",
          filt(df.shuffle(on=df.a % 2, shuffle_method=method), "a", 3), pdf[pdf.a > 3])
    unopt(f"q = df.shuffle(on=df[['a']] % 2, shuffle_method={method!r}); q[q.b > 3]",
          filt(df.shuffle(on=df[["a"]] % 2, shuffle_method=method), "b", 3), pdf[pdf.b > 3])
    unopt(f"q = df.shuffle(on=df.index, shuffle_method={method!r}); q[q.b > 3]",
          filt(df.shuffle(on=df.index, shuffle_method=method), "b", 3), pdf[pdf.b > 3])
unopt("q = df.shuffle('a'); q[q.a > 3]", filt(df.shuffle("a"), "a", 3), pdf[pdf.a > 3])

check("q = df.set_index(df.b * 2); q[q.a > 2]",
      lambda q: q[q.a > 2], pdf.set_index(pdf.b * 2), df.set_index(df.b * 2))
check("q = df.set_index(df.b * 2, sorted=True)...",
      lambda q: q[q.b > 2], pdf.set_index(pdf.a * 2), df.set_index(df.a * 2, sorted=True))
check("q = df.set_index('b'); q[q.a > 2]",
      lambda q: q[q.a > 2], pdf.set_index("b"), df.set_index("b"))
check("q = df.a.to_frame().set_index(df.b); q[q.a > 2]",
      lambda q: q[q.a > 2], pdf.a.to_frame().set_index(pdf.b), df.a.to_frame().set_index(df.b))
finish()
