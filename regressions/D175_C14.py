import sys
import numpy as np, pandas as pd, dask
from dask_expr import from_pandas
dask.config.set(scheduler="sync")
bad = []

def parts(q, fuse):
    # execute the graph of the optimized plan as it is (no second optimize)
    o = q.optimize(fuse=fuse)
    g = dict(o.__dask_graph__())
    keys = [(o._name, i) for i in range(o.npartitions)]
    res = [dask.get(g, k) for k in keys]
    return res, pd.concat(res)

def check(name, build):
    try:
        pu, wu = parts(build(), False)
        pf, wf = parts(build(), True)
        for a, b in zip(pu, pf):
            pd.testing.assert_series_equal(a, b)
        pd.testing.assert_series_equal(wu, wf)
    except Exception as ex:
        bad.append(name); print("FAIL", name, type(ex).__name__, str(ex)[:120])

def case1():
    df = from_pandas(pd.DataFrame({'y': np.arange(12.) * 2}), npartitions=3)
    D = df.y.sum() * 2
    A = D + 1
    c1 = (df.y - A).optimize()
    return c1 + df.y * D

def case2():
    df = from_pandas(pd.DataFrame({'y': np.arange(12.) * 2, 'z': np.arange(12.)}), npartitions=3)
    D = df.y.sum() * 2
    A = D + df.z.max()
    c1 = ((df.y - A) * 3).optimize()
    return (c1 + df.z * D) - D

def case3():
    # without the pre-optimized sub-plan
    df = from_pandas(pd.DataFrame({'y': np.arange(12.) * 2}), npartitions=3)
    D = df.y.sum() * 2
    A = D + 1
    return (df.y - A) + df.y * D

check("case1", case1)
check("case2", case2)
check("case3", case3)
print("bad:", bad)
sys.exit(1 if bad else 0)
