from fixE_common import *

pdf = pd.DataFrame({"x": np.arange(120)}, index=np.arange(120))
df = dask_expr.from_pandas(pdf, npartitions=4)
check(df.divisions == (0, 30, 60, 90, 119), "input divisions")
neg = dask_expr.from_pandas(pdf.set_index(pdf.index - 47), npartitions=4)
npdf = pdf.set_index(pdf.index - 47)
unk = df.clear_divisions()

cases = {
    "index % 30": lambda d: d.index % 30,
    "index % 31": lambda d: d.index % 31,
    "index // 7": lambda d: d.index // 7,
    "5 - index": lambda d: 5 - d.index,
    "index * -1": lambda d: d.index * -1,
    "index * 0": lambda d: d.index * 0,
    "index ** 2": lambda d: d.index**2,
    "100 / (index + 1)": lambda d: 100 / (d.index + 1),
    "index + 1": lambda d: d.index + 1,
    "1 + index": lambda d: 1 + d.index,
    "index - 5": lambda d: d.index - 5,
    "index * 2": lambda d: d.index * 2,
    "2.5 * index": lambda d: 2.5 * d.index,
    "index / 4": lambda d: d.index / 4,
    "index + index": lambda d: d.index + d.index,
    "-index": lambda d: -d.index,
    "np.sqrt(index + 1)": lambda d: np.sqrt(d.index + 1),
    "np.sqrt(index)": lambda d: np.sqrt(d.index),
    "np.exp(index / 100)": lambda d: np.exp(d.index / 100),
    "np.sin(index)": lambda d: np.sin(d.index),
    "np.negative(index)": lambda d: np.negative(d.index),
    "np.abs(index)": lambda d: np.abs(d.index),
    "np.square(index)": lambda d: np.square(d.index),
    "np.add(index, 3)": lambda d: np.add(d.index, 3),
    "np.multiply(index, -3)": lambda d: np.multiply(d.index, -3),
    "np.mod(index, 31)": lambda d: np.mod(d.index, 31),
}
must_keep = {"index + 1", "1 + index", "index - 5", "index * 2", "2.5 * index", "index / 4", "np.sqrt(index + 1)", "np.sqrt(index)", "np.exp(index / 100)", "np.add(index, 3)"}

for frame, pframe, fname in [(df, pdf, "df"), (neg, npdf, "neg")]:
    for name, f in cases.items():
        if fname == "neg" and ("sqrt" in name or "/ (index" in name):
            continue
        r = f(frame)
        divisions_truthful(r, f"{fname}: {name}")
        divisions_truthful(r.optimize(), f"{fname}: {name} optimized")
        check(
            np.allclose(np.asarray(r.compute(), dtype=float), np.asarray(f(pframe), dtype=float)),
            f"{fname}: {name} equals pandas",
        )
        if name in must_keep:
            check(r.known_divisions, f"{fname}: {name} keeps known divisions")

# unknown divisions stay unknown and do not raise
for name, f in cases.items():
    try:
        r = f(unk)
        check(not r.known_divisions, f"unknown: {name} stays unknown, got {r.divisions}")
        check(
            np.allclose(np.asarray(r.compute(), dtype=float), np.asarray(f(pdf), dtype=float)),
            f"unknown: {name} equals pandas",
        )
    except Exception as e:
        check(False, f"unknown: {name} raised {type(e).__name__}: {e}")

# datetime index shifted by an offset keeps divisions, series ufuncs keep the index
tpdf = pd.DataFrame({"x": np.arange(40.0)}, index=pd.date_range("2020-01-01", periods=40))
tdf = dask_expr.from_pandas(tpdf, npartitions=4)
r = tdf.index + pd.Timedelta("1D")
divisions_truthful(r, "datetime index + Timedelta")
check(r.known_divisions, "datetime index + Timedelta keeps known divisions")
r = np.sqrt(df.x)
divisions_truthful(r, "np.sqrt(series)")
check(r.divisions == df.divisions, "np.sqrt(series) keeps the divisions of the series")
finish()
