import os, sys
sys.path.insert(0, os.path.dirname(os.path.abspath(__file__)))
from fixJ_filt_common import *  # noqa

pdf = pd.DataFrame({"a": [3, 2, 1, 4, 5, 6, 8, 7], "b": [5, 7, 6, 8, 1, 3, 2, 4]})
df = dx.from_pandas(pdf, npartitions=3)

ops = {
    "sort_values('b')": lambda d: d.sort_values("b"),
    "sort_values('b', ascending=False)": lambda d: d.sort_values("b", ascending=False),
    "set_index('b')": lambda d: d.set_index("b"),
    "shuffle('b')": lambda d: d.shuffle("b"),
    "repartition(npartitions=2)": lambda d: d.repartition(npartitions=2),
}
preds = {
    "q.a >= q.a.head(1).sum()": lambda q: q[q.a >= q.a.head(1, **kw(q)).sum()],
    "q.a <= q.a.tail(1).sum()": lambda q: q[q.a <= q.a.tail(1, **kw(q)).sum()],
    "q.a >= q.a.head(2).max()": lambda q: q[q.a >= q.a.head(2, **kw(q)).max()],
    "q.a >= q.head(1).a.sum()": lambda q: q[q.a >= q.head(1, **kw(q)).a.sum()],
}


def kw(q):
    return {} if isinstance(q, (pd.DataFrame, pd.Series)) else {"compute": False}


for oname, op in ops.items():
    for pname, pred in preds.items():
        # the predicate evaluated on the computed query says which rows to keep
        check(f"q = df.{oname}; q[{pname}]", pred, op(df).compute(), op(df))

# first partition of the sorted frame
q = df.sort_values("b")
got = q[q.a >= q.a.partitions[0].min()].compute()
exp = q.compute()
exp = exp[exp.a >= q.a.partitions[0].compute().min()]
if sorted(got.a) != sorted(exp.a):
    bad.append(f"q[q.a >= q.a.partitions[0].min()]: {sorted(got.a)} != {sorted(exp.a)}")

# positions as labels
q = df.repartition(npartitions=1)
try:
    got = sorted(q[q[["a"]].reset_index(drop=True).a > 2].compute().a)
except Exception as e:  # noqa
    got = type(e).__name__
if got != [3, 4, 5, 6, 7, 8]:
    bad.append(f"q = df.repartition(npartitions=1); q[q[['a']].reset_index(drop=True).a > 2]: {got}")

# order preserving operations keep working
check("df[df.a >= df.a.head(1).sum()]", preds["q.a >= q.a.head(1).sum()"], pdf, df)
finish()
