import sys
import numpy as np, pandas as pd, dask
from dask_expr import from_pandas
dask.config.set(scheduler="sync")
bad = []
p = pd.DataFrame({'a': np.arange(40) % 4, 'b': np.arange(40) % 3, 'c': np.arange(40.)})

def check(name, make, exp):
    try:
        got = make().compute()
        exp = exp()
        if got.ndim == 1:
            pd.testing.assert_series_equal(got.sort_index(), exp.sort_index(), check_dtype=False)
        else:
            pd.testing.assert_frame_equal(got.sort_index(), exp.sort_index(), check_dtype=False)
    except Exception as ex:
        bad.append(name); print("FAIL", name, type(ex).__name__, str(ex)[:100])

d = lambda: from_pandas(p, 4)
for so in [2, 3]:
    check(f"ab.b.count-{so}", lambda: d().groupby(['a', 'b']).b.count(split_out=so), lambda: p.groupby(['a', 'b']).b.count())
    check(f"ab.a.sum-{so}", lambda: d().groupby(['a', 'b']).a.sum(split_out=so), lambda: p.groupby(['a', 'b']).a.sum())
    check(f"b.b.count-{so}", lambda: d().groupby('b').b.count(split_out=so), lambda: p.groupby('b').b.count())
    check(f"b.b.max-{so}", lambda: d().groupby('b').b.max(split_out=so), lambda: p.groupby('b').b.max())
    check(f"ab.[b].count-{so}", lambda: d().groupby(['a', 'b'])[['b']].count(split_out=so), lambda: p.groupby(['a', 'b'])[['b']].count())
    check(f"ab.[b,c].sum-{so}", lambda: d().groupby(['a', 'b'])[['b', 'c']].sum(split_out=so), lambda: p.groupby(['a', 'b'])[['b', 'c']].sum())
    check(f"ab.b.agg-{so}", lambda: d().groupby(['a', 'b']).b.agg(['sum', 'count'], split_out=so), lambda: p.groupby(['a', 'b']).b.agg(['sum', 'count']))
    check(f"ab.c.sum-{so}", lambda: d().groupby(['a', 'b']).c.sum(split_out=so), lambda: p.groupby(['a', 'b']).c.sum())
    check(f"ab.b.count-sort-{so}", lambda: d().groupby(['a', 'b'], sort=True).b.count(split_out=so), lambda: p.groupby(['a', 'b']).b.count())
print("bad:", bad)
sys.exit(1 if bad else 0)
