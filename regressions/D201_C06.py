import sys, warnings
import pandas as pd, dask, dask_expr as dx
dask.config.set(scheduler="sync")
warnings.simplefilter("ignore")
fails = []

def check(label, q, expected):
    try:
        low = q.optimize(fuse=False)
        if q.npartitions != low.npartitions:
            fails.append((label, f"declares {q.npartitions} partitions {q.divisions}, lowered plan has {low.npartitions} {low.divisions}"))
        n = len(dask.compute(*q.to_delayed()))
        if n != q.npartitions:
            fails.append((label, f"declares {q.npartitions} partitions, computes {n}"))
        got = q.compute()
        got = got.sort_values(list(got.columns)).reset_index()
        exp = expected.sort_values(list(expected.columns)).reset_index()
        pd.testing.assert_frame_equal(got, exp, check_dtype=False)
    except Exception as e:
        fails.append((label, type(e).__name__, str(e)[:200]))

pl = pd.DataFrame({"k": [1, 1, 1], "v": [0, 1, 2]})
df = dx.from_pandas(pl, npartitions=3, sort=False).set_index("k", sorted=True)
assert df.divisions == (1, 1, 1, 1), df.divisions
pr = pd.DataFrame({"z": [7]}, index=pd.Index([1], name="k"))
other = dx.from_pandas(pr, npartitions=1)
check("join", df.join(other), pl.set_index("k").join(pr))
check("merge index", df.merge(other, left_index=True, right_index=True), pl.set_index("k").merge(pr, left_index=True, right_index=True))
check("join rev", other.join(df), pr.join(pl.set_index("k")))
pr2 = pd.DataFrame({"z": [7, 8, 9]}, index=pd.Index([1, 1, 1], name="k"))
other2 = dx.from_pandas(pr2.reset_index(), npartitions=3, sort=False).set_index("k", sorted=True)
check("join both collapsed", df.join(other2), pl.set_index("k").join(pr2))
# regular divisions still fine
p3 = pd.DataFrame({"v": range(6)}, index=pd.Index(range(6), name="k"))
p4 = pd.DataFrame({"z": range(6)}, index=pd.Index(range(6), name="k"))
check("regular", dx.from_pandas(p3, npartitions=3).join(dx.from_pandas(p4, npartitions=2)), p3.join(p4))

for how in ("left", "right", "inner", "outer"):
    check(f"merge {how} 3x1", df.merge(other, left_index=True, right_index=True, how=how),
          pl.set_index("k").merge(pr, left_index=True, right_index=True, how=how))
    check(f"merge {how} 1x3", other.merge(df, left_index=True, right_index=True, how=how),
          pr.merge(pl.set_index("k"), left_index=True, right_index=True, how=how))
    check(f"merge {how} 3x3", df.merge(other2, left_index=True, right_index=True, how=how),
          pl.set_index("k").merge(pr2, left_index=True, right_index=True, how=how))

for f in fails:
    print("FAIL", f)
sys.exit(1 if fails else 0)
