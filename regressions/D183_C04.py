import sys
import pandas as pd, dask
import dask_expr as dx
dask.config.set(scheduler='sync')
bad = 0
def check(label, f, exp):
    global bad
    try:
        got = f()
        if isinstance(exp, pd.Series):
            ok = isinstance(got, pd.Series) and got.tolist() == exp.tolist()
        else:
            ok = got.shape == exp.shape and list(got.columns) == list(exp.columns) and (got.values == exp.values).all()
        msg = '' if ok else f'{got.shape} vs {exp.shape}'
    except Exception as e:
        ok = False; msg = f'{type(e).__name__}: {e}'
    print(label, 'OK' if ok else 'BAD', msg)
    bad += not ok
pdf3 = pd.DataFrame([[1, 2, 3], [4, 5, 6], [7, 8, 9], [1, 1, 1]], columns=['a', 'a', 'b'])
df3 = dx.from_pandas(pdf3, 2)
check("[['a']]", lambda: df3[['a']].compute(), pdf3[['a']])
check("['a']", lambda: df3['a'].compute(), pdf3['a'])
check("[['b']]", lambda: df3[['b']].compute(), pdf3[['b']])
check("['b']", lambda: df3['b'].compute(), pdf3['b'])
check("[['b','a']]", lambda: df3[['b', 'a']].compute(), pdf3[['b', 'a']])
check("[['a','b']]", lambda: df3[['a', 'b']].compute(), pdf3[['a', 'b']])
check("full", lambda: df3.compute(), pdf3)
check("[['a']]+1", lambda: (df3[['a']] + 1).compute(), pdf3[['a']] + 1)
check("b sum", lambda: (df3.b + 1).compute(), pdf3.b + 1)
check("fillna[['a']]", lambda: df3.fillna(0)[['a']].compute(), pdf3.fillna(0)[['a']])
check("abs['a']", lambda: df3.abs()['a'].compute(), pdf3.abs()['a'])
check("astype[['a','b']]", lambda: df3.astype(float)[['a', 'b']].compute(), pdf3.astype(float)[['a', 'b']])
check("[['a']].sum", lambda: df3[['a']].sum().compute(), pdf3[['a']].sum())
check("len", lambda: pd.Series([len(df3[['a']])]), pd.Series([4]))
sys.exit(1 if bad else 0)
