import sys
import dask
import pandas as pd
from dask_expr import from_pandas, from_legacy_dataframe

dask.config.set(scheduler="sync")
pdf = pd.DataFrame({"a": range(12), "b": [1, 2, 3] * 4})
bad = []


def check(label, build, expected):
    for optimize in (False, True):
        try:
            q = build(from_pandas(pdf, npartitions=4))
            ddf = q.to_legacy_dataframe(optimize=optimize)
            got = ddf.compute()
            if list(ddf.divisions) != list(q.divisions) and optimize is False:
                bad.append((label, optimize, "divisions differ"))
            if ddf.npartitions != len(ddf.__dask_keys__()):
                bad.append((label, optimize, "npartitions / keys mismatch"))
            back = from_legacy_dataframe(ddf).compute()
        except Exception as e:
            bad.append((label, optimize, "%s: %s" % (type(e).__name__, str(e)[:80])))
            continue
        for r in (got, back):
            if isinstance(expected, pd.DataFrame):
                pd.testing.assert_frame_equal(r.sort_index(), expected.sort_index())
            else:
                pd.testing.assert_series_equal(r.sort_index(), expected.sort_index())


check("repartition", lambda d: d.repartition(npartitions=2), pdf)
check("plain", lambda d: d, pdf)
check("assign", lambda d: d.assign(c=d.a + 1), pdf.assign(c=pdf.a + 1))
check("groupby", lambda d: d.groupby("b").a.sum(), pdf.groupby("b").a.sum())
check("sort_values", lambda d: d.sort_values("b"), pdf.sort_values("b"))
check("set_index", lambda d: d.set_index("b"), pdf.set_index("b"))
check("cumsum", lambda d: d.cumsum(), pdf.cumsum())

for b in bad:
    print("DEFECT:", b)
sys.exit(1 if bad else 0)
