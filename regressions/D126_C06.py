import sys
import pandas as pd, dask
import dask_expr as dx
dask.config.set(scheduler='sync')
bad = 0
def check(s, npart, pat):
    global bad
    d = dx.from_pandas(s, npartitions=npart)
    for label, r in [('plain', d.str.extractall(pat)), ('opt', d.str.extractall(pat).optimize())]:
        exp = s.str.extractall(pat)
        got = r.compute()
        try:
            # (dask converts the object/str columns to its string dtype)
            pd.testing.assert_frame_equal(got, exp, check_dtype=False)
        except AssertionError:
            print(label, 'value mismatch'); bad += 1
        if len(r) != len(exp):
            print(label, 'len', len(r), 'expected', len(exp)); bad += 1
        if r.known_divisions:
            print(label, 'divisions known', r.divisions); bad += 1
        if r.npartitions != npart:
            print(label, 'npartitions', r.npartitions); bad += 1
    # filter on top must be evaluated on the result, not pushed to the input
    r = d.str.extractall(pat)
    f = r[r[0] > 'b']
    e = exp[exp[0] > 'b']
    try:
        g = f.compute()
        pd.testing.assert_frame_equal(g, e, check_dtype=False)
    except Exception as ex:
        print('filter raises', type(ex).__name__, ex); bad += 1
    # a downstream len of a length preserving op
    if len(r[0].str.upper()) != len(exp):
        print('len of elemwise on top wrong'); bad += 1

check(pd.Series(['a1b2', 'c3', 'zz', 'd4e5f6'] * 3), 3, r'([a-z])(\d)')
check(pd.Series(['a1b2', 'c3', 'zz', 'd4e5f6'] * 3, index=list('abcdefghijkl')), 2, r'([a-z])(\d)')
sys.exit(1 if bad else 0)
