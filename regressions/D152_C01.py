import sys
import warnings
import dask
import numpy as np
import pandas as pd
from dask_expr import from_pandas

warnings.simplefilter("ignore")
dask.config.set(scheduler="sync")
rng = np.random.RandomState(1)
bad = []


def unoptimized(coll):
    e = coll.expr.lower_completely()
    res = dask.get(e.__dask_graph__(), e.__dask_keys__())
    return pd.concat(list(res))


for label, values in [("sorted", np.arange(20)), ("shuffled", rng.permutation(20))]:
    pdf = pd.DataFrame({"a": values, "b": range(20)})
    df = from_pandas(pdf, npartitions=4)
    ud = df.set_index("a", divisions=[0, 2, 10, 19])
    first = ud.partitions[0].compute()
    last = ud.partitions[2].compute()
    assert list(first.index) == [0, 1] and len(last) == 10
    checks = [
        ("head(5)", ud.head(5, compute=False), first.head(5)),
        ("head(1)", ud.head(1, compute=False), first.head(1)),
        ("head(5, npartitions=2)", ud.head(5, npartitions=2, compute=False),
         pd.concat([first, ud.partitions[1].compute()]).head(5)),
        ("tail(12)", ud.tail(12, compute=False), last.tail(12)),
        ("tail(3)", ud.tail(3, compute=False), last.tail(3)),
        ("b.head(5)", ud.b.head(5, compute=False), first.b.head(5)),
        ("b.tail(12)", ud.b.tail(12, compute=False), last.b.tail(12)),
    ]
    for name, lazy, expected in checks:
        unopt = unoptimized(lazy)
        assert unopt.equals(expected), (label, name, unopt, expected)
        got = lazy.compute()
        if not got.equals(expected):
            bad.append((label, name, list(got.index), list(expected.index)))
    if len(ud.head(5)) != 2 or len(ud.tail(12)) != 10:
        bad.append((label, "compute=True", len(ud.head(5)), len(ud.tail(12))))

for b in bad:
    print("MISMATCH", b)
print("N3", "FAIL" if bad else "ok")
sys.exit(1 if bad else 0)
