import sys
import warnings
import dask
import numpy as np
import pandas as pd
from dask_expr import from_pandas

warnings.simplefilter("ignore")
dask.config.set(scheduler="sync")
bad = []


def check(name, q, n=3):
    try:
        q.compute()
        first = q.partitions[0].compute()
        last = q.partitions[q.npartitions - 1].compute()
    except Exception as e:  # noqa
        bad.append((name, "compute", repr(e)))
        return
    for meth in ("head", "tail"):
        for k in (n, -n):
            expected = getattr(first if meth == "head" else last, meth)(k)
            for compute in (True, False):
                try:
                    got = getattr(q, meth)(k, compute=compute)
                    if not compute:
                        got = got.compute()
                except Exception as e:  # noqa
                    bad.append((name, meth, k, compute, repr(e)[:90]))
                    continue
                try:
                    if isinstance(expected, pd.DataFrame):
                        pd.testing.assert_frame_equal(got, expected)
                    else:
                        pd.testing.assert_series_equal(got, expected)
                except AssertionError as e:
                    bad.append((name, meth, k, compute, str(e).splitlines()[-2:]))


# (floats: where / mask of integers upcast depending on the selected rows)
pdf = pd.DataFrame({"a": np.arange(10.0), "b": np.arange(10) * 1.5}, index=[0] * 10)
d = from_pandas(pdf, npartitions=1)
check("assign", d.assign(c=d.a + 1))
check("assign2", d.assign(c=d.a + 1, e=d.b * 2))
check("where", d.where(d.a > 1))
check("mask", d.mask(d.a > 1))
check("setitem", d.assign(a=d.a.astype("int64")))
check("frame + reduction", d + d.sum())
check("series + scalar reduction", d.a + d.a.sum())
check("series where", d.a.where(d.b > 3))
check("plain", d + 1)

# unique labels, one partition: unchanged results
u = from_pandas(pdf.reset_index(drop=True), npartitions=1)
check("unique assign", u.assign(c=u.a + 1))
check("unique where", u.where(u.a > 1))
check("unique frame + reduction", u + u.sum())
# several partitions: Head is still pushed into the frame operands
m = from_pandas(pdf.reset_index(drop=True), npartitions=3)
check("multi assign", m.assign(c=m.a + 1), n=2)
check("multi frame + reduction", m + m.sum(), n=2)
opt = m.assign(c=m.a + 1).head(2, compute=False).optimize(fuse=False).expr
if type(opt).__name__ != "Assign":
    bad.append(("Head isn't pushed below Assign anymore", type(opt).__name__))
opt = (d.a + d.a.sum()).head(2, compute=False).optimize(fuse=False).expr
if type(opt).__name__ != "Add":
    bad.append(("Head isn't pushed below series + scalar anymore", type(opt).__name__))

for b in bad:
    print("MISMATCH", b)
print("N6", "FAIL" if bad else "ok")
sys.exit(1 if bad else 0)
