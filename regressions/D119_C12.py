import sys
import numpy as np, pandas as pd, dask
import dask_expr as dx
from dask_expr import from_pandas

dask.config.set(scheduler="sync")
bad = []

L = pd.DataFrame({"k": np.arange(40) % 10, "_partitions": 0, "v": np.arange(40)})
R = pd.DataFrame({"k": np.arange(10), "w": np.arange(10) * 10})
l = from_pandas(L, npartitions=5)
r = from_pandas(R, npartitions=5)

def norm(df):
    return df.sort_values(list(df.columns)).reset_index(drop=True)

exp = norm(L.merge(R, on="k"))
for method in ["tasks", "disk"]:
    got = l.merge(r, on="k", shuffle_method=method, broadcast=False).compute()
    if len(got) != 40 or not norm(got)[exp.columns].equals(exp):
        bad.append(f"merge shuffle_method={method}: {len(got)} rows, expected 40")

# the same frame must map keys to the same partitions with every method
def parts(df, method, **kw):
    s = df.shuffle("k", shuffle_method=method, **kw)
    out = {}
    for i in range(s.npartitions):
        p = s.partitions[i].compute()
        for k in p.k.unique():
            out.setdefault(int(k), set()).add(i)
    return s, out

for kw in [{}, {"npartitions": 3}, {"npartitions": 7}]:
    st, pt = parts(l, "tasks", **kw)
    sd, pd_ = parts(l, "disk", **kw)
    if pt != pd_:
        bad.append(f"tasks and disk shuffle disagree on partition numbers {kw}")
    if any(len(v) != 1 for v in pt.values()):
        bad.append(f"tasks shuffle splits a key over several partitions {kw}")
    got = st.compute()
    if not norm(got).equals(norm(L)):
        bad.append(f"tasks shuffle is not a permutation of the rows {kw}")
    # plain frame without the clashing column gives the reference placement
    _, ref = parts(from_pandas(L.drop(columns="_partitions"), npartitions=5), "tasks", **kw)
    if ref != pt:
        bad.append(f"partition numbers differ from a frame without '_partitions' {kw}")

# staged task shuffle (max_branch small) with a clashing column
l2 = from_pandas(L, npartitions=10)
s = l2.shuffle("k", shuffle_method="tasks", max_branch=2)
got = s.compute()
if not norm(got).equals(norm(L)):
    bad.append("staged tasks shuffle is not a permutation of the rows")
for i in range(s.npartitions):
    pass
seen = {}
for i in range(s.npartitions):
    for k in s.partitions[i].compute().k.unique():
        seen.setdefault(int(k), set()).add(i)
if any(len(v) != 1 for v in seen.values()):
    bad.append("staged tasks shuffle splits a key over several partitions")

# doubly clashing names
L3 = L.assign(__partitions=1)
l3 = from_pandas(L3, npartitions=5)
got = l3.merge(r, on="k", shuffle_method="tasks", broadcast=False).compute()
if len(got) != 40:
    bad.append(f"merge with '_partitions' and '__partitions' columns: {len(got)} rows")

# set_index / sort_values
got = l.set_index("v", shuffle_method="tasks", npartitions=4).compute()
if not got.equals(L.set_index("v")):
    bad.append("set_index with '_partitions' column wrong")

for b in bad:
    print("DEFECT:", b)
sys.exit(1 if bad else 0)
