import sys
import numpy as np
import pandas as pd
import dask
import dask_expr

dask.config.set(scheduler="sync")

FAILS = []


def check(cond, msg):
    if not cond:
        FAILS.append(msg)
        print("FAIL:", msg)
    else:
        print("ok:  ", msg)


def parts(expr_or_coll):
    """Compute every partition separately."""
    coll = expr_or_coll
    graph = coll.__dask_graph__()
    keys = coll.__dask_keys__()
    return list(dask.get(graph, keys))


def divisions_truthful(coll, label):
    """known divisions are sorted, npartitions+1 long and bound every partition."""
    divs = coll.divisions
    ps = parts(coll)
    check(len(ps) == coll.npartitions, f"{label}: computed partitions == npartitions")
    check(len(divs) == coll.npartitions + 1, f"{label}: len(divisions) == npartitions+1")
    if not coll.known_divisions:
        print("      ", label, "unknown divisions")
        return
    ok = all(divs[i] <= divs[i + 1] for i in range(len(divs) - 1))
    for i, p in enumerate(ps):
        idx = p.index if hasattr(p, "index") and not isinstance(p, pd.Index) else p
        if len(idx) == 0:
            continue
        lo, hi = idx.min(), idx.max()
        last = i == len(ps) - 1
        if not (divs[i] <= lo and (hi <= divs[i + 1] if last else hi < divs[i + 1])):
            if ok:
                print(f"       partition {i} spans [{lo!r}, {hi!r}] but divisions say [{divs[i]!r}, {divs[i+1]!r})")
            ok = False
    check(ok, f"{label}: divisions {divs[:5]}... bound the partitions")


def finish():
    if FAILS:
        print(f"{len(FAILS)} check(s) failed")
        sys.exit(1)
    print("all checks passed")
    sys.exit(0)
