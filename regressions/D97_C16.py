import pickle
import subprocess
import sys
import os
import dask
import numpy as np
import pandas as pd
from dask_expr import from_pandas

dask.config.set(scheduler="sync")
bad = []
pdf = pd.DataFrame({"a": range(50), "b": np.arange(50) * 0.5})


def roundtrip(label, q):
    q2 = pickle.loads(pickle.dumps(q))
    if q2._name != q._name:
        bad.append((label, "name changes in a pickle round trip in the same process"))
    pd.testing.assert_frame_equal(q2.compute(), q.compute())
    # and in a fresh process
    code = (
        "import pickle, sys; q = pickle.loads(sys.stdin.buffer.read()); "
        "sys.stdout.write(q._name)"
    )
    out = subprocess.run(
        [sys.executable, "-c", code], input=pickle.dumps(q), capture_output=True,
        env=dict(os.environ), check=True,
    ).stdout.decode()
    if out != q._name:
        bad.append((label, "name changes when loaded in a fresh process"))


df = from_pandas(pdf, 5)
roundtrip("sample int", df.sample(frac=0.5, random_state=2))
roundtrip("sample RandomState", df.sample(frac=0.5, random_state=np.random.RandomState(7)))
roundtrip("sample replace", df.sample(frac=0.5, replace=True, random_state=3))
roundtrip("sample partitions", df.sample(frac=0.5, random_state=2).partitions[[1, 3]])
a, b = df.random_split([0.4, 0.6], random_state=11)
roundtrip("random_split a", a)
roundtrip("random_split b", b)
a, b = df.random_split([0.4, 0.6], random_state=12, shuffle=True)
roundtrip("random_split shuffle", a)

# equal seeds still give equal names and different seeds different ones
if df.sample(frac=0.5, random_state=2)._name != df.sample(frac=0.5, random_state=2)._name:
    bad.append(("sample", "same seed, different names"))
if df.sample(frac=0.5, random_state=2)._name == df.sample(frac=0.5, random_state=3)._name:
    bad.append(("sample", "different seeds, same name"))

for b_ in bad:
    print("DEFECT:", b_)
sys.exit(1 if bad else 0)
