import sys
import numpy as np, pandas as pd, dask
import dask_expr as dx
dask.config.set(scheduler='sync')
rng = np.random.RandomState(0)
P = pd.DataFrame({'k': rng.randint(0, 10, 60), 'v': range(60)})
bad = 0
for method in ['tasks', 'disk']:
    x = dx.from_pandas(P, 4).shuffle('k', shuffle_method=method).partitions[[1]].optimize()
    n, m = len(x), len(x.compute())
    print(method, 'len', n, 'computed', m)
    if n != m: bad += 1
    y = dx.from_pandas(P, 4).shuffle('k', shuffle_method=method).partitions[[1]]
    n, m = len(y), len(y.compute())
    print(method, 'unopt len', n, 'computed', m)
    if n != m: bad += 1
    c = x.count().compute(); e = x.compute().count()
    if not c.equals(e): print('count differs', c, e); bad += 1
sys.exit(1 if bad else 0)
