import sys, warnings
import numpy as np, pandas as pd, dask, dask_expr as dx
dask.config.set(scheduler="sync")
warnings.simplefilter("ignore")
fails = []

def part_check(label, q):
    """every partition carries the declared names"""
    meta = q._meta
    try:
        parts = dask.compute(*q.to_delayed())
        for i, p in enumerate(parts):
            if isinstance(meta, pd.Series):
                assert p.name == meta.name, f"partition {i} name {p.name!r}, declared {meta.name!r}"
            else:
                assert list(p.columns) == list(meta.columns), f"partition {i} columns {list(p.columns)}, declared {list(meta.columns)}"
            assert list(p.index.names) == list(meta.index.names), f"partition {i} index names {list(p.index.names)}, declared {list(meta.index.names)}"
    except Exception as e:
        fails.append((label, type(e).__name__, str(e)[:160].replace("\n", " ")))

def same(label, q, expected, ignore_index=False):
    try:
        got = q.compute()
        if ignore_index:  # dask restarts the new index in every partition
            got, expected = got.reset_index(drop=True), expected.reset_index(drop=True)
        if isinstance(expected, pd.DataFrame):
            assert list(q.columns) == list(expected.columns), (list(q.columns), list(expected.columns))
            pd.testing.assert_frame_equal(got, expected, check_dtype=False)
        else:
            pd.testing.assert_series_equal(got, expected, check_dtype=False)
    except Exception as e:
        fails.append((label, type(e).__name__, str(e)[:160].replace("\n", " ")))

p = pd.DataFrame({"k": range(6), "v": range(10, 16)})
f = dx.from_pandas(p, npartitions=2)
q = dx.concat([f.k, f.v])
part_check("series names", q)
same("series names", q, pd.concat([p.k, p.v]))
same("series names to_frame", q.to_frame(), pd.concat([p.k, p.v]).to_frame())
part_check("series names to_frame", q.to_frame())
same("series names reset_index", q.reset_index(), pd.concat([p.k, p.v]).reset_index(), ignore_index=True)
q = dx.concat([f.k, f.k + 1])
part_check("series same names", q)
same("series same names", q, pd.concat([p.k, p.k + 1]))

p1 = pd.DataFrame({"x": range(4)}, index=pd.Index(range(4), name="i1"))
p2 = pd.DataFrame({"x": range(4, 8)}, index=pd.Index(range(4, 8), name="i2"))
f1, f2 = dx.from_pandas(p1, npartitions=2), dx.from_pandas(p2, npartitions=2)
q = dx.concat([f1, f2])
part_check("index names", q)
same("index names", q, pd.concat([p1, p2]))
same("index names reset_index", q.reset_index(), pd.concat([p1, p2]).reset_index(), ignore_index=True)
part_check("index names reset_index", q.reset_index())
q = dx.concat([f1.x, f2.x])
part_check("series index names", q)
same("series index names", q, pd.concat([p1.x, p2.x]))
p3 = pd.DataFrame({"x": range(8, 12)}, index=pd.Index(range(8, 12), name="i1"))
q = dx.concat([f1, dx.from_pandas(p3, npartitions=1)])
part_check("same index names", q)
same("same index names", q, pd.concat([p1, p3]))
# interleaved / unknown divisions
q = dx.concat([f1, f1.rename_axis(index="other")], interleave_partitions=True)
part_check("interleave", q)
_e = pd.concat([p1, p1.rename_axis(index="other")]).reset_index()
try:
    _g = q.reset_index()
    assert list(_g.columns) == list(_e.columns), (list(_g.columns), list(_e.columns))
    _g = _g.compute()
    pd.testing.assert_frame_equal(_g.sort_values(list(_g.columns)).reset_index(drop=True), _e.sort_values(list(_e.columns)).reset_index(drop=True))
except Exception as e:
    fails.append(("interleave reset_index", type(e).__name__, str(e)[:160]))

for x in fails:
    print("FAIL", x)
sys.exit(1 if fails else 0)
