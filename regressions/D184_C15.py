import sys
import numpy as np, pandas as pd, dask
import dask_expr as dx
dask.config.set(scheduler='sync')
bad = 0
def report(label, ok):
    global bad
    print(label, 'OK' if ok else 'BAD'); bad += not ok
# repartition on a pandas DataFrame
pdf = pd.DataFrame({'a': range(10)})
q = dx.repartition(pdf, [0, 5, 9])
name = q._name
pdf.loc[0, 'a'] = 99
pdf['b'] = 1
out = q.compute()
report('repartition(DataFrame) unchanged by later edits', out.a.iloc[0] == 0 and list(out.columns) == ['a'] and q._name == name)
report('repartition(DataFrame) result', out.a.tolist() == list(range(10)) and q.npartitions == 2 and q.divisions == (0, 5, 9))
# Series
s = pd.Series(range(10), name='s')
qs = dx.repartition(s, [0, 5, 9])
s.iloc[0] = 77
report('repartition(Series) unchanged', qs.compute().iloc[0] == 0)
# from_array, owning array
arr = np.arange(10)
assert arr.flags.owndata
fa = dx.from_array(arr, chunksize=5)
arr[0] = 77
report('from_array(owning) unchanged', fa.compute().iloc[0] == 0)
arr2 = np.arange(20).reshape(10, 2).copy()
fa2 = dx.from_array(arr2, chunksize=5, columns=['x', 'y'])
arr2[0, 0] = 55
report('from_array(2d owning) unchanged', fa2.compute().x.iloc[0] == 0)
base = np.arange(10)
view = base[2:8]
fv = dx.from_array(view, chunksize=3)
base[2] = 33
report('from_array(view) unchanged', fv.compute().iloc[0] == 2)
rec = np.array([(1, 2.0), (3, 4.0)], dtype=[('p', 'i8'), ('q', 'f8')])
fr = dx.from_array(rec, chunksize=1)
rec['p'][0] = 9
report('from_array(record) unchanged', fr.compute().p.iloc[0] == 1)
sys.exit(1 if bad else 0)
