"""O5: hive-partitioned dataset, pruning filter + projection -> IndexError in sample_statistics."""
import os
import sys
import tempfile

import dask
import numpy as np
import pandas as pd

import dask_expr as dx

dask.config.set(scheduler="sync")
d = tempfile.mkdtemp()
p = os.path.join(d, "ds.parquet")
# files of different sizes: group sizes differ
g = np.repeat([0, 1, 2, 3, 4, 5], [5, 400, 30, 2000, 90, 1])
pdf = pd.DataFrame({"g": g, "a": np.arange(len(g)), "b": np.arange(len(g)) * 2.0, "c": "x"})
dx.from_pandas(pdf, npartitions=1).to_parquet(p, partition_on=["g"], write_index=False)

fail = 0


def check(name, make, expected):
    global fail
    try:
        got = make().compute()
        got = got.sort_values("a").reset_index(drop=True)
        pd.testing.assert_frame_equal(
            got, expected.reset_index(drop=True), check_dtype=False, check_categorical=False
        )
    except Exception as e:
        print("FAIL", name, type(e).__name__, str(e)[:200])
        fail = 1


for val in [0, 1, 3, 5]:
    check(
        "user filter g==%d" % val,
        lambda: dx.read_parquet(p, filesystem="arrow", filters=[("g", "==", val)])[["a"]],
        pdf[pdf.g == val][["a"]],
    )

    def q():
        r = dx.read_parquet(p, filesystem="arrow")
        return r[r.g == val][["a"]]

    check("pushed filter g==%d" % val, q, pdf[pdf.g == val][["a"]])

check(
    "user filter g>=2",
    lambda: dx.read_parquet(p, filesystem="arrow", filters=[("g", ">=", 2)])[["a", "b"]],
    pdf[pdf.g >= 2][["a", "b"]],
)
check(
    "user filter g in",
    lambda: dx.read_parquet(p, filesystem="arrow", filters=[("g", "in", [5, 0])])[["a", "b"]],
    pdf[pdf.g.isin([0, 5])][["a", "b"]],
)
sys.exit(fail)
