import dask
import pandas as pd
from dask.dataframe.dispatch import concat as _concat

dask.config.set(scheduler="sync")


def compute_unoptimized(coll):
    """Compute a collection from its lowered, but not simplified, plan."""
    expr = coll.expr.lower_completely()
    graph = expr.__dask_graph__()
    keys = expr.__dask_keys__()
    parts = dask.get(graph, keys)
    if expr.ndim == 0 or not hasattr(parts[0], "index") and not isinstance(parts[0], pd.Index):
        return parts[0]
    return _concat(list(parts))
