import sys
import dask
import numpy as np
import pandas as pd
from dask_expr import from_pandas

dask.config.set(scheduler="sync")
bad = []


def check(label, pobj_fn, build):
    try:
        expected = build(pobj_fn())
    except Exception as e:
        print("pandas fails for", label, type(e).__name__, e)
        return
    try:
        q = build(from_pandas(pobj_fn(), npartitions=2))
        if type(q._meta) is not type(expected):
            bad.append((label, "meta is a %s, pandas gives a %s" % (type(q._meta).__name__, type(expected).__name__)))
        got = q.compute()
        unopt = dask.compute(q, optimize_graph=False)[0]
    except Exception as e:
        bad.append((label, "%s: %s" % (type(e).__name__, str(e)[:90])))
        return
    for name, r in (("optimized", got), ("unoptimized", unopt)):
        if type(r) is not type(expected):
            bad.append((label, name, "%s instead of %s" % (type(r).__name__, type(expected).__name__)))
        elif r.ndim == 2:
            if list(r.columns) != list(expected.columns):
                bad.append((label, name, "columns %s, pandas %s" % (list(r.columns), list(expected.columns))))
            elif not (r.values == expected.values).all():
                bad.append((label, name, "values differ"))
        elif r.name != expected.name or not (r.values == expected.values).all():
            bad.append((label, name, "series differs"))


ab = lambda: pd.DataFrame({"a": range(6), "b": range(6, 12), "c": range(12, 18)})
check("[['a','a']]['a']", ab, lambda d: d[["a", "a"]]["a"])
check("[['a','a']]", ab, lambda d: d[["a", "a"]])
check("[['a','b','a']][['a']]", ab, lambda d: d[["a", "b", "a"]][["a"]])
check("[['a','b','a']]['b']", ab, lambda d: d[["a", "b", "a"]]["b"])
check("[['a','b','a']][['b','a']]", ab, lambda d: d[["a", "b", "a"]][["b", "a"]])
check("[['a','b','a','a']][['a','b']] + 1", ab, lambda d: d[["a", "b", "a", "a"]][["a", "b"]] + 1)
check("([['a','a']] + 1)['a']", ab, lambda d: (d[["a", "a"]] + 1)["a"])

mixed = lambda: pd.DataFrame([[1, 2, 3]] * 6, columns=[0, "a", "z"])
check("mixed assign select", mixed, lambda d: d.assign(q=1)[[0, "a", "q"]])
check("mixed assign select one", mixed, lambda d: d.assign(q=1)[0])
check("mixed assign existing", mixed, lambda d: d.assign(a=5)[["a", 0]])
check("mixed plain", mixed, lambda d: d[["z", 0]])
check("mixed arithmetic", mixed, lambda d: (d + 1)[["z", 0]])
check("mixed assign unaligned", mixed, lambda d: d.assign(q=d[0].repartition(npartitions=1) if hasattr(d, "npartitions") else d[0])[[0, "a", "q"]])
check("mixed concat", mixed, lambda d: __import__("dask_expr").concat([d, d])[["a", 0]] if hasattr(d, "npartitions") else pd.concat([d, d])[["a", 0]])
check("mixed assign dependent", mixed, lambda d: d.assign(q=d[0] + d["a"])[["q", "z"]])

for b_ in bad:
    print("DEFECT:", b_)
sys.exit(1 if bad else 0)
