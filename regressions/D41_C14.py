import sys
import numpy as np, pandas as pd, dask
import dask_expr
from dask_expr import from_pandas
dask.config.set(scheduler="sync")

pdf = pd.DataFrame({"a": range(20), "b": range(20)})
df = from_pandas(pdf, npartitions=4)
pdf10 = pd.DataFrame({"a": range(20), "b": range(20)})
df10 = from_pandas(pdf10, npartitions=10)
pdf100 = pd.DataFrame({"x": range(100), "y": range(100)})
df100 = from_pandas(pdf100, npartitions=7)

fails = []
def check(name, f, expected):
    try:
        got = f()
        if isinstance(expected, (pd.DataFrame, pd.Series)):
            if isinstance(expected, pd.DataFrame):
                pd.testing.assert_frame_equal(got, expected)
            else:
                pd.testing.assert_series_equal(got, expected)
        else:
            assert got == expected, (got, expected)
    except Exception as e:
        fails.append(name)
        print("FAIL", name, type(e).__name__, str(e)[:100])
    else:
        print("ok  ", name)

check("loc[7:]+1", lambda: (df.loc[7:] + 1).compute(), pdf.loc[7:] + 1)
check("loc[:7]+1", lambda: (df.loc[:7] + 1).compute(), pdf.loc[:7] + 1)
check("loc[7:13]+1", lambda: (df.loc[7:13] + 1).compute(), pdf.loc[7:13] + 1)
check("loc[11:13]+1", lambda: (df.loc[11:13] + 1).compute(), pdf.loc[11:13] + 1)
check("loc[[12,17]]+1", lambda: (df.loc[[12, 17]] + 1).compute(), pdf.loc[[12, 17]] + 1)
check("loc[7]+1", lambda: (df.loc[7] + 1).compute(), pdf.loc[7:7] + 1)
check("len loc array", lambda: len(df10.loc[np.array([5, 1, 8])]), 3)
check("loc[15:72].x", lambda: df100.loc[15:72].x.compute(), pdf100.loc[15:72].x)
check("loc[15:72, ['x']] + 1", lambda: (df100.loc[15:72, ["x"]] + 1).compute(), pdf100.loc[15:72, ["x"]] + 1)
check("loc[[12,17]] + loc[[12,17]]", lambda: (df.loc[[12, 17]].a + df.loc[[12, 17]].b).compute(), pdf.loc[[12, 17]].a + pdf.loc[[12, 17]].b)
check("loc[7:] + loc[7:] ", lambda: (df.loc[7:].a + df.loc[7:].b * 2).compute(), pdf.loc[7:].a + pdf.loc[7:].b * 2)
check("(df+1).loc[7:] + 1", lambda: ((df + 1).loc[7:] + 1).compute(), (pdf + 1).loc[7:] + 1)
check("loc[[]] + 1", lambda: (df.loc[[]] + 1).compute(), pdf.loc[[]] + 1)
check("loc[[17, 3, 3, 12]] + 1", lambda: (df.loc[[17, 3, 3, 12]] + 1).compute().sort_index(), (pdf.loc[[17, 3, 3, 12]] + 1).sort_index())
check("loc[19] + 1", lambda: (df.loc[19] + 1).compute(), pdf.loc[19:19] + 1)
check("loc[0] + 1", lambda: (df.loc[0] + 1).compute(), pdf.loc[0:0] + 1)
check("reversed loc[15:3] + 1", lambda: (df.loc[15:3] + 1).compute(), pdf.loc[15:3] + 1)
check("len(loc[5:12])", lambda: len(df.loc[5:12]), 8)
ts = pd.DataFrame({"a": range(40)}, index=pd.date_range("2000-01-01", periods=40, freq="D"))
dts = from_pandas(ts, npartitions=5)
check("ts loc['2000-01-20':] * 2", lambda: (dts.loc["2000-01-20":] * 2).compute(), ts.loc["2000-01-20":] * 2)
check("ts loc['2000-02'] * 2", lambda: (dts.loc["2000-02"] * 2).compute(), ts.loc["2000-02"] * 2)
check("chained loc", lambda: (df.loc[3:17].loc[6:12] + 1).compute(), pdf.loc[6:12] + 1)
check("loc of loc list", lambda: (df.loc[3:17].loc[[6, 16]] + 1).compute(), pdf.loc[[6, 16]] + 1)
# the fused plan gives the same partitions as the unfused one
q = df.loc[7:13] + 1
check("fused == unfused", lambda: q.compute(fuse=True), q.compute(fuse=False))
sys.exit(1 if fails else 0)
