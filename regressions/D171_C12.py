import sys
import numpy as np, pandas as pd, dask
from dask_expr import from_pandas
dask.config.set(scheduler="sync")
bad = []

def norm(df):
    df = df.copy()
    for c in df.columns:
        if df[c].dtype.kind == "f":
            df[c] = df[c] + 0.0
    return df.sort_values(list(df.columns)).reset_index(drop=True)

def check(name, got, exp):
    try:
        pd.testing.assert_frame_equal(norm(got), norm(exp), check_dtype=False)
    except AssertionError as e:
        bad.append(name)
        print("FAIL", name, len(got), len(exp))

L = pd.DataFrame({'k': [0.0, 1.0, 2.0, 3.0] * 5, 'a': range(20)})
R = pd.DataFrame({'k': [-0.0, 1.0, 2.0, 5.0] * 5, 'b': range(20)})
Li = pd.DataFrame({'k': [0, 1, 2, 3] * 5, 'a': range(20)})
for how in ["inner", "left", "right", "outer"]:
    check(f"hash-{how}", from_pandas(L, 4).merge(from_pandas(R, 4), on='k', how=how, shuffle_method='tasks', broadcast=False).compute(), L.merge(R, on='k', how=how))
    check(f"hash-int-{how}", from_pandas(Li, 4).merge(from_pandas(R, 4), on='k', how=how, shuffle_method='tasks', broadcast=False).compute(), Li.merge(R, on='k', how=how))
for how in ["inner", "left"]:
    check(f"bcast-{how}", from_pandas(L, 10).merge(from_pandas(R, 4), on='k', how=how, shuffle_method='tasks', broadcast=True).compute(), L.merge(R, on='k', how=how))
    check(f"bcast-int-{how}", from_pandas(R, 10).merge(from_pandas(Li, 4), on='k', how=how, shuffle_method='tasks', broadcast=True).compute(), R.merge(Li, on='k', how=how))
# index keys
check("hash-index", from_pandas(L.set_index('k'), 4, sort=False).merge(from_pandas(R.set_index('k'), 4, sort=False), left_index=True, right_index=True, shuffle_method='tasks', broadcast=False).compute().reset_index(),
      L.set_index('k').merge(R.set_index('k'), left_index=True, right_index=True).reset_index())

# equal keys share an output partition of a shuffle (column / Series / index)
P = pd.DataFrame({'k': [1.0, 0.0, -0.0, 2.0] * 4, 'v': range(16)})
d = from_pandas(P, 4)
def zero_parts(x):
    # number of rows with key zero per partition
    k = x.index if 'k' not in x.columns else x.k
    return pd.Series([int((np.asarray(k) == 0).sum())])
for name, s in [("col", d.shuffle('k', shuffle_method='tasks')), ("series", d.shuffle(d.k, shuffle_method='tasks')),
                ("index", from_pandas(P.set_index('k'), 4, sort=False).shuffle(on_index=True, shuffle_method='tasks')),
                ("disk", d.shuffle('k', shuffle_method='disk'))]:
    n = list(s.map_partitions(zero_parts, meta=pd.Series([0])).compute())
    if sorted(n)[-1] != 8:
        bad.append("shuffle-" + name); print("FAIL shuffle", name, n)
# groupby with split_out: partitions hold either 0.0 or -0.0
G = pd.DataFrame({'k': [0.0] * 4 + [-0.0] * 4 + [0.0] * 4 + [-0.0] * 4, 'v': range(16)})
g = from_pandas(G, 4).groupby('k').v.sum(split_out=4).compute()
if len(g) != 1 or g.iloc[0] != 120:
    bad.append("groupby"); print("FAIL groupby", g)
u = from_pandas(G, 4).k.unique(split_out=4).compute()
if len(u) != 1:
    bad.append("unique"); print("FAIL unique", list(u))
print("bad:", bad)
sys.exit(1 if bad else 0)
