import sys
import numpy as np, pandas as pd, dask
from dask_expr import from_pandas
dask.config.set(scheduler="sync")
bad = []
big = pd.DataFrame({'x': range(48)}, index=pd.Index(np.arange(48) % 16, name='a'))
small = pd.DataFrame({'b': np.arange(12) % 6, 'y': range(12)})

def norm(df):
    df = df.reset_index(drop=True)
    return df.sort_values(list(df.columns)).reset_index(drop=True)

def check(name, make, exp):
    try:
        got = make().compute()
        pd.testing.assert_frame_equal(norm(got), norm(exp), check_dtype=False)
        # the index values must agree as well
        assert sorted(map(str, got.index)) == sorted(map(str, exp.index)), "index"
    except Exception as e:
        bad.append(name); print("FAIL", name, type(e).__name__, str(e)[:100])

B = lambda: from_pandas(big, 8, sort=False)
S = lambda: from_pandas(small, 2, sort=False)
S3 = lambda: from_pandas(small, 3, sort=False)
for s, sn in [(S, "2"), (S3, "3")]:
    check("left-leftindex-" + sn, lambda: B().merge(s(), how='left', left_index=True, right_on='b', broadcast=True, shuffle_method='tasks'),
          big.merge(small, how='left', left_index=True, right_on='b'))
    check("right-rightindex-" + sn, lambda: s().merge(B(), how='right', right_index=True, left_on='b', broadcast=True, shuffle_method='tasks'),
          small.merge(big, how='right', right_index=True, left_on='b'))
    check("inner-leftindex-" + sn, lambda: B().merge(s(), how='inner', left_index=True, right_on='b', broadcast=True, shuffle_method='tasks'),
          big.merge(small, how='inner', left_index=True, right_on='b'))
# the big side on a column, the small side on its index
small_i = small.set_index('b')
check("left-rightindex", lambda: from_pandas(big.reset_index(), 8, sort=False).merge(from_pandas(small_i, 2, sort=False), how='left', left_on='a', right_index=True, broadcast=True, shuffle_method='tasks'),
      big.reset_index().merge(small_i, how='left', left_on='a', right_index=True))
# both on their index
check("left-bothindex", lambda: B().merge(from_pandas(small_i, 2, sort=False), how='left', left_index=True, right_index=True, broadcast=True, shuffle_method='tasks'),
      big.merge(small_i, how='left', left_index=True, right_index=True))
print("bad:", bad)
sys.exit(1 if bad else 0)
