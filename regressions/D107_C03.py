import os, sys
sys.path.insert(0, os.path.dirname(os.path.abspath(__file__)))
from fixJ_filt_common import *  # noqa

pdf = pd.DataFrame({"a": [1, -2, 3, 4, -5, 6, 7, 8], "b": [8, 7, 6, 5, 4, 3, 2, 1],
                    "flag": [True, False, True, True, False, True, False, True]})
df = dx.from_pandas(pdf, npartitions=3)

check("df[df.flag.rename('q')]", lambda d: d[d.flag.rename("q")], pdf, df)
check("df[df.flag.copy()]", lambda d: d[d.flag.copy()], pdf, df)
check("df[df.flag.astype(bool)]", lambda d: d[d.flag.astype(bool)], pdf, df)
check("df[df.flag.rename_axis('i')]", lambda d: d[d.flag.rename_axis("i")], pdf, df)
check("df.b[df.flag.rename('q')]", lambda d: d.b[d.flag.rename("q")], pdf, df)
check("df[df.flag.to_frame().flag]", lambda d: d[d.flag.to_frame().flag], pdf, df)
# the predicate is a filtered Series: pandas cannot align it
check("df[df.flag[df.a > 0]]", lambda d: d[d.flag[d.a > 0]], pdf, df)
check("df[df.flag[df.flag]]", lambda d: d[d.flag[d.flag]], pdf, df)
check("df.b[df.flag[df.a > 0]]", lambda d: d.b[d.flag[d.a > 0]], pdf, df)

# filters on the operation itself are still pushed down
check("q = df.flag.rename('q'); q[q]", lambda d: d.flag.rename("q")[d.flag.rename("q")], pdf, df)
r = df.a.rename("x")
out = r[r > 0].optimize(fuse=False)
if type(out.expr).__name__ != "RenameSeries":
    bad.append("the filter on rename() is no longer pushed down")
finish()
