"""G2: a DataFrame-valued predicate (df[df[['a']] > 30]) has mask semantics
(no row is dropped, non-matching cells become NaN). It must not be pushed into
the parquet reader as a row filter.
"""
import shutil
import sys
import tempfile

import dask
import pandas as pd

dask.config.set(scheduler="sync")

from dask_expr import from_pandas, read_parquet  # noqa: E402

d = tempfile.mkdtemp(prefix="G2_")
pdf = pd.DataFrame(
    {
        "a": range(36),
        "b": [float(i % 7) for i in range(36)],
        "c": [i % 5 for i in range(36)],
        "d": [i * 2 for i in range(36)],
    }
)
from_pandas(pdf, 4).to_parquet(d)

ok = True


def same(got, expected):
    return got.shape == expected.shape and got.reset_index(drop=True).equals(
        expected.reset_index(drop=True)
    )


for fs in ["fsspec", "arrow"]:
    cases = {
        "df[df[['a']] > 30]": (
            lambda df: df[df[["a"]] > 30],
            pdf[pdf[["a"]] > 30],
        ),
        "df[df[['a','c']] >= 3]": (
            lambda df: df[df[["a", "c"]] >= 3],
            pdf[pdf[["a", "c"]] >= 3],
        ),
        "df[(df[['a']] > 30) & (df[['a']] < 34)]": (
            lambda df: df[(df[["a"]] > 30) & (df[["a"]] < 34)],
            pdf[(pdf[["a"]] > 30) & (pdf[["a"]] < 34)],
        ),
        "df[['a','b']][df[['a']] > 30] (projected)": (
            lambda df: df[["a", "b"]][df[["a"]] > 30],
            pdf[["a", "b"]][pdf[["a"]] > 30],
        ),
        # series predicates keep being row filters
        "df[df.a > 30]": (lambda df: df[df.a > 30], pdf[pdf.a > 30]),
        "df[(df.a > 30) | (df.c == 1)]": (
            lambda df: df[(df.a > 30) | (df.c == 1)],
            pdf[(pdf.a > 30) | (pdf.c == 1)],
        ),
    }
    for label, (build, expected) in cases.items():
        df = read_parquet(d, filesystem=fs)
        got = build(df).compute()
        good = same(got, expected)
        print(f"{fs:7s} {label}: got {got.shape}, pandas {expected.shape} -> "
              f"{'ok' if good else 'BAD'}")
        ok &= good

# the series predicate must still be pushed into the reader (optimization kept)
df = read_parquet(d, filesystem="arrow")
opt = df[df.a > 30].optimize(fuse=False)
pushed = any(
    getattr(e, "filters", None) for e in opt.expr.walk() if hasattr(e, "_parameters")
    and "filters" in e._parameters
)
if not pushed:
    # the read may be wrapped in a fused IO expression
    pushed = "filters=" in str(opt.expr.tree_repr()) or "a', '>', 30" in opt.expr.tree_repr()
print("series predicate still pushed down:", pushed)
ok &= pushed

shutil.rmtree(d, ignore_errors=True)
sys.exit(0 if ok else 1)
