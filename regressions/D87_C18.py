"""G1: to_parquet(path, overwrite=True) must refuse (ValueError) to overwrite a
dataset that the written collection still reads from.

Every case works on a fresh temporary copy of the dataset (the bug deletes data).
Exits non-zero while any of the cases deletes the dataset instead of raising.
"""
import os
import shutil
import sys
import tempfile

import dask
import pandas as pd

dask.config.set(scheduler="sync")

from dask_expr import from_pandas, read_parquet  # noqa: E402

root = tempfile.mkdtemp(prefix="G1_")
pdf = pd.DataFrame({"a": range(40), "b": [float(i) for i in range(40)]})
master = os.path.join(root, "master")
from_pandas(pdf, 4).to_parquet(master)
nfiles = len(os.listdir(master))


def fresh(name):
    p = os.path.join(root, name)
    shutil.copytree(master, p)
    return p


def check(label, build, write_path=None):
    """build(p) -> collection reading from p; writing it to p must raise ValueError"""
    p = fresh(label)
    cwd = os.getcwd()
    try:
        os.chdir(root)
        df = build(p)
        target = write_path(p) if write_path else p
        try:
            df.to_parquet(target, overwrite=True)
        except ValueError as e:
            ok = "overwrite" in str(e).lower() and len(os.listdir(p)) == nfiles
            print(f"{label}: ValueError ({e}) -> {'ok' if ok else 'BAD'}")
            return ok
        except Exception as e:  # noqa: BLE001
            print(f"{label}: BAD {type(e).__name__}: {str(e)[:100]}")
            return False
        print(f"{label}: BAD no error raised")
        return False
    finally:
        os.chdir(cwd)


def rel(p):
    return os.path.relpath(p, root)


results = [
    # sanity: the case that always worked
    check("plain", lambda p: read_parquet(p)[["a"]] + 1),
    check("single_file", lambda p: read_parquet(p + "/part.0.parquet")),
    # (a) already optimized collection (read hidden in a fused IO)
    check("a_optimized", lambda p: (read_parquet(p)[["a"]] + 1).optimize(fuse=False)),
    check("a_optimized_fused", lambda p: (read_parquet(p)[["a"]] + 1).optimize()),
    check(
        "a_optimized_arrow",
        lambda p: (read_parquet(p, filesystem="arrow")[["a"]] + 1).optimize(fuse=False),
    ),
    # (b) protocol prefix
    check("b_file_protocol", lambda p: read_parquet("file://" + p)),
    check("b_file_protocol_write", lambda p: read_parquet(p), lambda p: "file://" + p),
    # (c) relative vs absolute
    check("c_rel_read_abs_write", lambda p: read_parquet(rel(p))),
    check("c_abs_read_rel_write", lambda p: read_parquet(p), rel),
    check("c_trailing_slash", lambda p: read_parquet(p + "/")),
    check("c_dotdot", lambda p: read_parquet(p + "/../" + os.path.basename(p))),
    # (d) list of files
    check(
        "d_list_of_files",
        lambda p: read_parquet([p + "/part.0.parquet", p + "/part.1.parquet"]),
    ),
    check("arrow_reader", lambda p: read_parquet(p, filesystem="arrow")),
]

# Overwriting a *different* directory (sharing a name prefix) must still work
p = fresh("other")
q = fresh("other2")
read_parquet(p).to_parquet(q, overwrite=True)
back = read_parquet(q).compute()
ok = back.shape == pdf.shape
print("unrelated overwrite:", "ok" if ok else "BAD")
results.append(ok)

shutil.rmtree(root, ignore_errors=True)
sys.exit(0 if all(results) else 1)
