"""I4: column selection of concat(axis=1) drops operands that still contribute rows."""
import sys

import dask
import numpy as np
import pandas as pd

import dask_expr
from dask_expr import concat, from_pandas

dask.config.set(scheduler="sync")

pdf = pd.DataFrame(
    {
        "a": [1, 2, 3, 4, 5, 6, 7, 8, 9, 10],
        "b": [1.0, np.nan, 3.4, 2.0, np.nan, 6.6, 2.5, 8.0, 0.5, 7.0],
        "c": [8.0, 7.0, np.nan, 5.0, 4.0, 3.0, 2.0, np.nan, 1.0, 2.0],
        "d": [1, 1, 1, 2, 2, 3, 3, 1, 4, 4],
    }
)
df = from_pandas(pdf, npartitions=3)
dfu = from_pandas(pdf.set_index(pdf.index + 100), npartitions=3).clear_divisions()
pa = pd.DataFrame({"x": [1, 2, 3]}, index=[0, 3, 7])
pb = pd.DataFrame({"y": [1, 2, 3]}, index=[0, 5, 7])
a, b = from_pandas(pa, 1), from_pandas(pb, 1)

cases = {
    "single partitions": (
        lambda: concat([a, b], axis=1)[["x"]],
        lambda: pd.concat([pa, pb], axis=1)[["x"]],
    ),
    "single partitions series": (
        lambda: concat([a, b], axis=1)["y"],
        lambda: pd.concat([pa, pb], axis=1)["y"],
    ),
    "filtered kept": (
        lambda: concat([df[["a"]], df[df.b > 2][["c"]]], axis=1)[["c"]],
        lambda: pd.concat([pdf[["a"]], pdf[pdf.b > 2][["c"]]], axis=1)[["c"]],
    ),
    "filtered dropped": (
        lambda: concat([df[df.a > 5][["a"]], df[["b", "c"]]], axis=1)[["a"]],
        lambda: pd.concat([pdf[pdf.a > 5][["a"]], pdf[["b", "c"]]], axis=1)[["a"]],
    ),
    "filtered dropped series": (
        lambda: concat([df[df.a > 5].a, df[["b", "c"]]], axis=1)["a"],
        lambda: pd.concat([pdf[pdf.a > 5].a, pdf[["b", "c"]]], axis=1)["a"],
    ),
    "inner join": (
        lambda: concat([df[["a"]], df[df.b > 2][["c"]]], axis=1, join="inner")[["a"]],
        # not compared with pandas: concat(axis=1, join="inner") of co-aligned frames
        # is an outer join in dask-expr (another defect)
        None,
    ),
    "index replaced": (
        lambda: concat([dfu[["a"]], dfu[["b"]].reset_index(drop=True)], axis=1)[["a"]],
        None,
    ),
    "same rows": (
        lambda: concat([df[["a"]], df[["b", "c"]] * 2, df.d.rename("z")], axis=1)[["a", "z"]],
        lambda: pd.concat([pdf[["a"]], pdf[["b", "c"]] * 2, pdf.d.rename("z")], axis=1)[
            ["a", "z"]
        ],
    ),
    "mode": (lambda: df.mode()["d"], lambda: pdf.mode()["d"]),
    "mode list": (lambda: df[["a", "d"]].mode()[["d"]], lambda: pdf[["a", "d"]].mode()[["d"]]),
}


bad = 0
for name, (f, g) in cases.items():
    try:
        q = f()
        got = q.compute()
        sel = q.expr.operand("columns")
        full = dask_expr.new_collection(q.expr.frame).compute()[sel]
        expected = [full] + ([g()] if g is not None else [])
        for i, exp in enumerate(expected):
            if i == 1:
                # the rows of an outer join come partition by partition
                got, exp = got.sort_index(), exp.sort_index()
            if isinstance(exp, pd.Series):
                pd.testing.assert_series_equal(got, exp)
            else:
                pd.testing.assert_frame_equal(got, exp)
    except Exception as e:
        bad += 1
        print(f"FAIL [{name}]: {type(e).__name__}: {str(e)[:300]}")

# operands with provably the same rows as a kept operand are still dropped
q = concat([df[["a"]], df[["b", "c"]] * 2, df.d.rename("z")], axis=1)[["a", "z"]]
tree = q.optimize(fuse=False).expr.tree_repr()
if "Mul" in tree:
    bad += 1
    print("FAIL: the unused operand (df[['b', 'c']] * 2) is still computed\n" + tree)

print("failures:", bad)
sys.exit(1 if bad else 0)
