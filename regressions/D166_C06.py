import sys
import dask
import pandas as pd
from dask_expr import from_pandas
from dask_expr._expr import Lengths

dask.config.set(scheduler="sync")
bad = []

pdf = pd.DataFrame({"a": range(10), "b": range(10, 20)})


def true_lengths(coll):
    return tuple(len(coll.partitions[i].compute()) for i in range(coll.npartitions))


def evaluate(e):
    from dask_expr._expr import Literal

    if isinstance(e, Literal):
        return tuple(e.value)
    e = e.lower_completely()
    return tuple(dask.get(e.__dask_graph__(), (e._name, 0)))


def lengths_of(expr):
    e = Lengths(expr)
    return evaluate(e.simplify()), evaluate(e.optimize())


for sort in (True, False):
    df = from_pandas(pdf, npartitions=4, sort=sort)
    for sel in ([1, 1], [0, 0, 3], [3, 0], [2], [0, 1, 2, 3], [3, 2, 1, 0], [1, 3, 1]):
        for stage, coll in (("raw", df.partitions[sel]), ("opt", df.partitions[sel].optimize())):
            exp = tuple(len(df.partitions[i].compute()) for i in sel)
            n = len(coll)
            if n != sum(exp):
                bad.append((sort, sel, stage, "len", n, sum(exp)))
            if len(coll.compute()) != sum(exp):
                bad.append((sort, sel, stage, "compute len", len(coll.compute()), sum(exp)))
            got = lengths_of(coll.expr)
            if got[0] != exp or got[1] != exp:
                bad.append((sort, sel, stage, "Lengths", got, exp))
        # a series projected from the selection
        coll = df.partitions[sel].a.optimize()
        if len(coll) != sum(exp):
            bad.append((sort, sel, "series len", len(coll), sum(exp)))

# Lengths through an element-wise operation with operands of different rows
df = from_pandas(pdf, npartitions=4)
for name, s in (
    ("filtered + full", df.a[df.a > 4] + df.a),
    ("full + filtered", df.a + df.a[df.a > 4]),
    ("same rows", df.a + df.b),
    ("scalar", df.a + 1),
    ("filtered frame op", (df[df.a > 4] + 1)),
):
    exp = true_lengths(s)
    got = lengths_of(s.expr)
    if got[0] != exp or got[1] != exp:
        bad.append(("elemwise", name, got, exp))

if bad:
    for b in bad:
        print("BAD", b)
    sys.exit(1)
print("ok")
