import sys
import os
sys.path.insert(0, os.path.dirname(os.path.abspath(__file__)))
import numpy as np
import pandas as pd
from fixV_common import compute_unoptimized
from dask_expr import from_map


def make(i):
    return pd.DataFrame(
        {"x": [1 + 3 * i, 2 + 3 * i, 3 + 3 * i],
         "s": np.array([None, "b", "a"], dtype=object)}
    )


df = from_map(make, [0, 1])
pdf = df.compute()
rc = 0
preds = {
    "ne": lambda d: d.s != "a",
    "not eq": lambda d: ~(d.s == "a"),
    "eq": lambda d: d.s == "b",
    "isna": lambda d: d.s.isna(),
    "or": lambda d: (d.s != "b") | (d.x > 4),
}
for name, pred in preds.items():
    q = df[pred(df)]
    pandas_rows = pdf[pred(pdf)]["x"].tolist()
    unopt = compute_unoptimized(q)["x"].tolist()
    got = q.compute()
    print(name, "pandas", pandas_rows, "unoptimized", unopt, "optimized", got["x"].tolist())
    if not (pandas_rows == unopt == got["x"].tolist()):
        rc = 1
    if str(got.s.dtype) != str(q._meta.s.dtype):
        print("  dtype", got.s.dtype, q._meta.s.dtype)
        rc = 1
sys.exit(rc)
