from fixE_common import *

B = pd.DataFrame({"k": np.arange(200) % 7, "v": np.arange(200)}, index=np.arange(1000, 1200))
S = pd.DataFrame({"k": np.arange(10) % 7, "w": np.arange(10)})
dB = dask_expr.from_pandas(B, npartitions=20)
dS = dask_expr.from_pandas(S, npartitions=2)


def both(m, label):
    divisions_truthful(m, label + " unopt")
    divisions_truthful(m.optimize(), label + " opt")


for how in ["inner", "left", "right"]:
    for l, r, lp, rp, name in [(dS, dB, S, B, "S.merge(B)"), (dB, dS, B, S, "B.merge(S)")]:
        m = l.merge(r, on="k", how=how, broadcast=True, shuffle_method="tasks")
        both(m, f"{name} on=k how={how}")
        exp = lp.merge(rp, on="k", how=how)
        got = m.compute()
        check(
            got.sort_values(["k", "v", "w"]).reset_index(drop=True).equals(
                exp.sort_values(["k", "v", "w"]).reset_index(drop=True)[got.columns]
            ),
            f"{name} how={how}: values match pandas",
        )

# merges that keep the index of the big side may keep its divisions
Bi = B.set_index("v")
dBi = dask_expr.from_pandas(Bi, npartitions=20)
S2 = pd.DataFrame({"v": np.arange(10) * 17, "w": np.arange(10)}, index=np.arange(500, 510))
dS2 = dask_expr.from_pandas(S2, npartitions=2)
# result carries the index of S2 (500..509), not the one of Bi
m = dS2.merge(dBi, left_on="v", right_index=True, how="inner", broadcast=True, shuffle_method="tasks")
both(m, "S2.merge(Bi, left_on=v, right_index) broadcast")
# result carries the index of Bi
m = dBi.merge(dS2, left_index=True, right_on="v", how="inner", broadcast=True, shuffle_method="tasks")
both(m, "Bi.merge(S2, left_index, right_on=v) broadcast")
# result carries the index of B
m = dB.merge(dS2.set_index("v"), left_on="v", right_index=True, how="left", broadcast=True, shuffle_method="tasks")
both(m, "B.merge(S2i, left_on=v, right_index) broadcast")
check(m.optimize().known_divisions, "B.merge(S2i, left_on=v, right_index) keeps the divisions of B")
# index-index merge keeps the key as index
m = dBi.merge(dS2.set_index("v"), left_index=True, right_index=True, how="inner", broadcast=True, shuffle_method="tasks")
both(m, "Bi.merge(S2i, left_index, right_index) broadcast")

# single partition broadcast: index name on one side, column on the other gives a RangeIndex
S1 = dask_expr.from_pandas(S2, npartitions=1)
m = dBi.merge(S1, on="v", how="inner")
both(m, "Bi.merge(S1, on=v) [v index of Bi, column of S1]")
m = S1.merge(dBi, on="v", how="inner")
both(m, "S1.merge(Bi, on=v)")
m = dB.merge(S1.set_index("v"), left_on="v", right_index=True, how="left")
both(m, "B.merge(S1i, left_on=v, right_index)")
check(m.known_divisions, "B.merge(S1i, left_on=v, right_index) keeps the divisions of B")
m = dBi.merge(S1.set_index("v"), on="v", how="inner")
both(m, "Bi.merge(S1i, on=v) [index of both]")
check(m.known_divisions, "Bi.merge(S1i, on=v) keeps the divisions of Bi")
finish()
