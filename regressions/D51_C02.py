"""D3: an empty partition must not turn var/std/sem(skipna=False), skew and
kurtosis into NaN."""
import sys

import dask
import numpy as np
import pandas as pd

import dask_expr
from dask_expr import concat, from_pandas

dask.config.set(scheduler="sync")
print("dask_expr from", dask_expr.__file__)

rng = np.random.RandomState(1)
pdf = pd.DataFrame(
    {"x": rng.randint(0, 20, 9).astype(float), "y": rng.rand(9), "z": np.arange(9)}
)

bad = 0


def close(a, b):
    a = np.asarray(a, dtype="f8")
    b = np.asarray(b, dtype="f8")
    return a.shape == b.shape and np.allclose(a, b, equal_nan=True)


def check(label, got, exp):
    global bad
    if isinstance(exp, pd.Series):
        ok = list(got.index) == list(exp.index) and close(got.values, exp.values)
    else:
        ok = close(got, exp)
    if not ok:
        bad += 1
        print("MISMATCH", label, "got", np.asarray(got).tolist(), "expected", np.asarray(exp).tolist())


def build(cuts):
    pieces = [pdf.iloc[a:b] for a, b in zip(cuts[:-1], cuts[1:])]
    return concat([from_pandas(p, 1, sort=False) for p in pieces])


splits = {
    "middle-empty": [0, 2, 2, 9],
    "first-empty": [0, 0, 4, 9],
    "last-empty": [0, 4, 9, 9],
    "two-empty": [0, 0, 3, 3, 9],
    "many": [0, 1, 1, 2, 2, 3, 5, 5, 6, 7, 8, 9, 9],
    "no-empty": [0, 3, 6, 9],
}

one = from_pandas(pdf, 1)  # reference for skew / kurtosis (scipy semantics)
for name, cuts in splits.items():
    d = build(cuts)
    assert d.npartitions == len(cuts) - 1
    for split_every in (False, 2):
        for skipna in (False, True):
            for red in ("var", "std", "sem"):
                kw = dict(skipna=skipna, split_every=split_every)
                check(
                    f"{name} series {red} {kw}",
                    getattr(d.x, red)(**kw).compute(),
                    getattr(pdf.x, red)(skipna=skipna),
                )
                check(
                    f"{name} frame {red} {kw}",
                    getattr(d, red)(**kw).compute(),
                    getattr(pdf, red)(skipna=skipna),
                )
                check(
                    f"{name} series {red} ddof=0 {kw}",
                    getattr(d.x, red)(ddof=0, **kw).compute(),
                    getattr(pdf.x, red)(ddof=0, skipna=skipna),
                )
    for red in ("skew", "kurtosis"):
        check(f"{name} series {red}", getattr(d.x, red)().compute(), getattr(one.x, red)().compute())
        check(f"{name} frame {red}", getattr(d, red)().compute(), getattr(one, red)().compute())

# sanity: the one-partition reference agrees with the biased textbook formulas
v = pdf.x.to_numpy()
m = v - v.mean()
check("reference skew", one.x.skew().compute(), (m**3).mean() / (m**2).mean() ** 1.5)
check("reference kurt", one.x.kurtosis().compute(), (m**4).mean() / (m**2).mean() ** 2 - 3)

# NaN in the data must still propagate with skipna=False, and be skipped otherwise
pdf2 = pdf.copy()
pdf2.loc[5, "x"] = np.nan
pdf_saved, pdf = pdf, pdf2
d = build(splits["two-empty"])
check("nan-data var skipna=False", d.x.var(skipna=False).compute(), pdf2.x.var(skipna=False))
check("nan-data var skipna=True", d.x.var(skipna=True).compute(), pdf2.x.var(skipna=True))
check("nan-data frame var skipna=False", d.var(skipna=False).compute(), pdf2.var(skipna=False))

# a frame with no rows at all
pdf = pdf_saved.iloc[:0]
d = build([0, 0, 0])
check("all-empty var skipna=False", d.x.var(skipna=False).compute(), pdf.x.var(skipna=False))
check("all-empty var", d.x.var().compute(), pdf.x.var())

print("mismatches:", bad)
sys.exit(1 if bad else 0)
