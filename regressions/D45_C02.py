import sys
import numpy as np, pandas as pd, dask
import dask_expr
from dask_expr import from_pandas
dask.config.set(scheduler="sync")

pdf = pd.DataFrame({"a": range(20), "b": range(20)})
df = from_pandas(pdf, npartitions=4)
ts = pd.DataFrame({"a": range(40)}, index=pd.date_range("2000-01-01", periods=40, freq="D"))
dts = from_pandas(ts, npartitions=4)
fl = pd.DataFrame({"a": range(20)}, index=np.arange(20) / 2.0)
dfl = from_pandas(fl, npartitions=3)

fails = []
def check(name, q, expected, **kw):
    try:
        divs = q.divisions
        assert all(d is not None for d in divs), divs
        assert list(divs) == sorted(divs), ("unsorted divisions", divs)
        assert len(divs) == q.npartitions + 1
        # fuse=False throughout: fusing a loc with anything is defect B1
        got = q.compute(fuse=False)
        pd.testing.assert_frame_equal(got, expected)
        keys = [k for k in q.optimize(fuse=False).__dask_graph__() if isinstance(k, tuple)]
        assert all(k[1] >= 0 for k in keys), ("stray key", [k for k in keys if k[1] < 0])
        out = {(q.optimize(fuse=False)._name, i) for i in range(q.npartitions)}
        assert out <= set(keys)
        # result of a further operation on top
        pd.testing.assert_frame_equal((q + 1).compute(fuse=False), expected + 1)  # fused variant: see B1
    except Exception as e:
        fails.append(name)
        print("FAIL", name, type(e).__name__, str(e)[:150])
    else:
        print("ok  ", name)

check("loc[15:3]", df.loc[15:3], pdf.loc[15:3])
check("loc[3:1]", df.loc[3:1], pdf.loc[3:1])
check("loc[12:7]", df.loc[12:7], pdf.loc[12:7])
check("loc[19:0]", df.loc[19:0], pdf.loc[19:0])
check("loc[100:3]", df.loc[100:3], pdf.loc[100:3])
check("loc[15:-5]", df.loc[15:-5], pdf.loc[15:-5])
check("loc[15:3, ['a']]", df.loc[15:3, ["a"]], pdf.loc[15:3, ["a"]])
check("ts reversed", dts.loc["2000-02-01":"2000-01-05"], ts.loc["2000-02-01":"2000-01-05"])
check("float reversed", dfl.loc[7.5:1.0], fl.loc[7.5:1.0])
# forward slices keep working
check("loc[3:15]", df.loc[3:15], pdf.loc[3:15])
check("loc[3:3]", df.loc[3:3], pdf.loc[3:3])
check("loc[5:5]", df.loc[5:5], pdf.loc[5:5])
check("loc[:3]", df.loc[:3], pdf.loc[:3])
check("loc[15:]", df.loc[15:], pdf.loc[15:])
check("loc[-5:3]", df.loc[-5:3], pdf.loc[-5:3])
check("loc[15:100]", df.loc[15:100], pdf.loc[15:100])
sys.exit(1 if fails else 0)
