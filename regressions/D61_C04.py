import sys
import dask, pandas as pd, numpy as np
import dask_expr
dask.config.set(scheduler="sync")
rng = np.random.default_rng(0)
pdf = pd.DataFrame({"a": np.arange(12), "b": rng.permutation(12) * 1.5, "c": rng.permutation(12) * 1.0})
pdf.iloc[3, 2] = np.nan
pdf2 = pd.DataFrame({"a": np.arange(12)[::-1], "d": rng.permutation(12) * 1.0, "b": rng.permutation(12) * 2.0})
df = dask_expr.from_pandas(pdf, npartitions=3)
df2 = dask_expr.from_pandas(pdf2, npartitions=2)
fails = 0
def check(label, f):
    global fails
    try:
        exp = f(pdf, pdf2)
        got = f(df, df2).compute()
        key = list(exp.columns) if exp.ndim == 2 else None
        if key:
            got = got.sort_values(key).reset_index(drop=True); exp = exp.sort_values(key).reset_index(drop=True)
        else:
            got = got.sort_values().reset_index(drop=True); exp = exp.sort_values().reset_index(drop=True)
        (pd.testing.assert_series_equal if isinstance(exp, pd.Series) else pd.testing.assert_frame_equal)(got, exp)
        print("ok  ", label)
    except Exception as e:
        fails += 1
        print("FAIL", label, type(e).__name__, str(e)[:150].replace("\n", " "))
check("dropna(subset=[c]).merge(df2, on=a)", lambda d, d2: d.dropna(subset=["c"]).merge(d2, on="a"))
check("df2.merge(dropna(subset=[c]), on=a)", lambda d, d2: d2.merge(d.dropna(subset=["c"]), on="a"))
check("dropna(subset=[c]).merge(df2, on=a, suffixes)", lambda d, d2: d.dropna(subset=["c"]).merge(d2, on="a", suffixes=("_l", "_r"), how="left"))
check("dropna(subset=[c]).merge(df2, on=a)[[b_x,d]]", lambda d, d2: d.dropna(subset=["c"]).merge(d2, on="a")[["b_x", "d"]])
check("dropna(subset=[c]).merge(df2, on=a)[b_y]", lambda d, d2: d.dropna(subset=["c"]).merge(d2, on="a")["b_y"])
check("dropna(subset=[c]).rename(b->z)", lambda d, d2: d.dropna(subset=["c"]).rename(columns={"b": "z"}))
check("dropna(subset=[c]).add_prefix", lambda d, d2: d.dropna(subset=["c"]).add_prefix("p_"))
check("dropna(subset=[c])[[a]] still pruned", lambda d, d2: d.dropna(subset=["c"])[["a"]])
check("dropna(subset=[c]).b + 1", lambda d, d2: d.dropna(subset=["c"]).b + 1)
# two dependents: a Merge and a Projection of the same dropna
def two(d, d2):
    x = d.dropna(subset=["c"])
    return x.merge(d2, on="a").merge(x[["a"]], on="a")
check("merge + projection of the same dropna", two)
sys.exit(1 if fails else 0)
