"""M6b (found while working on M6): groupby(...).cov() / corr() on a single-partition frame raise
ValueError 'Expected iterable of tuples of (name, dtype)'."""
import sys
import warnings

warnings.simplefilter("ignore")
import numpy as np
import pandas as pd
import dask
import dask_expr as dx

dask.config.set(scheduler="sync")
bad = []
rs = np.random.RandomState(3)
n = 40
pdf = pd.DataFrame({"a": rs.randint(0, 3, n), "b": rs.randint(0, 2, n), "x": rs.rand(n), "z": rs.rand(n)})

for k in (1, 2, 5):
    ddf = dx.from_pandas(pdf, npartitions=k)
    for by in ("a", ["a", "b"]):
        for meth in ("cov", "corr"):
            cols = ([by] if isinstance(by, str) else by) + ["x", "z"]
            exp = getattr(pdf[cols].groupby(by), meth)()
            try:
                got = getattr(ddf[cols].groupby(by), meth)().compute()
                pd.testing.assert_frame_equal(got.sort_index(), exp.sort_index(), check_names=False)
            except Exception as e:  # noqa
                bad.append((k, by, meth, type(e).__name__ + ": " + (str(e).splitlines() or [""])[0][:100]))

for b in bad:
    print("MISMATCH", b)
print("M6b", "DEFECT PRESENT" if bad else "ok")
sys.exit(1 if bad else 0)
