import sys
import dask
import pandas as pd
import dask_expr as dx

dask.config.set(scheduler="sync")
bad = []


def check(tag, expected, coll):
    plain = coll._meta.dtypes
    try:
        opt = coll.optimize()._meta.dtypes
        got = coll.compute()
    except Exception as e:  # noqa
        bad.append(f"{tag}: {type(e).__name__}: {e}")
        return
    if not (list(plain) == list(opt) == list(got.dtypes)):
        bad.append(
            f"{tag}: declared {dict(plain)}, declared after optimize {dict(opt)}, "
            f"computed {dict(got.dtypes)}"
        )
    try:
        pd.testing.assert_frame_equal(
            got.reset_index(drop=True), expected.reset_index(drop=True),
            check_column_type=False,
        )
    except AssertionError as e:
        bad.append(f"{tag}: {e}")


pa = pd.DataFrame({"a": range(6), "b": range(6)})
pb = pd.DataFrame({"c": range(6)})
A = dx.from_pandas(pa, 2)
B = dx.from_pandas(pb, 2)
check("concat([A, B])[['a']]", pd.concat([pa, pb])[["a"]], dx.concat([A, B])[["a"]])
check("concat([B, A])[['a', 'b']]", pd.concat([pb, pa])[["a", "b"]],
      dx.concat([B, A])[["a", "b"]])
check("concat([A, B])", pd.concat([pa, pb]), dx.concat([A, B]))
check("concat([A, B])['a']", pd.concat([pa, pb])[["a"]], dx.concat([A, B])["a"].to_frame())
check("concat([A, B, A])[['b']]", pd.concat([pa, pb, pa])[["b"]], dx.concat([A, B, A])[["b"]])
# an unnamed Series is column 0
pdf = pd.DataFrame({"a": [1, 2, 3, 4, 5, 6], "b": [1.5, 2.5, 3.5, 4.5, 5.5, 6.5],
                    "c": [7, 8, 9, 7, 8, 9]})
df = dx.from_pandas(pdf, npartitions=2)
pc3 = pd.concat([pdf[["a", "c"]], pdf.b.rename(None)])
c3 = dx.concat([df[["a", "c"]], df.b.rename(None)])
check("axis0", pc3, c3)
check("axis0[[0]]", pc3[[0]], c3[[0]])
check("axis0[0]", pc3[[0]], c3[0].to_frame())
check("axis0[['a']]", pc3[["a"]], c3[["a"]])

# a frame that really is empty doesn't change the dtypes
empty = pd.DataFrame([], dtype="int64")
E = dx.from_pandas(empty, npartitions=1)
check("concat([A, empty])", pd.concat([pa, empty]), dx.concat([A, E]))
check("concat([A, empty])[['a']]", pd.concat([pa, empty])[["a"]], dx.concat([A, E])[["a"]])

for b in bad:
    print("DEFECT:", b)
sys.exit(1 if bad else 0)
