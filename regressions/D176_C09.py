import sys, pickle, operator
import numpy as np, pandas as pd, dask
from dask_expr import from_pandas
dask.config.set(scheduler="sync")
bad = []
pdf = pd.DataFrame({'a': np.arange(12.), 'b': np.arange(12) * 3})

def closed_and_picklable(c):
    # no expression object in the graph, and every key a task refers to exists
    g = dict(c.optimize().__dask_graph__())
    with dask.config.set({"dask-expr-no-serialize": True}):
        try:
            import cloudpickle
            cloudpickle.dumps(g)
        except ImportError:
            pass
    from dask_expr._core import Expr
    from dask_expr._collection import FrameBase
    def walk(o):
        if isinstance(o, (Expr, FrameBase)):
            raise RuntimeError(f"{type(o).__name__} embedded in a task")
        if isinstance(o, (list, tuple)):
            for x in o: walk(x)
        elif isinstance(o, dict):
            for x in o.values(): walk(x)
    for v in g.values(): walk(v)

def check(name, make, exp=None, raises=None):
    try:
        if raises is not None:
            try:
                c = make()
                closed_and_picklable(c)
            except raises as ex:
                return
            got = c.compute()
        else:
            c = make()
            closed_and_picklable(c)
            got = c.compute()
        e = exp()
        (pd.testing.assert_frame_equal if got.ndim == 2 else pd.testing.assert_series_equal)(got, e, check_dtype=False)
    except Exception as ex:
        bad.append(name); print("FAIL", name, type(ex).__name__, str(ex)[:100])

df = from_pandas(pdf, 3)
def f_kw(x, other=None):
    return x.assign(c=other.reindex(x.index) if other is not None else -1)
def f_sc(x, other=None):
    return x + other
# keyword collection (frame-like): either handled correctly or rejected with a clear error
check("overlap-kw-series", lambda: df.map_overlap(lambda x, other=None: x, 1, 1, other=df.b, meta=pdf), lambda: pdf, raises=(NotImplementedError, TypeError, ValueError))
check("overlap-kw-scalar", lambda: df.map_overlap(f_sc, 1, 1, other=df.b.sum(), meta=pdf), lambda: pdf + pdf.b.sum(), raises=(NotImplementedError, TypeError, ValueError))
check("overlap-pos-series", lambda: df.map_overlap(lambda x, o: x.assign(c=o), 1, 1, df.b, meta=pdf.assign(c=0)), lambda: pdf.assign(c=pdf.b))
check("apply-args-scalar", lambda: df.b.apply(operator.add, args=(df.b.sum(),), meta=('b', 'f8')), lambda: pdf.b.apply(operator.add, args=(pdf.b.sum(),)), raises=(NotImplementedError, TypeError, ValueError))
check("apply-kw-scalar", lambda: df.b.apply(lambda v, k=0: v + k, k=df.b.sum(), meta=('b', 'f8')), lambda: pdf.b + pdf.b.sum(), raises=(NotImplementedError, TypeError, ValueError))
check("df-apply-args-scalar", lambda: df.apply(lambda r, s: r + s, axis=1, args=(df.b.sum(),), meta=pdf), lambda: pdf + pdf.b.sum(), raises=(NotImplementedError, TypeError, ValueError))
check("mp-kw-series", lambda: df.map_partitions(lambda x, other=None: x.assign(c=other), other=df.b, meta=pdf.assign(c=0)), lambda: pdf.assign(c=pdf.b))
check("mp-kw-scalar", lambda: df.map_partitions(f_sc, other=df.b.sum(), meta=pdf), lambda: pdf + pdf.b.sum())
print("bad:", bad)
sys.exit(1 if bad else 0)
