import sys
import numpy as np
import pandas as pd
import dask
import dask_expr as dx

dask.config.set(scheduler="sync")
fails = []


def check(label, build, expected):
    try:
        q = build()
        once = q.optimize()
        r1 = once.compute()
        twice = once.optimize()
        r2 = twice.compute()
        r3 = twice.optimize().compute()
        for r in (r1, r2, r3):
            if isinstance(expected, (pd.Series, pd.DataFrame)):
                if isinstance(expected, pd.Series):
                    pd.testing.assert_series_equal(r, expected, check_names=False)
                else:
                    pd.testing.assert_frame_equal(r, expected)
            else:
                assert r == expected, (r, expected)
    except Exception as e:  # noqa
        fails.append((label, type(e).__name__, str(e)[:200]))


for nparts in (1, 2, 3, 5):
    pdf = pd.DataFrame({"a": range(24), "b": range(24)})
    df = dx.from_pandas(pdf, npartitions=nparts)
    check(f"shift np={nparts}", lambda: df.a + df.b.shift(1), pdf.a + pdf.b.shift(1))

pdf = pd.DataFrame({"a": range(6), "b": range(6)})
df = dx.from_pandas(pdf, npartitions=3)


def len_assign():
    return df.assign(z=df.repartition(npartitions=2).b)


check("assign repartition", len_assign, pdf.assign(z=pdf.b))
try:
    o = len_assign().optimize()
    assert len(o) == 6
    assert len(o.optimize()) == 6
except Exception as e:
    fails.append(("len assign", type(e).__name__, str(e)[:200]))

# third shape
pdf = pd.DataFrame({"a": range(12), "z": np.arange(12) * 1.5, "s": list("abcdefghijkl")})
df = dx.from_pandas(pdf, npartitions=3)
D = 3
c1 = (df.a + df.z).optimize()
check("c1 shape", lambda: (c1 + df.z * D) - D, (pdf.a + pdf.z + pdf.z * D) - D)

for f in fails:
    print("FAIL", f)
sys.exit(1 if fails else 0)
