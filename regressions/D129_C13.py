import sys
import numpy as np, pandas as pd, dask
import dask_expr as dx
from dask_expr import repartition
dask.config.set(scheduler='sync')
bad = 0

def check(tag, pdf, divisions, must_raise=False):
    """Either every row is kept and placed within its divisions, or ValueError"""
    global bad
    try:
        df = repartition(pdf, divisions)
        divs = df.divisions
        parts = [df.partitions[i].compute() for i in range(df.npartitions)]
        opt = df.optimize()
        e = opt.expr
        parts2 = dask.get(e.__dask_graph__(), e.__dask_keys__())
        total = df.compute()
        n = len(df)
    except ValueError as ex:
        if not must_raise:
            print(tag, 'unexpected ValueError', ex); bad += 1
        return
    if must_raise:
        print(tag, 'no ValueError: divisions', divs, 'partitions', [list(p.index) for p in parts]); bad += 1
        return
    if tuple(divs) != tuple(divisions) or len(parts) != len(divisions) - 1 or len(parts2) != len(parts):
        print(tag, 'layout not as requested', divs, len(parts)); bad += 1
    exp = pdf.sort_index()
    if not pd.concat(parts).equals(exp) or not total.equals(exp) or n != len(pdf):
        print(tag, 'rows lost or duplicated', [list(p.index) for p in parts]); bad += 1
    for ps in (parts, parts2):
        for i, p in enumerate(ps):
            if len(p):
                lo, hi = p.index.min(), p.index.max()
                last = i == len(ps) - 1
                if not (lo >= divs[i] and (hi <= divs[i + 1] if last else hi < divs[i + 1])):
                    print(tag, 'partition', i, list(p.index), 'outside', divs[i], divs[i + 1]); bad += 1

pdf = pd.DataFrame({'a': range(8)}, index=[1, 2, 3, 4, 5, 6, 7, 8])
check('beyond', pdf, (1, 5, 9, 12))
check('beyond2', pdf, (0, 5, 9, 12, 20))
check('exact', pdf, (1, 5, 8))
check('wider', pdf, (0, 4, 10))
check('inside', pdf, (3, 5, 7), must_raise=True)
check('left inside', pdf, (2, 5, 8), must_raise=True)
check('right inside', pdf, (1, 5, 7), must_raise=True)
dup = pd.DataFrame({'a': 1}, index=[1, 2, 3, 4, 5, 5, 5, 6, 8])
check('dup', dup, (1, 5, 7, 10))
check('dup beyond', dup, (1, 5, 9, 10))
check('dup inside', dup, (1, 5, 7), must_raise=True)
check('unsorted data', pd.DataFrame({'a': range(6)}, index=[7, 6, 4, 3, 2, 1]), (1, 4, 8, 9))
ts = pd.DataFrame({'a': range(8)}, index=pd.date_range('2000-01-01', periods=8))
check('ts beyond', ts, tuple(pd.Timestamp(x) for x in ('2000-01-01', '2000-01-05', '2000-01-09', '2000-01-12')))
check('ts inside', ts, tuple(pd.Timestamp(x) for x in ('2000-01-03', '2000-01-05', '2000-01-07')), must_raise=True)
st = pd.Series(range(5), index=list('abcde'))
check('str beyond', st, ('a', 'c', 'f', 'g'))
check('str inside', st, ('b', 'c', 'd'), must_raise=True)
print('bad', bad)
sys.exit(1 if bad else 0)
