import sys
import dask, pandas as pd, numpy as np
import dask_expr
dask.config.set(scheduler="sync")
rng = np.random.default_rng(0)
pdf = pd.DataFrame({"a": rng.permutation(12) * 1.0, "b": rng.permutation(12) * 1.5,
                    "c": rng.permutation(12) * 1.0})
df = dask_expr.from_pandas(pdf, npartitions=3)
fails = 0
def check(label, f):
    global fails
    try:
        exp = f(pdf)
        got = f(df).compute()
        (pd.testing.assert_series_equal if isinstance(exp, pd.Series) else pd.testing.assert_frame_equal)(got, exp)
        print("ok  ", label)
    except Exception as e:
        fails += 1
        print("FAIL", label, type(e).__name__, str(e)[:150].replace("\n", " "))
# list-like right operand is aligned with the columns by position
check("(df + [1,2,3])[[b]]", lambda d: (d + [1, 2, 3])[["b"]])
check("(df * np.array)[c]", lambda d: (d * np.array([1, 2, 3]))["c"])
check("df.add([1,2,3])[[b]]", lambda d: d.add([1, 2, 3])[["b"]])
check("df.lt([1,2,3], axis=1)[[b]]", lambda d: d.lt([1, 2, 3], axis=1)[["b"]])
check("df.add(pd.Series, axis=1)[[b]]", lambda d: d.add(pd.Series([1, 2, 3], index=["a", "b", "c"]), axis=1)[["b"]])
check("(df + 1)[[b]]", lambda d: (d + 1)[["b"]])
check("(2 * df)[b]", lambda d: (2 * d)["b"])
sys.exit(1 if fails else 0)
