"""M3: groupby(...).median(split_every=k): ZeroDivisionError for k > npartitions; npartitions / divisions / graph disagree."""
import sys
import numpy as np
import pandas as pd
import dask
import dask_expr as dx

dask.config.set(scheduler="sync")
bad = []
rs = np.random.RandomState(2)
n = 60
pdf = pd.DataFrame({"a": rs.randint(0, 5, n), "k": rs.randint(0, 2, n), "b": rs.rand(n), "c": rs.randint(0, 9, n)})

CASES = {
    "a.median": lambda d, **kw: d.groupby("a").median(**kw),
    "a.b.median": lambda d, **kw: d.groupby("a").b.median(**kw),
    "a,k.median": lambda d, **kw: d.groupby(["a", "k"]).median(**kw),
    "series-key.median": lambda d, **kw: d.groupby(d.a % 3).b.median(**kw),
    "index-key.median": lambda d, **kw: d.set_index("a").groupby("a").b.median(**kw) if not isinstance(d, pd.DataFrame) else d.set_index("a").groupby("a").b.median(),
}


def check_consistency(label, coll):
    """the reported partitioning must be what the graph delivers"""
    for tag, e in (("logical", coll.expr), ("optimized", coll.optimize().expr)):
        if len(e.divisions) != e.npartitions + 1:
            raise AssertionError(f"{tag}: npartitions={e.npartitions} but {len(e.divisions)} divisions")
    opt = coll.optimize()
    nkeys = len(opt.__dask_keys__())
    if nkeys != coll.npartitions:
        raise AssertionError(f"reported npartitions={coll.npartitions}, graph delivers {nkeys}")
    graph = opt.__dask_graph__()
    missing = [k for k in opt.__dask_keys__() if k not in graph]
    if missing:
        raise AssertionError(f"output keys missing from graph: {missing[:2]}")


for name, f in CASES.items():
    exp = f(pdf)
    for k in (1, 2, 6, 17):
        ddf = dx.from_pandas(pdf, npartitions=k)
        for kw in ({}, {"split_every": 2}, {"split_every": 4}, {"split_every": 8}, {"split_every": 100},
                   {"split_every": 2, "split_out": 2}, {"split_every": 8, "split_out": 3}, {"split_out": 1}, {"split_every": False}):
            try:
                coll = f(ddf, **kw)
                check_consistency(name, coll)
                got = coll.compute()
                if isinstance(exp, pd.Series):
                    pd.testing.assert_series_equal(got.sort_index(), exp.sort_index(), check_names=False)
                else:
                    pd.testing.assert_frame_equal(got.sort_index(), exp.sort_index(), check_names=False)
            except Exception as e:  # noqa
                bad.append((name, k, kw, type(e).__name__ + ": " + (str(e).splitlines() or [""])[0][:140]))

for b in bad:
    print("MISMATCH", b)
print("M3", "DEFECT PRESENT" if bad else "ok")
sys.exit(1 if bad else 0)
