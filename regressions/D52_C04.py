"""D4: selecting columns of a binary operation between two frames that are
partitioned differently must give what pandas gives."""
import sys

import dask
import numpy as np
import pandas as pd

import dask_expr
from dask_expr import from_pandas

dask.config.set(scheduler="sync")
print("dask_expr from", dask_expr.__file__)

p1 = pd.DataFrame({"a": np.arange(12.0), "b": np.arange(12.0) * 2, "c": 1.0})
p2 = pd.DataFrame(
    {"a": np.arange(12.0) * 10, "b": 5.0, "d": np.arange(12.0)},
    index=np.arange(12)[::-1],
)
ps = pd.Series(np.arange(12.0) * 100, index=np.arange(12)[::-1], name="s")

bad = 0


def check(label, make, *pargs):
    global bad
    try:
        exp = make(*pargs)
    except Exception as e:
        print("pandas raised for", label, type(e).__name__)
        return
    for layout in ((3, 4), (1, 3), (4, 1)):
        dargs = [from_pandas(p, npartitions=n) for p, n in zip(pargs, layout)]
        for optimize in (True, False):
            try:
                expr = make(*dargs)
                if optimize:
                    got = expr.compute()
                else:
                    got = expr.optimize(fuse=False).compute()
                if isinstance(exp, pd.Index):
                    got, e = got.sort_values(), exp.sort_values()
                else:
                    got, e = got.sort_index(), exp.sort_index()
                if isinstance(e, pd.DataFrame):
                    pd.testing.assert_frame_equal(got, e, check_dtype=False)
                elif isinstance(e, pd.Series):
                    pd.testing.assert_series_equal(got, e, check_dtype=False)
                else:
                    pd.testing.assert_index_equal(got, e)
            except Exception as err:
                bad += 1
                msg = str(err).splitlines()[0][:120] if str(err) else ""
                print("MISMATCH", label, layout, type(err).__name__, msg)
                break


check("(d1+d2)[['a']]", lambda x, y: (x + y)[["a"]], p1, p2)
check("(d1+d2)['a']", lambda x, y: (x + y)["a"], p1, p2)
check("(d1+d2)[['a','b']]", lambda x, y: (x + y)[["a", "b"]], p1, p2)
check("(d1+d2)[['b','a']]", lambda x, y: (x + y)[["b", "a"]], p1, p2)
check("(d1+d2)[['c']] (only in left)", lambda x, y: (x + y)[["c"]], p1, p2)
check("(d1+d2)[['a','d']]", lambda x, y: (x + y)[["a", "d"]], p1, p2)
check("(d1*d2).a + 1", lambda x, y: (x * y).a + 1, p1, p2)
check("(d1-d2).index", lambda x, y: (x - y).index, p1, p2)
check("(d1+d2) no projection", lambda x, y: x + y, p1, p2)
check("d1.add(d2, fill_value=0)[['a']]", lambda x, y: x.add(y, fill_value=0)[["a"]], p1, p2)
check("(s1+s2).index", lambda x, y: (x.a + y.a).index, p1, p2)
check("(d1+s).index", lambda x, y: x.add(y, axis=0).index, p1, ps)
check("d1.sub(d2)['b']", lambda x, y: x.sub(y)["b"], p1, p2)
check("d1.add(s, axis=0)[['a']]", lambda x, y: x.add(y, axis=0)[["a"]], p1, ps)
check("d1.add(s, axis=0)['b']", lambda x, y: x.add(y, axis=0)["b"], p1, ps)
check("(d1.a + d2.a)", lambda x, y: x.a + y.a, p1, p2)
check("two projections of one sum", lambda x, y: (x + y)["a"] * (x + y)["b"], p1, p2)
check("(d1 - d2[['a', 'b']])['a']", lambda x, y: (x - y[["a", "b"]])["a"], p1, p2)

print("mismatches:", bad)
sys.exit(1 if bad else 0)
