import sys
import dask
import pandas as pd
import dask_expr
from dask_expr import from_pandas

dask.config.set(scheduler="sync")

pdf = pd.DataFrame({"a": [3, 1, 4, 1, 5, 9, 2, 6, 5, 3]})
bad = []
for method in ("tasks", "disk"):
    for name in ("a", None, 0):
        ps = pdf.a.rename(name)
        s = from_pandas(ps, npartitions=2)
        variants = {"on_index": lambda: s.shuffle(on_index=True, shuffle_method=method)}
        if name is not None:
            if isinstance(name, str):  # a scalar `on` must be a str, as for DataFrame.shuffle
                variants["by-name"] = lambda: s.shuffle(name, shuffle_method=method)
            variants["by-name-list"] = lambda: s.shuffle([name], shuffle_method=method)
            variants["by-name-npart"] = lambda: s.shuffle([name], npartitions=3, shuffle_method=method)
        for label, mk in variants.items():
            try:
                q = mk()
                res = q.compute()
                parts = dask.compute(*q.optimize().to_delayed())
            except Exception as e:
                bad.append((method, name, label, type(e).__name__, str(e)[:150]))
                continue
            if not isinstance(res, pd.Series) or repr(res.name) != repr(name) or res.dtype != ps.dtype:
                bad.append((method, name, label, "schema", type(res).__name__, getattr(res, "name", None)))
            elif sorted(zip(res.index, res)) != sorted(zip(ps.index, ps)):
                bad.append((method, name, label, "rows differ"))
            elif label.startswith("by-name"):
                # every value lives in exactly one output partition
                homes = {}
                for i, p in enumerate(parts):
                    for v in p.unique():
                        homes.setdefault(v, set()).add(i)
                if any(len(h) > 1 for h in homes.values()):
                    bad.append((method, name, label, "value split over partitions"))

for m in bad:
    print("MISMATCH", m)
sys.exit(1 if bad else 0)
