import sys
import warnings
warnings.filterwarnings("ignore", message="Merging dataframes with merge column data type")
import numpy as np, pandas as pd, dask
from dask_expr import from_pandas

dask.config.set(scheduler="sync")
bad = []

n = 40
ts = pd.date_range("2020-01-01", periods=n, freq="D")
L = pd.DataFrame({"k": ts.astype("datetime64[ns]"), "v": np.arange(n)})
R = pd.DataFrame({"k": ts.astype("datetime64[s]"), "w": np.arange(n) * 10})
assert L.k.dtype != R.k.dtype


def run(L, R, nl, nr, tag, exp=None, **kw):
    kw.setdefault("on", "k")
    exp = L.merge(R, **{k: v for k, v in kw.items() if k not in ("shuffle_method", "broadcast")})
    l = from_pandas(L, npartitions=nl, sort=False)
    r = from_pandas(R, npartitions=nr, sort=False)
    try:
        got = l.merge(r, **kw).compute()
    except (TypeError, ValueError, NotImplementedError) as e:
        # a clear refusal is acceptable, silently losing rows is not
        print(f"{tag} {nl}x{nr}: raises {type(e).__name__}: {str(e)[:80]}")
        return
    if len(got) != len(exp):
        bad.append(f"{tag} {nl}x{nr} {kw}: {len(got)} rows, pandas {len(exp)}")
        return
    cols = list(exp.columns)
    g = got[cols].sort_values(cols).reset_index(drop=True)
    e = exp.sort_values(cols).reset_index(drop=True)
    if not (g.astype(object).fillna(-1).values == e.astype(object).fillna(-1).values).all():
        bad.append(f"{tag} {nl}x{nr} {kw}: values differ from pandas")


for nl, nr in [(1, 1), (4, 4), (8, 2), (2, 8)]:
    for method in ["tasks", "disk"]:
        run(L, R, nl, nr, "ns/s", shuffle_method=method, broadcast=False)
        run(R, L, nl, nr, "s/ns", shuffle_method=method, broadcast=False)
run(L, R, 4, 4, "ns/s", how="left", shuffle_method="tasks", broadcast=False)
run(L, R, 4, 4, "ns/s", how="outer", shuffle_method="tasks", broadcast=False)
# broadcast join (small side shuffled, large side split per partition)
run(L, R, 8, 2, "ns/s bcast", how="left", shuffle_method="tasks", broadcast=True)
run(R, L, 8, 2, "s/ns bcast", how="left", shuffle_method="tasks", broadcast=True)
run(L, R, 8, 2, "ns/s bcast", how="inner", shuffle_method="tasks", broadcast=True)
# other resolutions and tz-aware keys
for a, b in [("ms", "us"), ("us", "ns")]:
    La = L.assign(k=ts.astype(f"datetime64[{a}]"))
    Rb = R.assign(k=ts.astype(f"datetime64[{b}]"))
    run(La, Rb, 4, 4, f"{a}/{b}", shuffle_method="tasks", broadcast=False)
Lt = L.assign(k=ts.tz_localize("UTC").astype("datetime64[ns, UTC]"))
Rt = R.assign(k=ts.tz_localize("UTC").astype("datetime64[s, UTC]"))
run(Lt, Rt, 4, 4, "tz ns/s", shuffle_method="tasks", broadcast=False)
# timedelta keys
td = pd.timedelta_range("1h", periods=n, freq="h")
Ld = L.assign(k=td.astype("timedelta64[ns]"))
Rd = R.assign(k=td.astype("timedelta64[s]"))
run(Ld, Rd, 4, 4, "timedelta ns/s", shuffle_method="tasks", broadcast=False)
# two keys, one of them datetime
L2 = L.assign(j=np.arange(n) % 3)
R2 = R.assign(j=np.arange(n) % 3)
run(L2, R2, 4, 4, "two keys", on=["k", "j"], shuffle_method="tasks", broadcast=False)
# join on the index
run(L.set_index("k"), R.set_index("k"), 4, 4, "index", on=None, left_index=True, right_index=True,
    shuffle_method="tasks", broadcast=False)
# control: same resolution
run(L, R.assign(k=R.k.astype("datetime64[ns]")), 4, 4, "ns/ns", shuffle_method="tasks", broadcast=False)

# missing keys match each other in pandas, whatever the resolution
Ln = L.copy(); Ln.loc[::7, "k"] = pd.NaT
Rn = R.copy(); Rn.loc[3, "k"] = pd.NaT
run(Ln, Rn, 4, 4, "NaT ns/s", shuffle_method="tasks", broadcast=False)
run(Ln, Rn, 4, 4, "NaT ns/s", how="left", shuffle_method="tasks", broadcast=False)
# dates that nanoseconds cannot represent (same resolution on both sides)
far = pd.DatetimeIndex(np.datetime64("3000-01-01", "s") + np.arange(n).astype("timedelta64[s]"))
run(L.assign(k=far), R.assign(k=far), 4, 4, "s/s year 3000", shuffle_method="tasks", broadcast=False)

for b in bad:
    print("DEFECT:", b)
sys.exit(1 if bad else 0)
