import sys
import dask
import pandas as pd
import dask_expr as dx

dask.config.set(scheduler="sync")
bad = []


def check(tag, pexpected, dexpr):
    for label, coll in (("plain", dexpr), ("optimized", dexpr.optimize())):
        meta = coll._meta
        try:
            got = coll.compute()
        except Exception as e:  # noqa
            bad.append(f"{tag}/{label}: raised {type(e).__name__}: {e}")
            continue
        try:
            if isinstance(pexpected, pd.Series):
                assert isinstance(got, pd.Series), type(got)
                assert meta.name == got.name == pexpected.name, (
                    meta.name, got.name, pexpected.name)
                assert meta.dtype == got.dtype, (meta.dtype, got.dtype)
                pd.testing.assert_series_equal(
                    got.reset_index(drop=True), pexpected.reset_index(drop=True)
                )
            else:
                assert list(meta.columns) == list(got.columns) == list(pexpected.columns)
                pd.testing.assert_frame_equal(
                    got.reset_index(drop=True), pexpected.reset_index(drop=True)
                )
        except AssertionError as e:
            bad.append(f"{tag}/{label}: {e}")


pdf = pd.DataFrame({"a": [1, 2, 3, 4, 5, 6], "b": list("xyzxyz")},
                   index=[10, 11, 12, 13, 14, 15])
df = dx.from_pandas(pdf, npartitions=2)

# Series named 'index': pandas calls the index column 'level_0'
ps = pdf.a.rename("index")
s = df.a.rename("index")
check("level_0", ps.reset_index()["level_0"], s.reset_index()["level_0"])
check("index", ps.reset_index()["index"], s.reset_index()["index"])
check("frame", ps.reset_index(), s.reset_index())

# named index, Series of another name
pdf2 = pdf.rename_axis("idx")
df2 = dx.from_pandas(pdf2, npartitions=2)
check("idx", pdf2.a.reset_index()["idx"], df2.a.reset_index()["idx"])
check("a", pdf2.a.reset_index()["a"], df2.a.reset_index()["a"])
# plain
check("plain-index", pdf.a.reset_index()["index"], df.a.reset_index()["index"])
check("plain-a", pdf.a.reset_index()["a"], df.a.reset_index()["a"])
# an unnamed Series ends up in column 0
check("unnamed-0", pdf.a.rename(None).reset_index()[0], df.a.rename(None).reset_index()[0])
check("unnamed-index", pdf.a.rename(None).reset_index()["index"],
      df.a.rename(None).reset_index()["index"])

for b in bad:
    print("DEFECT:", b)
sys.exit(1 if bad else 0)
