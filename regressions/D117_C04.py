"""I5: selecting a tuple label (MultiIndex column) of an operation on a groupby.agg result."""
import sys

import dask
import numpy as np
import pandas as pd

import dask_expr

dask.config.set(scheduler="sync")

pdf = pd.DataFrame(
    {
        "a": [1, 2, 1, 2, 3, 3, 1, 2],
        "b": [1.0, 2.0, 3.4, 2.0, 5.0, 6.6, 2.5, 8.0],
        "c": [8.0, 7.0, 1.0, 5.0, 4.0, 3.0, 2.0, 0.0],
    }
)
df = dask_expr.from_pandas(pdf, npartitions=3)
spec = {"b": ["sum", "mean"], "c": ["max"]}

mi = pd.DataFrame(
    np.arange(24.0).reshape(6, 4),
    columns=pd.MultiIndex.from_tuples(
        [("b", "sum"), ("b", "mean"), ("c", "max"), ("d", "x")]
    ),
)
dmi = dask_expr.from_pandas(mi, npartitions=2)

cases = {
    "from_pandas[tuple]": lambda d: (dmi if d is df else mi)[("b", "sum")],
    "from_pandas.abs()[tuple]": lambda d: (dmi if d is df else mi).abs()[("c", "max")],
    "from_pandas.cumsum()[tuple]": lambda d: (dmi if d is df else mi).cumsum()[
        ("b", "mean")
    ],
    "from_pandas[filter][tuple]": lambda d: (
        lambda x: x[x[("c", "max")] > 5][("b", "mean")]
    )(dmi if d is df else mi),
    "(g + 1)[tuple]": lambda d: (d.groupby("a").agg(spec) + 1)[("b", "sum")],
    "(g + g)[tuple]": lambda d: (d.groupby("a").agg(spec) + d.groupby("a").agg(spec))[
        ("b", "mean")
    ],
    "(g + 1)[[tuple]]": lambda d: (d.groupby("a").agg(spec) + 1)[[("b", "sum")]],
    "(g + 1)[[tuple, tuple]]": lambda d: (d.groupby("a").agg(spec) + 1)[
        [("c", "max"), ("b", "sum")]
    ],
    "g[tuple]": lambda d: d.groupby("a").agg(spec)[("b", "sum")],
    "g.abs()[tuple]": lambda d: d.groupby("a").agg(spec).abs()[("b", "sum")],
    "g.fillna(0)[tuple]": lambda d: d.groupby("a").agg(spec).fillna(0)[("c", "max")],
    "g.astype(float)[tuple]": lambda d: d.groupby("a").agg(spec).astype(float)[("c", "max")],
    "(g > 1)[tuple]": lambda d: (d.groupby("a").agg(spec) > 1)[("c", "max")],
    "g.add(1)[tuple]": lambda d: d.groupby("a").agg(spec).add(1)[("c", "max")],
    "g.assign[tuple]": lambda d: d.groupby("a").agg(spec).assign(z=1)[("c", "max")],
}

bad = 0
for name, f in cases.items():
    expected = f(pdf)
    try:
        got = f(df).compute()
        if isinstance(expected, pd.Series):
            pd.testing.assert_series_equal(got.sort_index(), expected.sort_index())
        else:
            pd.testing.assert_frame_equal(got.sort_index(), expected.sort_index())
    except Exception as e:
        bad += 1
        print(f"FAIL [{name}]: {type(e).__name__}: {str(e)[:200]}")

print("failures:", bad)
sys.exit(1 if bad else 0)
