import sys
import dask
import numpy as np
import pandas as pd
from dask_expr import from_pandas

dask.config.set(scheduler="sync")
bad = []


def same(a, b):
    return len(a) == len(b) and all(
        (x == y) or (x != x and y != y) for x, y in zip(a, b)
    )


def check(p, nparts, **kw):
    d = from_pandas(p, npartitions=nparts, sort=False)
    exp = p.sort_values("a", **kw).a.tolist()
    for k in (None, 1, 2, 3):
        kk = {} if k is None else {"npartitions": k}
        for name, res in (
            ("plain", d.sort_values("a", **kw, **kk)),
            ("mp", d.sort_values("a", **kw, **kk).map_partitions(lambda x: x)),
        ):
            got = res.compute().a.tolist()
            if not same(got, exp):
                bad.append((name, nparts, k, kw, got, exp))


p = pd.DataFrame({"a": [1, np.nan, 2, 2.5, 3, 4, 5, 6.0]})
check(p, 2)
check(p, 2, na_position="first")
check(p, 2, ascending=False)
check(p, 4)
p2 = pd.DataFrame({"a": [1, 2, 3, 4, 5, 6, np.nan, np.nan]})
check(p2, 2)
check(p2, 2, na_position="first")
p3 = pd.DataFrame({"a": [1.0, 2, 3, 4, 5, 6, 7, 8]})
check(p3, 2)
# presorted data without NaN keeps the blockwise plan
d = from_pandas(p3, npartitions=2, sort=False)
names = {type(e).__name__ for e in d.sort_values("a").optimize(fuse=False).expr.walk()}
if any("Shuffle" in n for n in names):
    bad.append(("presorted frame is shuffled", names))

if bad:
    for b in bad:
        print("BAD", b)
    sys.exit(1)
print("ok")
