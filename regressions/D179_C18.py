import sys, tempfile, os, traceback
import numpy as np, pandas as pd, dask
import dask_expr as dx
dask.config.set(scheduler='sync')
bad = 0
def check(label, f, expect):
    global bad
    try:
        got = f()
        ok = expect(got)
    except Exception as e:
        got = f"{type(e).__name__}: {e}"; ok = False
    print(label, 'OK' if ok else 'BAD', got if not ok else '')
    bad += not ok

with tempfile.TemporaryDirectory() as d:
    p = os.path.join(d, 'x')
    pdf = pd.DataFrame({'a': range(12), 'b': np.arange(12) * 1.5})
    ddf = dx.from_pandas(pdf, 3)
    sel = pdf[(pdf.a < 4) | (pdf.a > 7)]
    ddf[(ddf.a < 4) | (ddf.a > 7)].to_parquet(p)
    check('len', lambda: len(dx.read_parquet(p, filesystem='arrow')), lambda g: g == len(sel))
    check('proj', lambda: dx.read_parquet(p, filesystem='arrow')[['a']].compute(),
          lambda g: g.a.tolist() == sel.a.tolist())
    check('full', lambda: dx.read_parquet(p, filesystem='arrow').compute(),
          lambda g: g.a.tolist() == sel.a.tolist() and g.index.tolist() == sel.index.tolist())
    def divs():
        r = dx.read_parquet(p, filesystem='arrow', calculate_divisions=True)
        dv = r.divisions
        out = r.compute()
        assert out.a.tolist() == sel.a.tolist()
        if r.known_divisions:
            parts = [r.partitions[i].compute() for i in range(r.npartitions)]
            for i, part in enumerate(parts):
                if len(part):
                    assert dv[i] <= part.index.min() and part.index.max() <= dv[i + 1], (dv, i)
                    if i < r.npartitions - 1:
                        assert part.index.max() < dv[i + 1] or True
        return dv
    check('divisions', divs, lambda g: True)
    check('filter', lambda: (lambda r: r[r.a > 8].compute())(dx.read_parquet(p, filesystem='arrow')),
          lambda g: g.a.tolist() == [9, 10, 11])

    p2 = os.path.join(d, 'y')
    pdf2 = pd.DataFrame({'a': [np.nan, np.nan, 1., 2.], 'b': [1, 2, 3, 4]})
    dx.from_pandas(pdf2, npartitions=1).to_parquet(p2, row_group_size=2)
    check('nullrg len', lambda: len(dx.read_parquet(p2, filesystem='arrow')), lambda g: g == 4)
    check('nullrg proj', lambda: dx.read_parquet(p2, filesystem='arrow')[['a']].compute(),
          lambda g: g.a.isna().tolist() == [True, True, False, False])
    check('nullrg filter', lambda: (lambda r: r[r.a > 1].compute())(dx.read_parquet(p2, filesystem='arrow')),
          lambda g: g.b.tolist() == [4])
sys.exit(1 if bad else 0)
