import sys
import tempfile
import dask
import numpy as np
import pandas as pd
import dask_expr as dx

dask.config.set(scheduler="sync")
nan = np.nan
bad = 0


def check(name, build, exp):
    global bad
    try:
        q = build()
        got = q.compute()
        (pd.testing.assert_series_equal if exp.ndim == 1 else pd.testing.assert_frame_equal)(
            got.sort_index(), exp.sort_index(), check_index_type=False
        )
    except Exception as e:
        bad += 1
        print("FAIL", name, type(e).__name__, e)


pdf2 = pd.DataFrame({"a": [1, nan, 3, nan, 5, 6.0], 1: [nan, 1, 2, 3, nan, 9.0]})
df2 = dx.from_pandas(pdf2, 3)
check("dropna mixed 'a'", lambda: df2.dropna(subset=["a"])["a"], pdf2.dropna(subset=["a"])["a"])
check("dropna mixed 1", lambda: df2.dropna(subset=[1])[1], pdf2.dropna(subset=[1])[1])

# integer labels only
pdf3 = pd.DataFrame({0: [1, nan, 3, nan, 5, 6.0], 1: [nan, 1, 2, 3, nan, 9.0]})
df3 = dx.from_pandas(pdf3, 3)
check("dropna int", lambda: df3.dropna(subset=[0])[0], pdf3.dropna(subset=[0])[0])
check(
    "combine_first int",
    lambda: df3.combine_first(df3 + 1)[0],
    pdf3.combine_first(pdf3 + 1)[0],
)
check(
    "combine_first mixed",
    lambda: df2.combine_first(df2 + 1)["a"],
    pdf2.combine_first(pdf2 + 1)["a"],
)
pdf4 = pd.DataFrame({0: [1, 1, 2, 2, 3, 3], 1: range(6)})
df4 = dx.from_pandas(pdf4, 1)
check(
    "drop_duplicates int",
    lambda: df4.drop_duplicates(subset=[0])[0],
    pdf4.drop_duplicates(subset=[0])[0],
)
pdf5 = pd.DataFrame({"a": [1, 1, 2, 2, 3, 3], 1: range(6)})
df5 = dx.from_pandas(pdf5, 1)
check(
    "drop_duplicates mixed",
    lambda: df5.drop_duplicates(subset=["a"])["a"],
    pdf5.drop_duplicates(subset=["a"])["a"],
)
check(
    "set_index drop=False int",
    lambda: dx.from_pandas(pdf4, 2).set_index(0, drop=False, sorted=True, divisions=[1, 2, 3])[0],
    pdf4.set_index(0, drop=False)[0],
)
check(
    "set_index drop=False mixed",
    lambda: dx.from_pandas(pdf5, 2).set_index("a", drop=False, sorted=True, divisions=[1, 2, 3])["a"],
    pdf5.set_index("a", drop=False)["a"],
)

# substring: the projection 'ab' must not keep 'a' and 'b' alive below dropna
from dask_expr.io import FromPandas

pdf6 = pd.DataFrame({"a": [1.0, nan], "b": [1.0, 2], "ab": [nan, 3.0]})
q = dx.from_pandas(pdf6, 2).dropna(subset=["ab"])["ab"]
cols = sorted({c for e in q.optimize(fuse=False).expr.walk() if isinstance(e, FromPandas) for c in list(e.columns)})
if cols != ["ab"]:
    bad += 1
    print("FAIL dropna pruning reads", cols)

# parquet: the index together with one column whose name contains the other names
with tempfile.TemporaryDirectory() as d:
    pdf7 = pd.DataFrame({"a": range(6), "ab": range(6), "b": range(6)})
    dx.from_pandas(pdf7, 2).to_parquet(d)
    r = dx.read_parquet(d)
    try:
        q = r.index.to_series().reset_index(drop=True) + r["ab"].reset_index(drop=True)
        exp = pd.Series(range(6)) * 2
        pd.testing.assert_series_equal(q.compute().reset_index(drop=True), exp, check_names=False)
        from dask_expr.io.parquet import ReadParquet

        reads = {e._name: list(e.columns) for e in q.simplify().expr.walk() if isinstance(e, ReadParquet)}
        if list(reads.values()) != [["ab"]]:
            bad += 1
            print("FAIL parquet index + column: reads", list(reads.values()))
    except Exception as e:
        bad += 1
        print("FAIL parquet", type(e).__name__, e)
sys.exit(1 if bad else 0)
