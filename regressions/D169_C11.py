import sys
import warnings
import dask
import pandas as pd
from dask_expr import from_pandas

dask.config.set(scheduler="sync")
warnings.simplefilter("ignore")
bad = []

pdf = pd.DataFrame({"a": range(12)}, index=range(100, 112))
df = from_pandas(pdf, npartitions=4)

cases = {
    "index.map_partitions": df.index.map_partitions(lambda i: i + 1),
    "frame.map_partitions -> index": df.map_partitions(lambda d: d.index, meta=pdf.index[:0]),
    "plain index": df.index,
    "series (control)": df.a.map_partitions(lambda s: s + 1),
}
for name, ix in cases.items():
    parts = [ix.partitions[i].compute() for i in range(ix.npartitions)]
    full = ix.compute()
    for n in (0, 1, 2, 3, 5):
        got = ix.tail(n)
        exp = parts[-1][len(parts[-1]) - min(n, len(parts[-1])):]
        if list(got) != list(exp):
            bad.append((name, "tail", n, list(got), list(exp)))
    for n in (0, 2, 4, 7, -1, -2):
        for k in (1, 2, 3, 4, -1):
            sel = parts if k == -1 else parts[:k]
            cat = sel[0]
            for p in sel[1:]:
                cat = cat.append(p) if isinstance(cat, pd.Index) else pd.concat([cat, p])
            exp = cat[: n if n >= 0 else len(cat) + n]
            got = ix.head(n, npartitions=k)
            if list(got) != list(exp):
                bad.append((name, "head", n, k, list(got), list(exp)))

if bad:
    for b in bad:
        print("BAD", b)
    sys.exit(1)
print("ok")
