import sys
import dask, pandas as pd, numpy as np
import dask_expr
dask.config.set(scheduler="sync")
pdf = pd.DataFrame({"a": [1, 2, 3] * 4, "g": [1, 1, 2, 2] * 3, "b": np.arange(12) * 2.0,
                    "c": np.arange(12.0) % 5, "d": np.arange(12)[::-1]})
df = dask_expr.from_pandas(pdf, npartitions=3)
fails = 0
def check(label, f, sort=True):
    global fails
    try:
        exp = f(pdf)
        got = f(df).compute()
        if sort:
            got = got.sort_index(); exp = exp.sort_index()
        if isinstance(exp, pd.Series):
            pd.testing.assert_series_equal(got, exp)
        else:
            pd.testing.assert_frame_equal(got, exp)
        print("ok  ", label)
    except Exception as e:
        fails += 1
        print("FAIL", label, type(e).__name__, str(e)[:200])
for m in ["sum", "min", "max", "count", "first", "last", "prod", "mean", "var", "std", "median"]:
    check(f"groupby(a)[[b,c]].{m}()[b]", lambda d, m=m: getattr(d.groupby("a")[["b", "c"]], m)()["b"])
    check(f"groupby(a)[[b,c,d]].{m}()[[d,b]]", lambda d, m=m: getattr(d.groupby("a")[["b", "c", "d"]], m)()[["d", "b"]])
    check(f"groupby([a,g])[[c,b]].{m}()[[b]]", lambda d, m=m: getattr(d.groupby(["a", "g"])[["c", "b"]], m)()[["b"]])
check("agg sum [b]", lambda d: d.groupby("a")[["b", "c"]].agg("sum")["b"])
check("agg [sum,mean] [b]", lambda d: d.groupby("a")[["b", "c"]].agg(["sum", "mean"])["b"])
check("agg dict [b]", lambda d: d.groupby("a")[["b", "c"]].agg({"b": "sum", "c": "mean"})["b"])
for m in ["cumsum", "cumprod", "cumcount", "ffill", "bfill", "shift"]:
    if m == "cumcount":
        continue
    check(f"groupby(a)[[b,c]].{m}()[b]", lambda d, m=m: getattr(d.groupby("a")[["b", "c"]], m)()["b"])
check("head", lambda d: d.groupby("a")[["b", "c"]].head(1)["b"])
check("apply", lambda d: d.groupby("a")[["b", "c"]].apply(lambda x: x + 1, meta={"b": "f8", "c": "f8"})["b"] if hasattr(d, "dask") else d.groupby("a")[["b", "c"]].apply(lambda x: x + 1)["b"])
check("transform", lambda d: d.groupby("a")[["b", "c"]].transform(lambda x: x + 1, meta={"b": "f8", "c": "f8"})["b"] if hasattr(d, "dask") else d.groupby("a")[["b", "c"]].transform(lambda x: x + 1)["b"])
# idxmin/idxmax are wrong across partitions independently of projection (separate
# defect), so compare with the full result computed first and selected afterwards
def check_full(label, full, sel):
    global fails
    try:
        exp = sel(full(df).compute())
        got = sel(full(df)).compute()
        (pd.testing.assert_series_equal if isinstance(exp, pd.Series) else pd.testing.assert_frame_equal)(
            got.sort_index(), exp.sort_index())
        print("ok  ", label)
    except Exception as e:
        fails += 1
        print("FAIL", label, type(e).__name__, str(e)[:200])
for m in ["idxmin", "idxmax", "tail"]:
    kw = (1,) if m == "tail" else ()
    check_full(f"{m} [b]", lambda d, m=m: getattr(d.groupby("a")[["b", "c"]], m)(*kw), lambda r: r["b"])
    check_full(f"{m} [[d,b]]", lambda d, m=m: getattr(d.groupby("a")[["b", "c", "d"]], m)(*kw), lambda r: r[["d", "b"]])
sys.exit(1 if fails else 0)
