import sys
import numpy as np, pandas as pd, dask
import dask_expr
from dask_expr import from_pandas
dask.config.set(scheduler="sync")

pdf = pd.DataFrame({"a": range(20)})
big = from_pandas(pdf, npartitions=5)
ts = pd.DataFrame({"a": range(40)}, index=pd.date_range("2000-01-01", periods=40, freq="D"))
dts = from_pandas(ts, npartitions=5)

fails = []
def check(name, q, selections=None):
    """every selection of partitions of q equals the same partitions of the
    fully computed collection (computed without optimizing the selection)"""
    try:
        n = q.npartitions
        # reference partitions: full graph of q, unoptimized selection
        opt = q.optimize(fuse=False)
        g = opt.__dask_graph__()
        ref = [dask.get(g, (opt._name, i)) for i in range(n)]
        assert len(pd.concat(ref)) == len(q.compute())
        sels = [[i] for i in range(n)] + (selections or [])
        for sel in sels:
            if max(sel) >= n:
                continue
            expected = pd.concat([ref[i] for i in sel])
            for fuse in (True, False):
                got = q.partitions[sel].compute(fuse=fuse)
                assert got.index.tolist() == expected.index.tolist(), (sel, fuse, got.index.tolist(), expected.index.tolist())
                assert got.equals(expected), (sel, fuse)
            sub = q.partitions[sel]
            assert sub.npartitions == len(sel)
            if sel == sorted(set(sel)) and sub.known_divisions:
                # divisions of the selection bound the partitions
                for i, part in enumerate(d.compute() for d in sub.to_delayed()):
                    if len(part):
                        assert sub.divisions[i] <= part.index.min(), (sel, sub.divisions)
                        assert part.index.max() <= sub.divisions[i + 1], (sel, sub.divisions)
        for i in range(n):
            got = q.get_partition(i).compute()
            assert got.equals(ref[i]), ("get_partition", i)
            assert q.to_delayed()[i].compute().equals(ref[i]), ("to_delayed", i)
    except Exception as e:
        fails.append(name)
        print("FAIL", name, type(e).__name__, str(e)[:200])
    else:
        print("ok  ", name)

extra = [[0, 1], [1, 2], [0, 2], [2, 0], [1, 1], [2, 1, 0]]
check("loc[6:14]", big.loc[6:14], extra)
check("loc[6:]", big.loc[6:], extra)
check("loc[:14]", big.loc[:14], extra)
check("loc[9:10]", big.loc[9:10], extra)
check("loc[6:14]+1", big.loc[6:14] + 1, extra)
check("loc[6:14, ['a']]", big.loc[6:14, ["a"]], extra)
check("loc[[5, 13, 18, 19]]", big.loc[[5, 13, 18, 19]], extra)
check("loc[[13, 5, 19]] * 2", big.loc[[13, 5, 19]] * 2, extra)
check("loc[13]", big.loc[13], extra)
check("(big + 1).loc[6:14]", (big + 1).loc[6:14], extra)
check("ts loc", dts.loc["2000-01-12":"2000-01-30"], extra)
check("loc of loc", big.loc[3:18].loc[6:14], extra)
sys.exit(1 if fails else 0)
