"""M4: DataFrame.cov / corr (and Series.cov / corr) ignore min_periods."""
import sys
import warnings

warnings.simplefilter("ignore")
import numpy as np
import pandas as pd
import dask
import dask_expr as dx

dask.config.set(scheduler="sync")
bad = []
pdf = pd.DataFrame(
    {
        "a": [1.0, 2, 3, 4, 5, 6, 7, 8],
        "b": [2.0, 1, 4, 3, 6, 9, np.nan, np.nan],
        "c": [np.nan, np.nan, np.nan, 1.0, 5.0, 2.0, 8.0, np.nan],
    }
)


def same(got, exp):
    if np.isscalar(exp) or np.isscalar(got):
        return (np.isnan(got) and np.isnan(exp)) or np.isclose(got, exp)
    return got.shape == exp.shape and np.allclose(got.values, exp.values, equal_nan=True)


for k in (1, 2, 3):
    ddf = dx.from_pandas(pdf, npartitions=k)
    for mp in (None, 2, 4, 5, 7, 10):
        for split_every in (False, 2):
            for meth in ("cov", "corr"):
                exp = getattr(pdf, meth)(min_periods=mp)
                got = getattr(ddf, meth)(min_periods=mp, split_every=split_every).compute()
                if not same(got, exp):
                    bad.append((f"DataFrame.{meth}", k, mp, split_every, got.values.tolist(), exp.values.tolist()))
                exp = getattr(pdf.a, meth)(pdf.b, min_periods=mp)
                got = getattr(ddf.a, meth)(ddf.b, min_periods=mp, split_every=split_every).compute()
                if not same(got, exp):
                    bad.append((f"Series.{meth}", k, mp, split_every, got, exp))

for b in bad:
    print("MISMATCH", b)
print("M4", "DEFECT PRESENT" if bad else "ok")
sys.exit(1 if bad else 0)
