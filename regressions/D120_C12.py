import sys
import numpy as np, pandas as pd, dask
from dask_expr import from_pandas

dask.config.set(scheduler="sync")
bad = []


def norm(df):
    df = df.copy()
    for c in df.columns:
        if isinstance(df[c].dtype, pd.CategoricalDtype):
            df[c] = df[c].astype(df[c].cat.categories.dtype)
    return df.sort_values(list(df.columns)).reset_index(drop=True)


def check(L, R, on, how, tag, **kw):
    l = from_pandas(L, npartitions=8)
    r = from_pandas(R, npartitions=2)
    got = l.merge(r, on=on, how=how, broadcast=True, shuffle_method="tasks", **kw).compute()
    if how == "leftsemi":
        exp = L[L[on].isin(R[on])] if isinstance(on, str) else None
    else:
        exp = L.merge(R, on=on, how=how)
    g, e = norm(got), norm(exp)
    if len(g) != len(e) or not (g[e.columns].astype(object).fillna(-1).values == e.astype(object).fillna(-1).values).all():
        nn = int(got["w"].isna().sum()) if "w" in got else None
        bad.append(f"{tag} how={how}: {len(got)} rows (expected {len(exp)}), NaN w: {nn}")


n = 64
L = pd.DataFrame({"k": pd.Categorical(np.arange(n) % 8), "v": np.arange(n)})
R = pd.DataFrame({"k": pd.Categorical(np.arange(8)), "w": np.arange(8) * 10})
for how in ["left", "leftsemi", "inner"]:
    check(L, R, "k", how, "categorical[int64]")
# right join broadcasts the left side: swap sizes
l = from_pandas(R, npartitions=2)
r = from_pandas(L, npartitions=8)
got = l.merge(r, on="k", how="right", broadcast=True, shuffle_method="tasks").compute()
if got["w"].isna().sum() or len(got) != n:
    bad.append(f"categorical[int64] how=right: {len(got)} rows, NaN w {int(got['w'].isna().sum())}")

# float categories, and categories in a different order on the two sides
Lf = pd.DataFrame({"k": pd.Categorical((np.arange(n) % 8) * 0.5), "v": np.arange(n)})
Rf = pd.DataFrame({"k": pd.Categorical(np.arange(8) * 0.5, categories=np.arange(8)[::-1] * 0.5), "w": np.arange(8)})
for how in ["left", "leftsemi"]:
    check(Lf, Rf, "k", how, "categorical[float64]")

# two key columns, one categorical-numeric and one plain
L2 = L.assign(j=np.arange(n) % 2)
R2 = pd.DataFrame({"k": pd.Categorical(np.arange(16) % 8), "j": np.arange(16) // 8, "w": np.arange(16)})
check(L2, R2, ["k", "j"], "left", "categorical[int64]+int")

# controls that already worked: plain ints, string categories
check(L.assign(k=L.k.astype("int64")), R.assign(k=R.k.astype("int64")), "k", "left", "int64")
Ls = pd.DataFrame({"k": pd.Categorical(list("abcdefgh") * 8), "v": np.arange(n)})
Rs = pd.DataFrame({"k": pd.Categorical(list("abcdefgh")), "w": np.arange(8)})
check(Ls, Rs, "k", "left", "categorical[str]")

for b in bad:
    print("DEFECT:", b)
sys.exit(1 if bad else 0)
