import sys
import dask, pandas as pd, numpy as np
import dask_expr
dask.config.set(scheduler="sync")
rng = np.random.default_rng(0)
pdf = pd.DataFrame({"a": rng.integers(0, 3, 30), "b": rng.normal(size=30), "c": rng.normal(size=30),
                    "d": rng.normal(size=30)})
df = dask_expr.from_pandas(pdf, npartitions=3)
fails = 0
def check(label, f):
    global fails
    try:
        exp = f(pdf)
        got = f(df).compute()
        (pd.testing.assert_series_equal if isinstance(exp, pd.Series) else pd.testing.assert_frame_equal)(
            got.sort_index(), exp.sort_index())
        print("ok  ", label)
    except Exception as e:
        fails += 1
        print("FAIL", label, type(e).__name__, str(e)[:150].replace("\n", " "))
for m in ["cov", "corr"]:
    check(f"df[[a,b,c]].{m}()[a]", lambda d, m=m: getattr(d[["a", "b", "c"]], m)()["a"])
    check(f"df.{m}()[[b,c]]", lambda d, m=m: getattr(d, m)()[["b", "c"]])
    check(f"df.{m}()", lambda d, m=m: getattr(d, m)())
    check(f"groupby(a).{m}()[b]", lambda d, m=m: getattr(d.groupby("a"), m)()["b"])
    check(f"groupby(a).{m}()[[c,b]]", lambda d, m=m: getattr(d.groupby("a"), m)()[["c", "b"]])
    check(f"groupby(a)[[b,c,d]].{m}()[[c]]", lambda d, m=m: getattr(d.groupby("a")[["b", "c", "d"]], m)()[["c"]])
    check(f"groupby(a).{m}()", lambda d, m=m: getattr(d.groupby("a"), m)())
check("rolling(3).cov()[a]", lambda d: d[["a", "b", "c"]].rolling(3).cov()["a"])
check("rolling(3).cov()[[b,c]]", lambda d: d.rolling(3).cov()[["b", "c"]])
check("rolling(3).cov()", lambda d: d.rolling(3).cov())
check("groupby(a).b.cov", lambda d: d.groupby("a")[["b", "c"]].cov())
sys.exit(1 if fails else 0)
