import sys
import os
sys.path.insert(0, os.path.dirname(os.path.abspath(__file__)))
import pandas as pd
import fixV_common as common  # noqa: F401
from dask_expr import from_pandas

rc = 0


def describe(obj):
    if obj.ndim == 2:
        return (type(obj).__name__, [str(c) for c in obj.columns], [str(t) for t in obj.dtypes],
                list(obj.columns.names), list(obj.index.names))
    return (type(obj).__name__, str(obj.name), str(obj.dtype), list(obj.index.names))


def check(name, q, expected):
    global rc
    try:
        states = {
            "declared": describe(q._meta),
            "optimized": describe(q.optimize()._meta),
            "optimized(fuse=False)": describe(q.optimize(fuse=False)._meta),
            "lowered": describe(q.expr.lower_completely()._meta),
            "computed": describe(q.compute()),
            "pandas": describe(expected),
        }
    except Exception as e:
        print(name, "raises", type(e).__name__, e)
        rc = 1
        return
    ok = len({repr(v) for v in states.values()}) == 1
    print(name, "OK" if ok else "MISMATCH")
    if not ok:
        for k, v in states.items():
            print("    ", k, v)
        rc = 1


pdf = pd.DataFrame({"a": range(10), "b": range(10, 20)})
for npart in (1, 3):
    d = from_pandas(pdf, npartitions=npart)
    check(f"rolling sum np={npart}", d.rolling(2).sum(), pdf.rolling(2).sum())
    check(f"rolling count np={npart}", d.rolling(2).count(), pdf.rolling(2).count())
    check(f"rolling agg list np={npart}", d.rolling(2).agg(["sum", "mean"]), pdf.rolling(2).agg(["sum", "mean"]))
    check(f"rolling series agg list np={npart}", d.a.rolling(2).agg(["sum", "mean"]), pdf.a.rolling(2).agg(["sum", "mean"]))
    check(f"rolling window=1 np={npart}", d.rolling(1).mean(), pdf.rolling(1).mean())
    check(f"rolling max np={npart}", d.rolling(2).max(), pdf.rolling(2).max())
    g = pdf.assign(k=[0, 1] * 5)
    check(f"groupby rolling np={npart}", from_pandas(g, npartitions=npart).groupby("k").rolling(2).sum(),
          g.groupby("k").rolling(2).sum())

pts = pd.DataFrame({"a": range(12), "b": range(12, 24)}, index=pd.date_range("2000-01-01", periods=12, freq="D"))
for npart in (1, 3):
    dts = from_pandas(pts, npartitions=npart)
    check(f"resample mean np={npart}", dts.resample("2D").mean(), pts.resample("2D").mean())
    check(f"resample sum np={npart}", dts.resample("2D").sum(), pts.resample("2D").sum())
    check(f"resample count series np={npart}", dts.a.resample("2D").count(), pts.a.resample("2D").count())
    check(f"resample ohlc np={npart}", dts.resample("2D").ohlc(), pts.resample("2D").ohlc())
    check(f"resample series ohlc np={npart}", dts.a.resample("2D").ohlc(), pts.a.resample("2D").ohlc())
    check(f"resample series agg np={npart}", dts.a.resample("2D").agg(["sum", "mean"]), pts.a.resample("2D").agg(["sum", "mean"]))
    check(f"resample frame agg np={npart}", dts.resample("2D").agg(["sum", "mean"]), pts.resample("2D").agg(["sum", "mean"]))
    check(f"resample size np={npart}", dts.resample("2D").size(), pts.resample("2D").size())
sys.exit(rc)
