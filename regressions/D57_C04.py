import sys
import dask, pandas as pd, numpy as np
import dask_expr
dask.config.set(scheduler="sync")
rng = np.random.default_rng(0)
pdf = pd.DataFrame({"a": rng.permutation(12), "b": rng.permutation(12) * 1.5,
                    "c": rng.permutation(12), "d": rng.permutation(12) / 4})
df = dask_expr.from_pandas(pdf, npartitions=3)
pdfi = pdf.rename(columns={"a": 0, "b": 1, "c": 2, "d": 3})
dfi = dask_expr.from_pandas(pdfi, npartitions=3)
fails = 0
def check(label, f, g=None, frames=(pdf, df)):
    global fails
    try:
        exp = f(frames[0])
        got = (g or f)(frames[1]).compute()
        (pd.testing.assert_series_equal if isinstance(exp, pd.Series) else pd.testing.assert_frame_equal)(got, exp)
        print("ok  ", label)
    except Exception as e:
        fails += 1
        print("FAIL", label, type(e).__name__, str(e)[:200])
check("nlargest(3,b)[a]", lambda d: d.nlargest(3, "b")["a"])
check("nlargest(3,b)[[a,c]]", lambda d: d.nlargest(3, "b")[["a", "c"]])
check("nlargest(3,[b,c])[[a]]", lambda d: d.nlargest(3, ["b", "c"])[["a"]])
check("nlargest(3,b)[b]", lambda d: d.nlargest(3, "b")["b"])
check("nsmallest(3,b)[a]", lambda d: d.nsmallest(3, "b")["a"])
check("nsmallest(3,[c,b])[[d,a]]", lambda d: d.nsmallest(3, ["c", "b"])[["d", "a"]])
check("int labels nlargest(3,1)[0]", lambda d: d.nlargest(3, 1)[0], frames=(pdfi, dfi))
check("int labels nlargest(3,1)[[0,2]]", lambda d: d.nlargest(3, 1)[[0, 2]], frames=(pdfi, dfi))
check("sort_values(b).head(3)[a]", lambda d: d.sort_values("b").head(3)["a"],
      lambda d: d.sort_values("b").head(3, compute=False)["a"])
check("sort_values(b).tail(3)[[a]]", lambda d: d.sort_values("b").tail(3)[["a"]],
      lambda d: d.sort_values("b").tail(3, compute=False)[["a"]])
check("sort_values([c,b],desc).head(3)[[d]]", lambda d: d.sort_values(["c", "b"], ascending=False).head(3)[["d"]],
      lambda d: d.sort_values(["c", "b"], ascending=False).head(3, compute=False)[["d"]])
check("set_index(b).head(3)[a]", lambda d: d.set_index("b").sort_index().head(3)["a"],
      lambda d: d.set_index("b").head(3, compute=False)["a"])
check("set_index(b).tail(3)[[a,c]]", lambda d: d.set_index("b").sort_index().tail(3)[["a", "c"]],
      lambda d: d.set_index("b").tail(3, compute=False)[["a", "c"]])
check("series nlargest", lambda d: d["b"].nlargest(3))
sys.exit(1 if fails else 0)
