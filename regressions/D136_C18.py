"""O4: arrow reader ignores `_series` (columns='a' must give a Series)."""
import os
import sys
import tempfile

import dask
import pandas as pd

import dask_expr as dx

dask.config.set(scheduler="sync")
d = tempfile.mkdtemp()
p = os.path.join(d, "ds.parquet")
pdf = pd.DataFrame({"a": range(40), "b": list(range(8)) * 5, "c": list("abcd") * 10})
dx.from_pandas(pdf, npartitions=2).to_parquet(p)

fail = 0
for fs in ["arrow", "fsspec"]:
    s = dx.read_parquet(p, filesystem=fs, columns="a")
    if not isinstance(s._meta, pd.Series):
        print("FAIL meta", fs, type(s._meta))
        fail = 1
    for name, q, e in [
        ("plain", s, pdf.a),
        ("opt", s.optimize(), pdf.a),
        ("arith", s + 1, pdf.a + 1),
        ("sum", s.sum(), pdf.a.sum()),
        ("part0", s.partitions[0], pdf.a.iloc[:20]),
        ("filter", s[s > 3], pdf.a[pdf.a > 3]),
    ]:
        try:
            got = q.compute()
            if isinstance(e, pd.Series):
                assert isinstance(got, pd.Series), type(got)
                pd.testing.assert_series_equal(got, e, check_dtype=False, check_index_type=False)
            else:
                assert got == e, (got, e)
        except Exception as ex:
            print("FAIL", fs, name, type(ex).__name__, str(ex)[:200])
            fail = 1
    # a fused multi-file read of a series
    df = dx.read_parquet(p, filesystem=fs)
    try:
        got = df["a"].compute()
        assert isinstance(got, pd.Series)
        pd.testing.assert_series_equal(got, pdf.a, check_dtype=False, check_index_type=False)
    except Exception as ex:
        print("FAIL", fs, "projection", type(ex).__name__, str(ex)[:200])
        fail = 1
sys.exit(fail)
