import sys
import numpy as np, pandas as pd, dask
import dask_expr as dx
dask.config.set(scheduler='sync')
bad = 0
pdf = pd.DataFrame({'a': np.arange(12.0), 'b': np.arange(12.0) * 2, 'c': np.arange(12.0) % 5})
df = dx.from_pandas(pdf, npartitions=4)

def check(tag, s, exp_s):
    global bad
    logical = s.divisions
    variants = {
        'optimize': lambda: s.optimize(),
        'lower_once': lambda: s.lower_once(),
        'persist': lambda: s.persist(),
        'legacy roundtrip': lambda: dx.from_legacy_dataframe(s.to_legacy_dataframe()),
    }
    for name, make in variants.items():
        try:
            v = make()
        except Exception as ex:
            print(tag, name, 'raises', type(ex).__name__, ex); bad += 1; continue
        if v.divisions != logical:
            print(tag, name, 'divisions', v.divisions, 'logical', logical); bad += 1
        if v.npartitions != s.npartitions:
            print(tag, name, 'npartitions', v.npartitions); bad += 1
        got = v.compute()
        try:
            pd.testing.assert_series_equal(got, exp_s, check_dtype=False, check_index_type=False)
        except AssertionError:
            print(tag, name, 'values differ'); bad += 1
        if None not in v.divisions and len(got):
            if not (got.index.min() >= v.divisions[0] and got.index.max() <= v.divisions[-1]):
                print(tag, name, 'divisions untruthful', v.divisions, list(got.index)); bad += 1

check('sum', df.sum(), pdf.sum())
check('mean', df.mean(), pdf.mean())
check('count', df.count(), pdf.count())
check('max', df[['b', 'c']].max(), pdf[['b', 'c']].max())
check('std', df.std(), pdf.std())
check('nunique', df.nunique(), pdf.nunique())

s = df.sum()
exp = pdf - pdf.sum()
for name, other in [('plain', s), ('persist', None), ('legacy', None)]:
    try:
        if name == 'persist':
            other = s.persist()
        elif name == 'legacy':
            other = dx.from_legacy_dataframe(s.to_legacy_dataframe())
        r = (df - other).compute()
        pd.testing.assert_frame_equal(r, exp)
    except Exception as ex:
        print('df - s', name, 'raises', type(ex).__name__, str(ex)[:100]); bad += 1
print('bad', bad)
sys.exit(1 if bad else 0)
