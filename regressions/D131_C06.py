import sys, traceback
import numpy as np, pandas as pd, dask
import dask_expr as dx
dask.config.set(scheduler='sync')
bad = 0

def own_parts(coll):
    e = coll.expr
    return e.divisions, list(dask.get(e.__dask_graph__(), e.__dask_keys__()))

def truthful(tag, divs, parts):
    global bad
    n = len(parts)
    if len(divs) != n + 1:
        print(tag, 'npartitions reported', len(divs) - 1, 'delivered', n); bad += 1; return
    if None in divs:
        return
    for i, p in enumerate(parts):
        if len(p):
            lo, hi = p.index.min(), p.index.max()
            if not (lo >= divs[i] and (hi <= divs[i + 1] if i == n - 1 else hi < divs[i + 1])):
                print(tag, 'partition', i, 'index', lo, '..', hi, 'outside', divs[i], divs[i + 1]); bad += 1

def check(tag, make, exp, sort_by=None):
    global bad
    try:
        r = make()
        logical = (r.npartitions, r.divisions, list(r.columns), r._meta.index.name)
        opt = r.optimize()
        if (opt.npartitions, opt.divisions) != logical[:2]:
            print(tag, 'optimized layout', opt.npartitions, opt.divisions, 'logical', logical[:2]); bad += 1
        divs, parts = own_parts(opt)
        truthful(tag, divs, parts)
        got = pd.concat(parts)
        if list(got.columns) != logical[2] or got.index.name != logical[3]:
            print(tag, 'declared columns/index', logical[2], logical[3], 'computed', list(got.columns), got.index.name); bad += 1
        if list(got.columns) != list(exp.columns) or got.index.name != exp.index.name:
            print(tag, 'pandas columns/index', list(exp.columns), exp.index.name, 'computed', list(got.columns), got.index.name); bad += 1
        else:
            if None in divs and isinstance(exp.index, pd.RangeIndex):
                # dask resets the index partition-wise
                got = got.reset_index(drop=True)
            pd.testing.assert_frame_equal(got, exp, check_dtype=False, check_index_type=False)
    except Exception as ex:
        print(tag, 'raises', type(ex).__name__, str(ex)[:300]); bad += 1
        traceback.print_exc(limit=-3)

# (A) left_on + right_index, duplicated key straddling a left partition boundary
L = pd.DataFrame({'t': [1, 2, 3, 4, 5, 5, 6, 7, 8, 9], 'v': range(10)})          # index 0..9
R = pd.DataFrame({'w': [10., 20., 30.]}, index=pd.Index([0, 5, 8], name='u'))
dl = dx.from_pandas(L, npartitions=2)     # divisions (0, 5, 9): t == 5 is in both partitions
dr = dx.from_pandas(R, npartitions=2)
assert dl.divisions == (0, 5, 9)
check('A straddle', lambda: dx.merge_asof(dl, dr, left_on='t', right_index=True),
      pd.merge_asof(L, R, left_on='t', right_index=True))
# no straddling: the divisions can be kept
L2 = pd.DataFrame({'t': [1, 2, 3, 4, 5, 6, 7, 8, 9, 10], 'v': range(10)})
dl2 = dx.from_pandas(L2, npartitions=2)
check('A plain', lambda: dx.merge_asof(dl2, dr, left_on='t', right_index=True),
      pd.merge_asof(L2, R, left_on='t', right_index=True))
r = dx.merge_asof(dl2, dr, left_on='t', right_index=True)
if r.divisions != dl2.divisions:
    print('A plain: divisions of the left frame not kept', r.divisions); bad += 1
# named left index
L3 = L.copy(); L3.index.name = 'id'
dl3 = dx.from_pandas(L3, npartitions=3)
check('A named index', lambda: dx.merge_asof(dl3, dr, left_on='t', right_index=True),
      pd.merge_asof(L3, R, left_on='t', right_index=True))

# empty left partitions are dropped by set_index(sorted=True)
L4 = pd.DataFrame({'t': range(1, 13), 'v': range(12)})
def holes():
    d = dx.from_pandas(L4, npartitions=3)
    return d[(d.t < 5) | (d.t > 8)]
P4 = L4[(L4.t < 5) | (L4.t > 8)]
check('A empty partition', lambda: dx.merge_asof(holes(), dr, left_on='t', right_index=True),
      pd.merge_asof(P4, R, left_on='t', right_index=True))
check('A empty partition right_on', lambda: dx.merge_asof(holes(), dx.from_pandas(R.reset_index(), 2), left_on='t', right_on='u'),
      pd.merge_asof(P4, R.reset_index(), left_on='t', right_on='u').reset_index(drop=True))

# (B) left_index + right_on
Lb = pd.DataFrame({'v': range(10)}, index=pd.Index([1, 2, 3, 4, 5, 6, 7, 8, 9, 10], name='t'))
Rb = pd.DataFrame({'u': [0, 5, 8], 'w': [10., 20., 30.]})
dlb = dx.from_pandas(Lb, npartitions=2)
drb = dx.from_pandas(Rb, npartitions=2)
check('B left_index right_on', lambda: dx.merge_asof(dlb, drb, left_index=True, right_on='u'),
      pd.merge_asof(Lb, Rb, left_index=True, right_on='u'))
# (C) controls: on=, left_on+right_on, both indexes
Lc = L2.copy(); Rc = pd.DataFrame({'t': [0, 5, 8], 'w': [10., 20., 30.]})
check('C on', lambda: dx.merge_asof(dx.from_pandas(Lc, 2), dx.from_pandas(Rc, 2), on='t'),
      pd.merge_asof(Lc, Rc, on='t'))
check('C left_on right_on', lambda: dx.merge_asof(dl2, drb, left_on='t', right_on='u'),
      pd.merge_asof(L2, Rb, left_on='t', right_on='u'))
check('C indexes', lambda: dx.merge_asof(dlb, dr, left_index=True, right_index=True),
      pd.merge_asof(Lb, R, left_index=True, right_index=True))
print('bad', bad)
sys.exit(1 if bad else 0)
