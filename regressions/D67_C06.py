from fixE_common import *

pdf = pd.DataFrame(
    {"x": np.arange(30) % 4, "y": np.arange(30) % 7, "z": [1.5, 2.5, 2.5] * 10, "u": np.arange(30)},
    index=np.arange(1000, 1030),
)
df = dask_expr.from_pandas(pdf, npartitions=3)

for col in ["x", "z", "u"]:
    m = df[col].mode()
    divisions_truthful(m, f"df.{col}.mode()")
    divisions_truthful(m.optimize(), f"df.{col}.mode() optimized")
    got, exp = m.compute(), pdf[col].mode()
    check(got.equals(exp), f"df.{col}.mode() equals pandas")

m = df.mode()
divisions_truthful(m, "df.mode()")
divisions_truthful(m.optimize(), "df.mode() optimized")
check(m.compute().equals(pdf.mode()), "df.mode() equals pandas")
# columns of different frames
other = dask_expr.from_pandas(pdf.set_index(pdf.index + 500), npartitions=2)
m = dask_expr.concat([df.x.mode(), other.y.mode()], axis=1)
divisions_truthful(m, "concat([df.x.mode(), other.y.mode()], axis=1)")
check(
    m.compute().equals(pd.concat([pdf.x.mode(), pdf.y.mode()], axis=1)),
    "concat of modes equals pandas",
)
finish()
