import sys
import dask, pandas as pd, numpy as np
import dask_expr
dask.config.set(scheduler="sync")
rng = np.random.default_rng(0)
pdf = pd.DataFrame({"a": rng.permutation(12) * 1.0, "b": rng.permutation(12) * 1.5,
                    "c": rng.permutation(12) * 1.0})
pdf.iloc[2, 1] = np.nan
df = dask_expr.from_pandas(pdf, npartitions=3)
fails = 0
def check(label, f):
    global fails
    try:
        exp = f(pdf)
        got = f(df).compute()
        (pd.testing.assert_series_equal if isinstance(exp, pd.Series) else pd.testing.assert_frame_equal)(got, exp)
        print("ok  ", label)
    except Exception as e:
        fails += 1
        print("FAIL", label, type(e).__name__, str(e)[:150].replace("\n", " "))
for m in ["lt", "le", "gt", "ge", "eq", "ne"]:
    check(f"{m}(df.a, axis=0)[[b]]", lambda d, m=m: getattr(d, m)(d.a, axis=0)[["b"]])
    check(f"{m}(df.a, axis=0)[b]", lambda d, m=m: getattr(d, m)(d.a, axis=0)["b"])
    check(f"{m}(df.a, axis='index')[[c,b]]", lambda d, m=m: getattr(d, m)(d.a, axis="index")[["c", "b"]])
    check(f"{m}(1, axis=1)[[b]]", lambda d, m=m: getattr(d, m)(1, axis=1)[["b"]])
    check(f"{m}(df)[[b]]", lambda d, m=m: getattr(d, m)(d, axis=1)[["b"]])
    check(f"series {m}(fill_value)", lambda d, m=m: getattr(d.b, m)(d.a, fill_value=100))
for m in ["add", "sub", "mul", "div", "truediv", "floordiv", "mod", "pow", "radd", "rsub", "rmul", "rdiv", "rtruediv", "rfloordiv", "rmod", "rpow"]:
    check(f"{m}(df.a, axis=0)[[b]]", lambda d, m=m: getattr(d, m)(d.a, axis=0)[["b"]])
    check(f"{m}(df.a, axis=0)[b]", lambda d, m=m: getattr(d, m)(d.a, axis=0)["b"])
    check(f"{m}(df, fill_value=1)[[b,c]]", lambda d, m=m: getattr(d, m)(d, fill_value=1)[["b", "c"]])
    check(f"{m}(2)[[c]]", lambda d, m=m: getattr(d, m)(2)[["c"]])
sys.exit(1 if fails else 0)
