import sys
import pandas as pd, dask
import dask_expr as dx
dask.config.set(scheduler='sync')
pdf = pd.DataFrame({'a': range(10), 'b': [1.5] * 10, 'c': list('abcdefghij')})
df = dx.from_pandas(pdf, 3)
bad = 0
def check(label, got, exp):
    global bad
    ok = list(got.index) == list(exp.index)
    print(label, 'OK' if ok else 'BAD', list(got.index), list(exp.index))
    bad += not ok
for index in (True, False):
    for deep in (False, True):
        check(f'[[a]] index={index} deep={deep}', df.memory_usage(index=index, deep=deep)[['a']].compute(), pdf.memory_usage(index=index, deep=deep)[['a']])
        check(f'[[c,a]] index={index}', df.memory_usage(index=index, deep=deep)[['c', 'a']].compute(), pdf.memory_usage(index=index, deep=deep)[['c', 'a']])
check('[[Index,a]]', df.memory_usage(index=True)[['Index', 'a']].compute(), pdf.memory_usage(index=True)[['Index', 'a']])
check('[[Index]]', df.memory_usage(index=True)[['Index']].compute(), pdf.memory_usage(index=True)[['Index']])
for cols in (['a'], ['c', 'a'], ['a', 'b', 'c'], ['Index', 'b']):
    got = df.memory_usage(index=True)[cols].compute()
    exp = df.memory_usage(index=True).compute()[cols]
    ok = got.to_dict() == exp.to_dict() and list(got.index) == cols
    print('values', cols, 'OK' if ok else 'BAD')
    bad += not ok
v = df.memory_usage(index=True)['a'].compute()
if v != pdf.memory_usage(index=True)['a'] * 1 and not isinstance(v, (int,)) :
    pass
print("scalar ['a']:", v)
# a real column named like the index row
pdf2 = pd.DataFrame({'Index': range(10), 'a': range(10)})
df2 = dx.from_pandas(pdf2, 2)
check('col named Index', df2.memory_usage(index=False)[['Index']].compute(), pdf2.memory_usage(index=False)[['Index']])
sys.exit(1 if bad else 0)
