"""M1: Series.value_counts(split_out != 1) on an unnamed Series returns duplicated keys."""
import sys
import numpy as np
import pandas as pd
import dask
import dask_expr as dx

dask.config.set(scheduler="sync")
bad = []


def as_dict(x):
    return {(None if pd.isna(k) else k): float(v) for k, v in x.items()}


def check(s, label, **vc_kwargs):
    exp = s.value_counts(**vc_kwargs)
    for k in (1, 2, 5, 7):
        for split_out in (1, 2, 3, True):
            try:
                got = dx.from_pandas(s, npartitions=k).value_counts(
                    split_out=split_out, **vc_kwargs
                ).compute()
            except Exception as e:  # noqa
                bad.append((label, k, split_out, repr(e)))
                continue
            ok = (
                len(got) == len(exp)
                and as_dict(got) == as_dict(exp)
                and got.index.name == exp.index.name
                and got.name == exp.name
            )
            if not ok:
                bad.append((label, k, split_out, f"rows={len(got)} expected={len(exp)} "
                            f"names={got.index.name!r}/{got.name!r}"))


rs = np.random.RandomState(0)
ints = rs.randint(0, 6, 60)
check(pd.Series(ints), "unnamed-int")
check(pd.Series(ints, name="x"), "named-int")
check(pd.Series(rs.choice(list("abcd"), 50)), "unnamed-str")
check(pd.Series(ints), "unnamed-int-normalize", normalize=True)
check(pd.Series(ints, name="count"), "named-count")
check(pd.Series(ints, name="proportion"), "named-proportion-normalize", normalize=True)
check(pd.Series(ints, name="index"), "named-index")
check(pd.Series(ints, name=0), "named-0")
fl = pd.Series(rs.choice([1.5, 2.5, np.nan], 40))
check(fl, "unnamed-float-nan")
check(fl, "unnamed-float-nan-keep", dropna=False)
check(pd.Series(pd.to_datetime(rs.choice(["2020-01-01", "2020-01-02", "2021-05-05"], 30))), "unnamed-dt")

for b in bad:
    print("MISMATCH", b)
print("M1", "DEFECT PRESENT" if bad else "ok")
sys.exit(1 if bad else 0)
