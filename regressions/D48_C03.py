import sys
import dask
import numpy as np
import pandas as pd
import dask_expr as dx

dask.config.set(scheduler="sync")

pdf = pd.DataFrame(
    {
        "a": [0, 1, 2, 3, 4, 5, 6, 7, 8, 9, 10, 11],
        "b": [100, 90, 80, 1, 2, 3, 4, 5, 6, 7, 8, 9],
        "c": [1, 1, 1, 1, 2, 2, 3, 3, 3, 4, 5, 6],
    }
)
bad = []


def check(label, fn, npartitions=3):
    df = dx.from_pandas(pdf, npartitions=npartitions)
    q = fn(df)
    try:
        got = q.compute()
    except Exception as e:
        bad.append(f"{label}: raised {type(e).__name__}: {e}")
        return
    expected = fn(pdf)
    try:
        pd.testing.assert_frame_equal(got, expected, check_dtype=False)
    except AssertionError:
        bad.append(f"{label}: got index {list(got.index)}, pandas {list(expected.index)}")


def quantile(d):
    d2 = d[d.a > 2]
    return d2[d2.b > d2.b.quantile(0.5)]


def median(d):
    d2 = d[d.a > 2]
    if isinstance(d, pd.DataFrame):
        return d2[d2.b > d2.b.median()]
    return d2[d2.b > d2.b.median_approximate()]


def quantile_plus(d):
    d2 = d[d.a > 2]
    return d2[d2.b > (d2.b.quantile(0.5) + 1)]


def nunique(d):
    d2 = d[d.a > 5]
    if isinstance(d, pd.DataFrame):
        return d2[d2.a > d2.c.nunique() + 4.5]
    return d2[d2.a > d2.c.nunique_approx() + 4.5]


def mode(d):
    d2 = d[d.a > 5]
    if isinstance(d, pd.DataFrame):
        return d2[d2.c == d2.c.mode().iloc[0]]
    return d2[d2.c == d2.c.mode().sum()]


def summ(d):
    d2 = d[d.a > 2]
    return d2[d2.b > d2.b.sum() / 9]


def mean(d):
    d2 = d[d.a > 2]
    return d2[d2.b > d2.b.mean()]


def var(d):
    d2 = d[d.a > 2]
    return d2[d2.b > d2.b.var()]


def plain(d):
    d2 = d[d.a > 2]
    return d2[d2.b > 4]


def check_scalar(label, scalar, npartitions=3):
    # reference: the scalar is computed by dask on its own from the filtered frame
    # (dask quantiles are approximate), then the predicate is evaluated by pandas
    # on the fully computed filtered frame
    df = dx.from_pandas(pdf, npartitions=npartitions)
    d2 = df[df.a > 2]
    p2 = pdf[pdf.a > 2]
    thr = scalar(d2).compute()
    expected = p2[p2.b > thr]
    try:
        got = d2[d2.b > scalar(d2)].compute()
    except Exception as e:
        bad.append(f"{label}: raised {type(e).__name__}: {e}")
        return
    if list(got.index) != list(expected.index):
        bad.append(f"{label}: got index {list(got.index)}, expected {list(expected.index)}")


for n in (1, 3):
    check_scalar(f"quantile np={n}", lambda d: d.b.quantile(0.5), n)
    check_scalar(f"quantile+1 np={n}", lambda d: d.b.quantile(0.5) + 1, n)
    check_scalar(f"median_approximate np={n}", lambda d: d.b.median_approximate(), n)
    check_scalar(f"quantile tdigest-free list np={n}", lambda d: d.b.quantile([0.5]).sum(), n)
    check_scalar(f"sum np={n}", lambda d: d.b.sum() / 9, n)
    check_scalar(f"len np={n}", lambda d: d.b.size - 4, n)
check("quantile 1 partition", quantile, npartitions=1)
check("median 1 partition", median, npartitions=1)
check("nunique_approx", nunique)
check("mode", mode)
check("sum", summ)
check("mean", mean)
check("var", var)
check("plain", plain)

# the same guard protects filter push-down into merge inputs
l = pd.DataFrame({"k": [1, 2, 3, 4, 5, 6], "a": [1, 2, 3, 4, 5, 6], "b": [1, 2, 3, 4, 5, 6]})
r = pd.DataFrame({"k": [1, 1, 1, 1, 1, 2, 7], "c": range(7)})
dm = dx.from_pandas(l, npartitions=1).merge(dx.from_pandas(r, npartitions=1), on="k")
pm = l.merge(r, on="k")
got = dm[dm.b > (dm.a.quantile(0.5) + 0.5)].compute()
expected = pm[pm.b > (pm.a.quantile(0.5) + 0.5)]
if len(got) != len(expected):
    bad.append(f"merge quantile: got {len(got)} rows, pandas {len(expected)}")

if bad:
    print("C3 DEFECT PRESENT")
    for b in bad:
        print(" -", b)
    sys.exit(1)
print("C3 ok")
