import sys
import dask
import pandas as pd
import dask_expr
from dask_expr import from_pandas, from_legacy_dataframe, from_delayed

dask.config.set(scheduler="sync")
bad = []


def attempt(label, fn):
    try:
        fn()
    except Exception as e:
        bad.append((label, "%s: %s" % (type(e).__name__, str(e)[:80])))


pdf = pd.DataFrame({"expr": range(6), "b": range(6)})
df = from_pandas(pdf, npartitions=2)
if not isinstance(df, dask_expr.DataFrame):
    bad.append(("from_pandas", "returns %s" % type(df).__name__))
attempt("compute", lambda: pd.testing.assert_frame_equal(df.compute(), pdf))
attempt("getattr b", lambda: pd.testing.assert_series_equal(df.b.compute(), pdf.b))
attempt("getitem expr", lambda: pd.testing.assert_series_equal(df["expr"].compute(), pdf["expr"]))
attempt("persist", lambda: pd.testing.assert_frame_equal(df.persist().compute(), pdf))
attempt(
    "legacy roundtrip",
    lambda: pd.testing.assert_frame_equal(
        from_legacy_dataframe(df.to_legacy_dataframe()).compute(), pdf
    ),
)
attempt(
    "delayed roundtrip",
    lambda: pd.testing.assert_frame_equal(
        from_delayed(df.to_delayed(), meta=df._meta).compute(), pdf
    ),
)
attempt(
    "map_partitions with frame argument",
    lambda: pd.testing.assert_frame_equal(
        from_pandas(pdf[["b"]], npartitions=2)
        .map_partitions(lambda p, other: p.assign(n=len(other.columns)), pdf)
        .compute(),
        pdf[["b"]].assign(n=2),
    ),
)
# a Series with an index label 'expr' has the attribute as well
ps = pd.Series([1, 2, 3], index=["expr", "x", "y"], name="s")
attempt(
    "series with label expr",
    lambda: pd.testing.assert_series_equal(
        from_pandas(ps, npartitions=1, sort=False).compute(), ps, check_index_type=False
    ),
)
# collections are still unpacked
pdf2 = pd.DataFrame({"a": range(6), "b": range(6)})
d2 = from_pandas(pdf2, npartitions=2)
attempt("collection operands", lambda: pd.testing.assert_series_equal((d2.a + d2.b).compute(), pdf2.a + pdf2.b))

for b in bad:
    print("DEFECT:", b)
sys.exit(1 if bad else 0)
