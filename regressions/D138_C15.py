"""O6: read_csv after the file was rewritten returns stale data while the earlier collection is alive."""
import os
import sys
import tempfile
import time

import dask
import numpy as np
import pandas as pd

import dask_expr as dx

dask.config.set(scheduler="sync")
d = tempfile.mkdtemp()
fail = 0


def run(reader, writer, name, **kw):
    global fail
    p = os.path.join(d, name)
    a = pd.DataFrame({"a": range(5), "b": range(5)})
    writer(a, p)
    x = reader(p, **kw)
    x.compute()
    n0 = x._name
    # same file, same query: same name
    if reader(p, **kw)._name != n0:
        print("FAIL", name, "name not stable for unchanged file")
        fail = 1
    time.sleep(0.01)
    b = pd.DataFrame({"a": range(50), "b": range(50), "c": range(50)})
    writer(b, p)
    y = reader(p, **kw)
    try:
        assert y.expr is not x.expr, "same expression object"
        assert list(y.columns) == ["a", "b", "c"], list(y.columns)
        got = y.compute()
        assert got.shape == (50, 3), got.shape
        assert len(y) == 50, len(y)
        assert y[["c"]].compute().shape == (50, 1)
    except Exception as e:
        print("FAIL", name, type(e).__name__, str(e)[:200])
        fail = 1
    # the earlier collection must keep its own identity
    assert x._name == n0


run(dx.read_csv, lambda df, p: df.to_csv(p, index=False), "x.csv")
run(dx.read_table, lambda df, p: df.to_csv(p, index=False, sep="\t"), "x.tsv")


def write_fwf(df, p):
    with open(p, "w") as f:
        f.write("".join("%6s" % c for c in df.columns) + "\n")
        for row in df.itertuples(index=False):
            f.write("".join("%6d" % v for v in row) + "\n")


run(dx.read_fwf, write_fwf, "x.fwf")

# glob with several files: one of them rewritten with the same size but other content
g = os.path.join(d, "many")
os.mkdir(g)
for i in range(3):
    pd.DataFrame({"a": [i] * 4, "b": [1] * 4}).to_csv(os.path.join(g, "f%d.csv" % i), index=False)
x = dx.read_csv(os.path.join(g, "f*.csv"))
assert x.compute().b.sum() == 12
time.sleep(0.01)
pd.DataFrame({"a": [1] * 4, "b": [2] * 4}).to_csv(os.path.join(g, "f1.csv"), index=False)
y = dx.read_csv(os.path.join(g, "f*.csv"))
if y._name == x._name or y.compute().b.sum() != 16:
    print("FAIL glob rewritten", y.compute().b.sum())
    fail = 1
sys.exit(fail)
