#!/usr/bin/env python3
"""keep_seed.py <Cxx> <name>: store a confirmed seeded change from /tmp/seedout/<Cxx> as /verif/seeded/<name>/."""
import json, os, shutil, sys
pid, name = sys.argv[1], sys.argv[2]
src = "/tmp/seedout5/%s" % pid
dst = "/verif/seeded/%s" % name
os.makedirs(dst, exist_ok=True)
shutil.copy(src + "/patch.diff", dst + "/patch.diff")
shutil.copy(src + "/demo.py", dst + "/demo.py")
meta = json.load(open(src + "/meta.json"))
conf = open(src + "/confirm.txt").read().split("\n")
meta["property"] = pid
meta["confirmed"] = {"demo_on_pristine_repo": conf[0], "demo_on_mutant": conf[1], "suite_on_mutant": conf[2], "suite_line": conf[3] if len(conf) > 3 else "",
                     "how": "PYTHONPATH=<tree> /venv/bin/python demo.py on /repo (exit 0) and on a scratch worktree with patch.diff applied (exit != 0); pinned suite on the scratch worktree: every baseline-passing test still passes"}
json.dump(meta, open(dst + "/meta.json", "w"), indent=1)
print("kept", dst)
