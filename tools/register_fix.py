#!/usr/bin/env python3
"""register_fix.py <Dxx> <Cxx> <commit-hash-in-/repo> <reproducer.py> : record a repaired defect -- reproducer into the regression
corpus (regressions/<Dxx>_<Cxx>.py + index.json) and a `fixed` entry in known_findings.json (suppresses nothing)."""
import json, re, shutil, subprocess, sys
did, pid, h, src = sys.argv[1:5]
subj = subprocess.check_output(["git", "-C", "/repo", "log", "-1", "--format=%s", h], text=True).strip()
short = subprocess.check_output(["git", "-C", "/repo", "log", "-1", "--format=%h", h], text=True).strip()
assert subj.startswith("fix:"), subj
name = "%s_%s.py" % (did, pid)
txt = open(src).read()
# reproducers must not depend on where the tree lives
txt = re.sub(r"^\s*assert .*dask_expr\.__file__.*\n", "", txt, flags=re.M)
open("/verif/regressions/" + name, "w").write(txt)
idx = json.load(open("/verif/regressions/index.json"))
idx[did] = {"property": pid, "script": name, "commit": subj, "commit_hash": short}
json.dump(idx, open("/verif/regressions/index.json", "w"), indent=1)
k = json.load(open("/verif/known_findings.json"))
k = [e for e in k if e["id"] != did]
what = subj[len("fix:"):].strip()
k.append({"id": did, "property": pid, "status": "fixed", "commit": subj, "site": "see commit", "what": "fixed: property=%s %s" % (pid, what),
          "input": {"reproducer": "regressions/" + name}, "commit_hash": short, "fixed_line": "fixed: property=%s %s %s" % (pid, short, what)})
json.dump(k, open("/verif/known_findings.json", "w"), indent=1)
print("registered", did, pid, short)
