#!/bin/bash
# seedpar.sh <seed-name> <worktree-with-the-seed-applied> <check-id>... : development helper -- runs the quick checks of a private
# copy of /verif against a scratch worktree (VERIF_REPO) so that several seeds can be tried at once; /repo is not touched.
# The recorded results in seeded/RESULTS.txt come from tools/seedtest.sh (patch applied to /repo itself).
name=$1; wt=$2; shift 2
S=/tmp/sp_$name
rm -rf $S; rsync -a --exclude .git --exclude replays --exclude 'build/cat_*' /verif/ $S/
cd $S
for c in "$@"; do
  out=$(VERIF_REPO=$wt ./check $c --tier quick 2>&1 | grep -E "VIOLATION|KNOWN-FINDING| ok | FAIL " | tr '\n' ' ')
  echo "seed=$name check=$c :: $out"
  for r in $(echo "$out" | grep -o 'replay=[^ ]*' | cut -d= -f2); do mkdir -p /tmp/sp_replays; cp $r /tmp/sp_replays/$name-$c.json 2>/dev/null; done
done
cd /; rm -rf $S
