#!/bin/bash
# independent re-check of all compiled property files (and everything they depend on) with coqchk; prints the axioms they rely on (~8 min)
cd /verif/coq && timeout 3000 coqchk -o -silent -Q . DX $(for i in $(seq -w 1 19); do echo DX.PropC$i; done) 2>&1 | tee COQCHK.txt
