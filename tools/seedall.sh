#!/bin/bash
# seedall.sh : every kept seed against the quick check of its own property (and the others listed), sequentially; results in seeded/RESULTS.txt
cd /verif
declare -A EXTRA=( [C01_a]="C03" [C01_b]="C03" [C02_a]="C12" [C03_b]="C01" [C09_a]="C13" [C09_b]="C12" [C10_a]="C06" [C12_b]="C11" [C13_b]="C09" [C16_a]="" [C18_b]="" [C19_a]="C03" [C08_a]="C09" )
: > seeded/RESULTS.txt
for d in seeded/C*/; do
  s=$(basename $d); p=${s%%_*}
  checks="$p ${EXTRA[$s]}"
  tools/seedtest.sh $s $checks 2>&1 | sed 's/replay=[^ ]*//' | tee -a seeded/RESULTS.txt
done
echo "unchanged tree:" >> seeded/RESULTS.txt
