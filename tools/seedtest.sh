#!/bin/bash
# seedtest.sh <seed-name> <check-id>...  : apply seeded patch to /repo, run the quick checks, undo. Prints verdict lines.
name=$1; shift
[ -n "$(git -C /repo status --porcelain --untracked-files=no)" ] && { echo "/repo is dirty: refusing (this script does git checkout -- .)"; exit 3; }
cd /repo && git apply /verif/seeded/$name/patch.diff || { echo "patch does not apply: $name"; exit 2; }
cd /verif
for c in "$@"; do
  out=$(./check $c --tier quick 2>&1 | grep -E "VIOLATION|KNOWN-FINDING| ok | FAIL " | tr '\n' ' ')
  echo "seed=$name check=$c :: $out"
done
cd /repo && git checkout -- . 
