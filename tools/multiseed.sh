#!/bin/bash
# multiseed.sh "<checks>" "<seeds>" [tier] : run every (check, seed) pair (8 at a time), print the result lines
checks=${1:-"C01 C03 C04 C05 C06 C07 C09 C10 C11 C12 C13 C14 C19"}; seeds=${2:-"1 2 3"}; tier=${3:-quick}
cd /verif
for c in $checks; do for s in $seeds; do echo "$c $s"; done; done | xargs -P 8 -L 1 bash -c 'out=$(VERIF_SEED=$1 ./check $0 --tier '$tier' 2>&1 | grep -E "VIOLATION| ok | FAIL " | tr "\n" " "); echo "$0 seed=$1 :: $out"' 
