#!/bin/bash
# confirm.sh <id>: demo passes on /repo (pristine+fixes), fails on /tmp/seed_<id>; suite passes on /tmp/seed_<id>
id=$1; out=/tmp/seedout/$id
( cd $out && PYTHONPATH=/repo timeout 600 /venv/bin/python demo.py >$out/demo_pristine.log 2>&1; echo "pristine_rc=$?" > $out/confirm.txt )
( cd $out && PYTHONPATH=/tmp/seed_$id timeout 600 /venv/bin/python demo.py >$out/demo_mutant.log 2>&1; echo "mutant_rc=$?" >> $out/confirm.txt )
/tmp/tools/suite.sh /tmp/seed_$id > $out/suite.log 2>&1; echo "suite_rc=$?" >> $out/confirm.txt
head -1 $out/suite.log >> $out/confirm.txt
