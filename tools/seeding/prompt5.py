import json,sys
pid=sys.argv[1]
p=json.load(open(f'/tmp/seedout5/{pid}/property.json'))
avoid=json.load(open(f'/tmp/seedout5/{pid}/avoid.json'))
av=""
if avoid:
    av="Earlier changes of this kind already exist; choose a DIFFERENT mechanism, source site and triggering circumstance than: "+" | ".join(avoid)
av+=" In this round prefer a change in how an OPTION or keyword argument of a public method travels to the code that runs per partition or per tree level (dropped, replaced by its default, applied at one stage of a multi-stage algorithm but not another, swapped between the two inputs of a binary operation), or in the handling of BOUNDARIES (first / last partition, an empty partition, a partition with a single row, a group / key / label that straddles a partition border, the last value of the divisions), or in a rule of the optimizer that fires only for a particular COMBINATION of two operations (operation A directly below operation B). The effect should show only for non-default keyword values or unusual but legitimate layouts, as a subtly wrong result rather than an exception. Avoid parquet / csv readers this time."
print(f"""You are helping test a verification framework by mutation. You work ONLY inside the git worktree /tmp/seed5_{pid} (a scratch checkout of the Python library dask-expr, package directory dask_expr/). Do NOT read or touch /verif or /repo. Put your deliverables in /tmp/seedout5/{pid}/.

Here is a semantic property that dask-expr is supposed to satisfy:

{json.dumps(p,indent=1)}

YOUR TASK: produce ONE small source change ("seeded bug", typically 1-10 lines) to dask_expr/ in /tmp/seed5_{pid} that BREAKS this property while (a) the package still imports, and (b) the existing test suite still passes exactly as before. The change must look like a plausible mistake a maintainer could make (an off-by-one, a dropped guard, a wrong variable, a condition slightly too permissive, a missing copy, an omitted column, a stale cache key, ...), NOT sabotage (no `if magic_value:`), and it must need something SPECIFIC to manifest: an unusual input, a particular multi-step sequence of operations, a particular partition count / parameter combination, a shared sub-expression, two cooperating sites that each look fine alone - not something ordinary use would expose immediately. {av}

Environment facts:
- Python is /venv/bin/python (3.12, pandas 3.0, dask 2024.3.1, pyarrow present, NO `distributed`, no network). ALWAYS run with PYTHONPATH=/tmp/seed5_{pid} so that your worktree's dask_expr is imported (check `dask_expr.__file__`).
- Run the pinned test suite with: /tmp/tools/suite.sh /tmp/seed5_{pid}     (takes ~3-6 minutes; prints `missing=0` and exits 0 when every baseline-passing test still passes; 42 failures + 2 collection errors are pre-existing and expected). A change that makes `missing` > 0 is NOT acceptable - pick another change. You may run subsets of tests first with `cd /tmp/seed5_{pid} && PYTHONPATH=/tmp/seed5_{pid} /venv/bin/python -m pytest -q -p no:cacheprovider dask_expr/tests/test_x.py`.
- The synchronous scheduler can be chosen with `dask.config.set(scheduler='sync')`.
- Do NOT use `git stash` (the stash is shared with other worktrees of the same repository, other people are working in them). To test the pristine code, save your diff (`git -C /tmp/seed5_{pid} diff > /tmp/seedout5/{pid}/patch.diff`) and use `git -C /tmp/seed5_{pid} apply -R /tmp/seedout5/{pid}/patch.diff`, then re-apply it with `git -C /tmp/seed5_{pid} apply /tmp/seedout5/{pid}/patch.diff`. Do not commit.

Deliverables (all in /tmp/seedout5/{pid}/):
1. patch.diff  - output of `git -C /tmp/seed5_{pid} diff` (must apply with `git apply` to a pristine checkout of the same commit).
2. demo.py     - a small standalone program that exits 0 on the pristine code and exits non-zero (assert failure or exception) WITH your change, demonstrating the violation of the property in terms of observable behaviour (results, divisions, names, graphs ...), not of internals. Run as `PYTHONPATH=<tree> /venv/bin/python demo.py`. Verify BOTH directions yourself.
3. meta.json   - {{"property": "{pid}", "summary": "...what was changed...", "needs": "...what specific circumstance is needed to manifest...", "files": [...], "suite": "<last lines printed by suite.sh>"}}
Leave the change applied in the worktree when you finish. In your final message report: the diff, what it needs to manifest, and the suite.sh result line. Also report separately any behaviour of the PRISTINE code that you noticed to violate the property (with a minimal reproducer) - but do not use such a pre-existing problem as your change. Do not ask questions; make decisions yourself. If your first idea is killed by the test suite, try another (the suite is fairly thorough on mainstream paths; look for corners: unusual parameter combinations, rarely-taken branches, interaction of two features).""")
