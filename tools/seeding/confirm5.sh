#!/bin/bash
# confirm2.sh <id>: demo passes on /repo (pristine+fixes), fails on /tmp/seed5_<id>; suite passes on /tmp/seed5_<id>
id=$1; out=/tmp/seedout5/$id
( cd $out && PYTHONPATH=/repo timeout 900 /venv/bin/python demo.py >$out/demo_pristine.log 2>&1; echo "pristine_rc=$?" > $out/confirm.txt )
( cd $out && PYTHONPATH=/tmp/seed5_$id timeout 900 /venv/bin/python demo.py >$out/demo_mutant.log 2>&1; echo "mutant_rc=$?" >> $out/confirm.txt )
git -C /tmp/seed5_$id diff > $out/patch_check.diff
cmp -s $out/patch_check.diff $out/patch.diff && echo "patch_matches_worktree=yes" >> $out/confirm.txt || echo "patch_matches_worktree=no" >> $out/confirm.txt
/tmp/tools/suite.sh /tmp/seed5_$id > $out/suite.log 2>&1; echo "suite_rc=$?" >> $out/confirm.txt
head -1 $out/suite.log >> $out/confirm.txt
( cd /repo && git apply --check $out/patch.diff 2>/dev/null && echo "applies_to_repo_head=yes" || echo "applies_to_repo_head=no" ) >> $out/confirm.txt
