#!/bin/bash
# usage: suite.sh <tree>   -- runs the pinned suite in <tree>, prints stable-pass tests that did not pass
T=${1:-/repo}
OUT=$(mktemp -d /tmp/suite.XXXXXX)
cd "$T" && PYTHONPATH="$T" /venv/bin/python -m pytest -q -p no:cacheprovider --timeout=900 --continue-on-collection-errors --junitxml=$OUT/j.xml >$OUT/log 2>&1
python3 - "$OUT/j.xml" <<'P'
import sys, xml.etree.ElementTree as ET
ok=set()
for tc in ET.parse(sys.argv[1]).getroot().iter('testcase'):
    if not any(c.tag in('failure','error','skipped') for c in tc):
        ok.add(f"{tc.get('classname')}::{tc.get('name')}")
sp=[l.strip() for l in open('/tmp/tools/stable_pass.txt') if l.strip()]
miss=[t for t in sp if t not in ok]
print(f"stable_pass={len(sp)} passed_now={len(ok)} missing={len(miss)}")
for m in miss[:40]: print("  NOT PASSING:",m)
sys.exit(1 if miss else 0)
P
rc=$?
tail -3 $OUT/log
rm -rf $OUT
exit $rc
