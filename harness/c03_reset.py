"""C03, a row filter that crosses an index reset.

`y = frame.reset_index()` turns the row labels into a column whose label pandas chooses ("index", "level_0" when
"index" is taken, the name of the index -- also a falsy one such as "" or 0) and keeps the data columns; a filter on y
that is moved below the reset has to re-express every term of its predicate on the frame underneath: the terms on the
former index become terms on the real index, the terms on data columns stay terms on those columns.  The family sweeps

  label layouts   the labels of the data columns (ordinary, "index" / "level_0" / "" among them, integers) x the name
                  of the index (None, a string, "", 0, "index", "level_0", the label of a data column) -- DataFrames
                  and Series (named, unnamed, called "index");
  index values    sorted and unique, a permutation of the range the data live in, duplicates, floats, strings,
                  timestamps, missing labels;
  data            int64, float64 with NaN, Int64 with pd.NA, a string column with None;
  histories       how the frame under the reset got its layout (as loaded, rename_axis, rename, set_index, assign,
                  a projection, a filter, an earlier reset_index, a repartition, a column picked as Series, to_frame);
  reset           drop=False / drop=True, and what sits between the reset and the filter (nothing, a rename of the
                  former index, a projection, fillna, an assign reading the former index);
  predicates      comparisons / isna / notnull / isin / between / methods an Index lacks, on EVERY column of y (the
                  former index and each data column), column-vs-column, column-vs-reduction, and / or / not, the
                  OR-factoring shape, list selections, terms on the whole frame;
  consumers       the frame, projections with and without the former index, one column, a reduction, a consumer of y
                  beside the filter (no push-down), a second filter.

Oracle (the property verbatim): the unfiltered y is computed -- no filter, so nothing is pushed anywhere -- and the
predicate is evaluated on it by pandas; the optimized filter query has to return exactly those rows (compared as
multisets of rows: the row labels after a reset are not specified, they restart in every partition).  Where the row
labels do not enter y (no earlier reset) y itself is first compared with pandas' y on the same data; a layout where
they differ is not a C03 matter and is left out.

Left out of the family (the tree as it stands fails on them, see left_out): P1 a column selection pushed into the reset
that leaves the filter and its predicate on two different ResetIndex expressions; P2 a column selection that changes the
label pandas gives the former index ("level_0" only while "index" is there) -- a projection matter; P3 a second filter
with a term on the former index of an already filtered frame; P4 A & (B | C) with a string comparison and pd.NA.
"""
import itertools

import common
from e2e import canon, concat_parts, exec_expr, try_, _short

N = 12


# ----------------------------------------------------------------------------- layouts and data

FRAME_LABELS = [
    ["index", "b", "c"], ["a", "b", "c"], ["a", "index", "c"], ["a", "b", "index"], ["level_0", "b", "c"],
    ["index", "b", "level_0"], ["level_1", "index", "c"], ["index", 0, 1], [1, 2, 3], ["", "b", "c"], ["idx", "b", "c"],
]
INDEX_NAMES = [None, "idx", "", 0, "index", "level_0", "b", 1]
SERIES_NAMES = [None, "index", "v", "level_0", 0, ""]
INDEX_KINDS = ["offset", "perm", "dups", "float", "str", "ts", "nan"]
DATA_KINDS = ["int", "float", "Int64", "obj"]


def index_values(rng, kind):
    import numpy as np
    import pandas as pd
    perm = list(range(N))
    rng.shuffle(perm)
    if kind == "offset":
        return [100 + i for i in range(N)]
    if kind == "perm":
        return perm
    if kind == "dups":
        return sorted(rng.randint(0, 5) for _ in range(N))
    if kind == "float":
        return [p + 0.5 for p in perm]
    if kind == "str":
        return ["k%02d" % p for p in perm]
    if kind == "ts":
        return [pd.Timestamp("2024-03-01") + pd.Timedelta(days=p) for p in perm]
    if kind == "nan":
        v = [float(p) for p in perm]
        for i in rng.sample(range(N), 2):
            v[i] = np.nan
        return v
    raise KeyError(kind)


def data_column(rng, kind, j):
    import numpy as np
    import pandas as pd
    v = [rng.randint(0, 9) for _ in range(N)]
    if kind == "int":
        return np.array(v, dtype="int64")
    if kind == "obj" and j == 1:
        return pd.Series([None if rng.random() < 0.25 else "k%02d" % x for x in v], dtype="object").to_numpy()
    miss = [rng.random() < 0.25 for _ in range(N)]
    if kind == "Int64":
        return pd.array([None if m else x for m, x in zip(miss, v)], dtype="Int64")
    return np.array([np.nan if m else float(x) for m, x in zip(miss, v)], dtype="float64")


def make_frame(rng, labels, ixname, ixkind, dkind):
    import pandas as pd
    cols = [data_column(rng, dkind, j) for j in range(len(labels))]
    pdf = pd.DataFrame({j: c for j, c in enumerate(cols)})
    pdf.columns = list(labels)
    pdf.index = pd.Index(index_values(rng, ixkind), name=ixname)
    return pdf


def jsonable(v):
    import pandas as pd
    if isinstance(v, (list, tuple)):
        return [jsonable(x) for x in v]
    try:
        if pd.isna(v):
            return None
    except (TypeError, ValueError):
        pass
    if isinstance(v, pd.Timestamp):
        return str(v)
    if hasattr(v, "item"):
        return v.item()
    return v


def data_dict(obj):
    """JSON-serialisable copy of a pandas source (labels may be integers or empty: kept as lists)."""
    import pandas as pd
    if isinstance(obj, pd.Series):
        return {"series": jsonable(obj.name), "values": jsonable(obj.tolist()), "dtype": str(obj.dtype),
                "index": jsonable(obj.index.tolist()), "index_name": jsonable(obj.index.name)}
    return {"columns": jsonable(list(obj.columns)), "values": [jsonable(obj[c].tolist()) for c in obj.columns],
            "dtypes": [str(t) for t in obj.dtypes], "index": jsonable(obj.index.tolist()), "index_name": jsonable(obj.index.name)}


# ----------------------------------------------------------------------------- histories of the frame under the reset

def _is_dask(d):
    return hasattr(d, "npartitions")


def frame_histories(target):
    """name -> (source, op, labels_defined): op(source) has the layout of `target` (or a derived one), for a pandas frame
    and for the collection made from it alike.  labels_defined: the row labels do not enter the columns of y."""
    labels = list(target.columns)
    name = target.index.name
    H = {"loaded": (target, lambda d: d, True)}
    if name is not None:
        H["rename_axis"] = (target.rename_axis(index=None), lambda d: d.rename_axis(index=name), True)
    neutral = ["x%d" % j for j in range(len(labels))]
    back = dict(zip(neutral, labels))
    src = target.copy()
    src.columns = neutral
    H["rename"] = (src, lambda d: d.rename(columns=back), True)
    if isinstance(name, str) and name and name not in labels and not target.index.hasnans:
        H["set_index"] = (target.reset_index(), lambda d: d.set_index(name), True)
    if isinstance(labels[-1], str) and len(labels) > 1:
        first, last = labels[0], labels[-1]
        H["assign"] = (target[labels[:-1]], lambda d: d.assign(**{last: d[first] * 2 + 1}), True)
    if "zz" not in labels:
        H["projection"] = (target.assign(zz=1), lambda d: d[labels], True)
    H["filter-below"] = (target, lambda d: d[d[labels[-1]].notnull()], True)
    H["earlier-reset"] = (target, lambda d: d.reset_index(), False)
    H["repartition"] = (target, lambda d: d.repartition(npartitions=2) if _is_dask(d) else d, True)
    return H


def series_histories(target, sname):
    """The Series under the reset: as loaded, a column picked from a frame, renamed, a frame squeezed."""
    labels = list(target.columns)
    col = labels[0]
    H = {"loaded": (target[col].rename(sname), lambda s: s, True),
         "renamed": (target, lambda d: d[col].rename(sname), True),
         "renamed-index-reset": (target[col].rename(sname), lambda s: s.reset_index(drop=True), False)}
    if sname is not None and sname not in labels[1:]:
        src = target.rename(columns={col: sname})
        H["picked"] = (src, lambda d: d[sname], True)
        H["picked-after-filter"] = (src, lambda d: d[d[labels[1]].notnull()][sname], True)
    return H


# ----------------------------------------------------------------------------- what sits between the reset and the filter

def posts(cols, ix):
    """name -> fn(y) -> y2; cols = labels of y, ix = label of the former index (None: dropped)."""
    data = list(cols[1:]) if ix is not None else list(cols)
    P = {"none": lambda y: y}
    if ix is not None:
        P["rename-former-index"] = lambda y: y.rename(columns={ix: "was_index"})
        P["assign-from-former-index"] = lambda y: y.assign(derived=y[ix])
        if data and "index" not in data[1:] and "former" not in cols:
            P["rename-data-to-index"] = lambda y: y.rename(columns={ix: "former", data[0]: "index"})
    if len(cols) > 2:
        P["projection"] = lambda y: y[list(cols[:2])]
        P["projection-reversed"] = lambda y: y[list(reversed(cols))]
    P["fillna"] = lambda y: y.fillna({c: 0 for c in data[-1:]})
    return P


# ----------------------------------------------------------------------------- predicates

def _lit(v):
    return repr(jsonable(v))


def column_stats(ref, c):
    """thresholds taken from the unfiltered data, so that every comparison splits the rows"""
    s = ref[c] if ref.ndim == 2 else ref
    vals = sorted(s.dropna().tolist())
    if not vals:
        return None
    numeric = s.dtype.kind in "iuf" or str(s.dtype) in ("Int64", "Float64")
    return {"mid": vals[len(vals) // 2], "lo": vals[len(vals) // 4], "hi": vals[(3 * len(vals)) // 4], "first": vals[0],
            "some": sorted(set(vals))[::2][:4], "numeric": numeric}


def atoms(ref, c):
    """name -> (builder over y, core).  Terms on ONE column of y (y itself when it is a Series)."""
    st = column_stats(ref, c)
    col = (lambda y: y[c]) if ref.ndim == 2 else (lambda y: y)
    nm = "y[%r]" % (c,) if ref.ndim == 2 else "y"
    A = {nm + ".isna()": (lambda y: col(y).isna(), False), nm + ".notnull()": (lambda y: col(y).notnull(), False)}
    if st is None:
        return A
    mid, lo, hi, first, some = st["mid"], st["lo"], st["hi"], st["first"], st["some"]
    A.update({
        "%s>%s" % (nm, _lit(mid)): (lambda y: col(y) > mid, True),
        "%s<=%s" % (nm, _lit(lo)): (lambda y: col(y) <= lo, True),
        "%s>=%s" % (nm, _lit(hi)): (lambda y: col(y) >= hi, False),
        "%s<%s" % (nm, _lit(mid)): (lambda y: col(y) < mid, False),
        "%s==%s" % (nm, _lit(mid)): (lambda y: col(y) == mid, False),
        "%s!=%s" % (nm, _lit(mid)): (lambda y: col(y) != mid, False),
        "%s<%s" % (_lit(lo), nm): (lambda y: lo < col(y), False),
        "%s.isin(%s)" % (nm, _lit(some)): (lambda y: col(y).isin(some), False),
        "%s.between(%s,%s)" % (nm, _lit(lo), _lit(hi)): (lambda y: col(y).between(lo, hi), False),
        "~(%s>%s)" % (nm, _lit(lo)): (lambda y: ~(col(y) > lo), False),
        "%s>%s.min()" % (nm, nm): (lambda y: col(y) > col(y).min(), False),
    })
    if st["numeric"]:
        A.update({
            "(%s-%s).abs()>2" % (nm, _lit(mid)): (lambda y: (col(y) - mid).abs() > 2, False),
            "%s.astype(float)>%s" % (nm, _lit(mid)): (lambda y: col(y).astype("float64") > mid, False),
            "%s>=%s.mean()" % (nm, nm): (lambda y: col(y) >= col(y).mean(), False),
            "%s.fillna(%s)>=%s" % (nm, _lit(hi), _lit(hi)): (lambda y: col(y).fillna(hi) >= hi, False),
            "%s*2+1>%s" % (nm, _lit(mid)): (lambda y: col(y) * 2 + 1 > mid, False),
        })
    return A


def first_core(ref, c):
    for nm, (f, core) in atoms(ref, c).items():
        if core:
            return nm, f
    nm, (f, _) = next(iter(atoms(ref, c).items()))
    return nm, f


def compound(ref, cols, rng):
    """Terms on several columns of y: every ordered pair of columns."""
    C = {}
    if ref.ndim != 2:
        return C
    for c1, c2 in itertools.permutations(cols, 2):
        n1, f1 = first_core(ref, c1)
        n2, f2 = first_core(ref, c2)
        na, fa = "y[%r]" % (c1,), (lambda y, c=c1: y[c])
        nb, fb = "y[%r]" % (c2,), (lambda y, c=c2: y[c])
        C["%s<%s" % (na, nb)] = lambda y, fa=fa, fb=fb: fa(y) < fb(y)
        C["%s==%s" % (na, nb)] = lambda y, fa=fa, fb=fb: fa(y) == fb(y)
        C["%s+%s>9" % (na, nb)] = lambda y, fa=fa, fb=fb: fa(y) + fb(y) > 9
        C["(%s)&(%s)" % (n1, n2)] = lambda y, f1=f1, f2=f2: f1(y) & f2(y)
        C["(%s)|(%s)" % (n1, n2)] = lambda y, f1=f1, f2=f2: f1(y) | f2(y)
        C["(%s)|%s.isna()" % (n1, nb)] = lambda y, f1=f1, fb=fb: f1(y) | fb(y).isna()
        C["~((%s)&(%s))" % (n1, n2)] = lambda y, f1=f1, f2=f2: ~(f1(y) & f2(y))
        C["(%s)&~(%s)" % (n1, n2)] = lambda y, f1=f1, f2=f2: f1(y) & ~f2(y)
        C["%s>%s.min()" % (na, nb)] = lambda y, fa=fa, fb=fb: fa(y) > fb(y).min()
        C["%s[[%r,%r]].isna().any(axis=1)" % ("y", c1, c2)] = lambda y, c1=c1, c2=c2: y[[c1, c2]].isna().any(axis=1)
        C["%s[[%r,%r]].sum(axis=1)>9" % ("y", c1, c2)] = lambda y, c1=c1, c2=c2: y[[c1, c2]].sum(axis=1) > 9
        for c3 in cols:
            if c3 in (c1, c2):
                continue
            n3, f3 = first_core(ref, c3)
            C["((%s)&(%s))|((%s)&(%s))" % (n1, n2, n1, n3)] = lambda y, f1=f1, f2=f2, f3=f3: (f1(y) & f2(y)) | (f1(y) & f3(y))
            C["(%s)&(%s)&(%s)" % (n1, n2, n3)] = lambda y, f1=f1, f2=f2, f3=f3: f1(y) & f2(y) & f3(y)
    C["y.isna().any(axis=1)"] = lambda y: y.isna().any(axis=1)
    C["y.notnull().all(axis=1)"] = lambda y: y.notnull().all(axis=1)
    return C


# ----------------------------------------------------------------------------- consumers

def consumers(ref, cols):
    """name -> fn(z, y): what sits above the filter z = y[pred(y)]"""
    K = {"frame": lambda z, y: z}
    if ref.ndim != 2:
        K["count"] = lambda z, y: z.count()
        K["beside-y"] = lambda z, y: z.count() + y.count()
        K["second-filter"] = lambda z, y: z[z.notnull()]
        return K
    first, last = cols[0], cols[-1]
    K["without-first"] = lambda z, y: z[list(cols[1:])]
    K["only-first"] = lambda z, y: z[[first]]
    K["reversed"] = lambda z, y: z[list(reversed(cols))]
    K["column-first"] = lambda z, y: z[first]
    K["column-last"] = lambda z, y: z[last]
    K["count-last"] = lambda z, y: z[last].count()
    K["count"] = lambda z, y: z.count()
    K["beside-y"] = lambda z, y: z[first].count() + y[last].count()
    K["second-filter"] = lambda z, y: z[z[last].notnull()]
    K["second-filter-on-first"] = lambda z, y: z[z[first].notnull()][[last]]
    return K


# ----------------------------------------------------------------------------- inputs left out (the unmodified tree fails on them)

LIST_CONSUMERS_WITHOUT_INDEX = ("without-first", "only-first", "second-filter-on-first")
WHOLE_FRAME_CONSUMERS = ("frame", "reversed", "count", "second-filter")


FORMER_INDEX_AFTER = {"rename-former-index": lambda ix: {"was_index"}, "assign-from-former-index": lambda ix: {ix, "derived"},
                      "rename-data-to-index": lambda ix: {"former"}}


def left_out(info, between, pred_name, consumer, cols):
    """Inputs on which the tree as it stands fails (P1-P4, described in the report that goes with this family); they are
    not part of the family.  info: facts about the layout; cols: the labels of y."""
    ix = info["ix"]
    # P1: column selections pushed into the reset give the frame of the filter and its predicate two different ResetIndex
    # expressions (drop=True / drop=False, or different column subsets); the filter is then moved below "its" reset --
    # it is the only dependent -- while the predicate keeps reading the other one: a mask with the labels of the reset
    # frame on the frame that still has the old labels (AssertionError on divisions, "Unalignable boolean Series", wrong
    # rows when the labels happen to match).  Seen for Projection(list) / Filter / Projection(list) / ResetIndex, and
    # for predicates with a list selection y[[c1, c2]] under a consumer that selects columns
    projection_between = between in ("projection", "projection-reversed") or (info["hidden_projection"] and between == "none")
    if ix is not None or info["hidden_projection"]:
        if projection_between and consumer in LIST_CONSUMERS_WITHOUT_INDEX:
            return "P1"
    if "[[" in pred_name and (consumer not in WHOLE_FRAME_CONSUMERS or projection_between):
        return "P1"
    if ix is not None:
        # P3: two filters, the later one with a term on the former index (a filter under the reset and one above it, or two
        # above it): after the push-down they are merged into one filter whose second conjunct is computed on the already
        # filtered frame; the masks are then aligned by label, which only works out when the labels are unique, the
        # divisions known and the partitioning of the two frames the same
        former = FORMER_INDEX_AFTER.get(between, lambda ix: {ix})(ix)
        reads = {"second-filter": cols[-1], "second-filter-on-first": cols[0]}.get(consumer, None)
        if consumer in ("second-filter", "second-filter-on-first") and reads in former:
            return "P3"
        if info["history"] in ("filter-below", "picked-after-filter") and any(("y[%r]" % (c,)) in pred_name for c in former):
            return "P3"
    if info["label_dependent"]:
        # P2: the label of the former index is "level_0" only as long as the column "index" is there; any column
        # selection that is pushed into the reset and leaves "index" out changes the label (KeyError 'level_0'),
        # with or without a filter -- a projection matter, not a filter matter
        if consumer not in WHOLE_FRAME_CONSUMERS or between == "projection" or "[[" in pred_name:
            return "P2"
    if info["strings_and_NA"] and "&" in pred_name and ("|" in pred_name or pred_name.count("&") > 1):
        # P4: A & (B | C) with B a comparison of strings and A, C nullable with pd.NA raises "boolean value of NA is
        # ambiguous" -- with or without a reset, also when written by hand; the OR-factoring produces that shape
        return "P4"
    return None


# ----------------------------------------------------------------------------- one layout

def rows_of(obj):
    """multiset of rows / values, row labels dropped (after a reset they restart per partition)"""
    import pandas as pd
    if isinstance(obj, (pd.DataFrame, pd.Series)):
        return canon(obj, False, labels=False)
    return canon(obj)


def result_of(obj, consumer_name):
    import pandas as pd
    if consumer_name == "count" and isinstance(obj, pd.Series):
        # one count per column: the labels are the column labels, they matter
        return canon(obj, False)
    return rows_of(obj)


def check_layout(run, rt, tag, source, hist, hname, labels_defined, drop, npart, sort, budget, stats):
    """All (sampled) predicates x consumers for one frame under a reset.  Returns the number of cases run."""
    import pandas as pd
    rng = run.rng
    # pandas decides whether the layout exists at all (label collisions raise)
    py = try_(lambda: hist(source).reset_index(drop=drop))
    if py[0] == "raise":
        stats["layouts-pandas-rejects"] += 1
        return 0
    src = try_(lambda: rt.dx.from_pandas(source, npartitions=npart, sort=sort))
    if src[0] == "raise":
        stats["layouts-not-loadable"] += 1
        return 0
    dy = try_(lambda: hist(src[1]).reset_index(drop=drop))
    if dy[0] == "raise":
        stats["layouts-not-buildable"] += 1
        return 0
    base_cols = list(py[1].columns) if py[1].ndim == 2 else None
    if base_cols is not None and [repr(c) for c in dy[1].columns] != [repr(c) for c in base_cols]:
        stats["layouts-labels-differ"] += 1   # the labels of y are not this property's business
        return 0
    if not labels_defined and not drop:
        # the former index holds the labels an earlier reset made up: they are not specified (they restart in every
        # partition, a filter that moves below that reset renumbers them) -- y goes on without that column
        keep = base_cols[1:]
        py = ("ok", py[1][keep])
        dy = try_(lambda: dy[1][keep])
        if dy[0] == "raise":
            stats["layouts-not-buildable"] += 1
            return 0
        base_cols, drop_ix, hidden_projection = keep, True, True
    else:
        drop_ix, hidden_projection = drop, False
    ix = None if drop_ix or base_cols is None else base_cols[0]
    inner = hname == "earlier-reset" and drop and base_cols is not None   # the earlier reset has a former index as well
    info = {"ix": base_cols[0] if inner else ix, "hidden_projection": hidden_projection, "history": hname, "sort": sort,
            "unique_labels": bool(source.index.is_unique and not source.index.hasnans),
            # does the label of the former index depend on which other columns are there?
            "label_dependent": (ix is not None and hist(source).index.name is None and ix != "index")
                               or (inner and source.index.name is None and base_cols[0] != "index"),
            "strings_and_NA": "index=str" in tag and "data=Int64" in tag}
    post_all = posts(base_cols, ix) if base_cols is not None else {"none": lambda y: y}
    quick = run.tier == "quick"
    others = sorted(set(post_all) - {"none"})
    pnames = ["none"] + (([rng.choice(others)] if budget >= 3 and others else []) if quick else others)
    n = 0
    for pname in dict.fromkeys(pnames):
        post = post_all[pname]
        y = try_(lambda: post(dy[1]))
        yp = try_(lambda: post(py[1]))
        if y[0] == "raise" or yp[0] == "raise":
            continue
        ref = try_(lambda: concat_parts(exec_expr(y[1].optimize().expr)).reset_index(drop=True))
        if ref[0] == "raise":
            stats["unfiltered-fails"] += 1
            if common.os.environ.get("C03_RESET_DEBUG"):
                print("unfiltered fails:", ref[1], "|", tag, hname, drop, pname)
            continue
        ref = ref[1]
        if labels_defined and rows_of(ref) != rows_of(yp[1]):
            stats["unfiltered-differs-from-pandas"] += 1
            continue
        cols = list(ref.columns) if ref.ndim == 2 else [None]
        core, rest, one_per_col = [], [], []
        for c in cols:
            mine = [(nm, f) for nm, (f, is_core) in atoms(ref, c).items() if is_core]
            rest += [(nm, f) for nm, (f, is_core) in atoms(ref, c).items() if not is_core]
            core += mine
            if mine:
                one_per_col.append(rng.choice(mine))
        rest += list(compound(ref, cols, rng).items())
        K = consumers(ref, cols)
        knames = sorted(K)
        # one comparison per column of y with the whole frame as consumer (a term that ends up on the wrong column or on
        # the row labels changes the rows), then a sample of all the other terms under all consumers
        pool = core + rest
        if pname == "none":
            k = budget if quick else 4 * budget
            first = one_per_col if budget >= 2 else rng.sample(one_per_col, min(2, len(one_per_col)))
            chosen = [(p, "frame") for p in (first if quick else core)]
        else:
            k = 1 if quick else budget
            chosen = [(p, rng.choice(knames)) for p in rng.sample(one_per_col, min(1, len(one_per_col)))]
        chosen += [(p, rng.choice(knames)) for p in rng.sample(pool, min(len(pool), k))]
        for (pn, pf), kn in chosen:
            cons = K[kn]
            why = left_out(info, pname, pn, kn, cols)
            if why:
                stats["left-out-" + why] += 1
                continue
            exp = try_(lambda: cons(ref[pf(ref)], ref))
            if exp[0] == "raise":
                continue   # pandas cannot evaluate this predicate on these dtypes
            mask = try_(lambda: pf(ref).fillna(False).astype(bool))
            split = mask[0] == "ok" and 0 < int(mask[1].sum()) < len(ref)
            n += 1
            run.count(("reset", tag, hname, drop, pname, pn, kn, npart), nontrivial=split)
            case = {"kind": "reset", "layout": tag, "history": hname, "drop": drop, "between": pname, "pred": pn, "consumer": kn,
                    "npartitions": npart, "sort": sort, "source": data_dict(source), "y_columns": jsonable(cols)}
            desc = "%s / %s / reset_index(drop=%s) / %s: y[%s] -> %s, npartitions=%d" % (tag, hname, drop, pname, pn, kn, npart)
            got = try_(lambda: cons(y[1][pf(y[1])], y[1]))
            if got[0] == "raise":
                run.violation("filter above reset_index cannot be built (%s) though pandas evaluates the predicate: %s" % (got[1], desc), case)
                continue
            opt = try_(lambda: result_of(concat_parts(exec_expr(got[1].optimize().expr)), kn))
            want = result_of(exp[1], kn)
            if opt[0] == "raise":
                un = try_(lambda: exec_expr(got[1].expr.lower_completely()))
                if un[0] == "ok":
                    run.violation("optimized filter above reset_index fails (%s), the unoptimized plan runs: %s" % (opt[1], desc), case)
                else:
                    stats["both-plans-fail"] += 1
                    if common.os.environ.get("C03_RESET_DEBUG"):
                        print("both plans fail:", opt[1], "|", un[1], "|", desc)
                continue
            if opt[1] != want:
                run.violation("filter above reset_index: rows differ from the rows of the unfiltered frame that satisfy the predicate (%s): got %s expected %s"
                              % (desc, _short(opt[1]), _short(want)), case)
    return n


# ----------------------------------------------------------------------------- the sweep

def reset_sweep(run):
    import rt
    from collections import Counter
    rng = run.rng
    quick = run.tier == "quick"
    stats = Counter()
    n = 0
    layouts = 0
    # DataFrames: every label layout x index name
    for labels, ixname in itertools.product(FRAME_LABELS, INDEX_NAMES):
        combos = [(rng.choice(INDEX_KINDS), rng.choice(DATA_KINDS)) for _ in range(1 if quick else 2)]
        for ixkind, dkind in combos:
            target = make_frame(rng, labels, ixname, ixkind, dkind)
            if try_(lambda: target.reset_index())[0] == "raise":
                stats["layouts-pandas-rejects"] += 1
                continue
            H = frame_histories(target)
            hnames = ["loaded"] + rng.sample(sorted(set(H) - {"loaded"}), 1 if quick else 2)
            for hname in hnames:
                source, hist, labels_defined = H[hname]
                drops = [False] if quick and rng.random() < 0.75 else [False, True]
                for drop in drops:
                    nparts = [rng.choice([1, 3, 4])]
                    for npart in nparts:
                        sort = ixkind != "nan" and not (quick and rng.random() < 0.2)
                        tag = "frame%r index.name=%r index=%s data=%s" % (labels, ixname, ixkind, dkind)
                        budget = (3 if hname == "loaded" else 1) if not drop else 1
                        k = check_layout(run, rt, tag, source, hist, hname, labels_defined, drop, npart, sort, budget, stats)
                        n += k
                        layouts += bool(k)
    # Series: every name x index name
    for sname, ixname in itertools.product(SERIES_NAMES, INDEX_NAMES):
        combos = [(rng.choice(INDEX_KINDS), rng.choice(DATA_KINDS[:3])) for _ in range(1 if quick else 2)]
        for ixkind, dkind in combos:
            target = make_frame(rng, ["s0", "s1"], ixname, ixkind, dkind)
            H = series_histories(target, sname)
            hnames = rng.sample(sorted(H), 1 if quick else 3)
            for hname in hnames:
                source, hist, labels_defined = H[hname]
                for drop in ([False] if quick and rng.random() < 0.75 else [False, True]):
                    for npart in [rng.choice([1, 3])]:
                        sort = ixkind != "nan"
                        tag = "series name=%r index.name=%r index=%s data=%s" % (sname, ixname, ixkind, dkind)
                        k = check_layout(run, rt, tag, source, hist, hname, labels_defined, drop, npart, sort, 2, stats)
                        n += k
                        layouts += bool(k)
    run.section("index_reset", cases=n, layouts=layouts, frame_labels=len(FRAME_LABELS), index_names=len(INDEX_NAMES),
                series_names=len(SERIES_NAMES), **{k.replace("-", "_"): v for k, v in stats.items()})
