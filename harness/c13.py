"""C13 -- repartitioning preserves rows and order and honours the requested layout."""
import itertools
import time

import common
from e2e import try_
from common import sx
import c13_hist


def div_vectors(V, maxlen):
    """All division vectors over 0..V-1: strictly increasing (len>=2) plus repeated last value."""
    out = []
    for L in range(1, maxlen + 1):
        for c in itertools.combinations(range(V), L):
            if L >= 2:
                out.append(tuple(c))
            if L + 1 <= maxlen:
                out.append(tuple(c) + (c[-1],))
    return out


def canon_layer(layer, frame_name, own_name, a0):
    """Real RepartitionDivisions._layer dict -> ((slices) (outs)) in the model's vocabulary."""
    from dask.dataframe import methods
    out1 = sorted((k for k in layer if k[0] != own_name), key=lambda k: k[1])
    assert all(k[0] == out1[0][0] for k in out1)
    tmpname = out1[0][0]
    assert tmpname.startswith("repartition-split-") and tmpname.split("-")[-1] == own_name.split("-")[-1], \
        ("helper keys not derived from the expression's own name", tmpname, own_name)
    assert [k[1] for k in out1] == list(range(len(out1)))
    slices = []
    for k in out1:
        t = layer[k]
        assert t[0] is methods.boundary_slice and t[1][0] == frame_name, t
        slices.append([t[1][1], t[2], t[3], bool(t[4])])
    outs = []
    ks = sorted((k for k in layer if k[0] == own_name), key=lambda k: k[1])
    assert [k[1] for k in ks] == list(range(len(ks)))
    for k in ks:
        t = layer[k]
        if t[0] is methods.boundary_slice:
            assert t[1] == (frame_name, 0) and t[2] == a0 and t[3] == a0 and t[4] is False, t
            outs.append("dummy")
        elif t[0] is methods.concat:
            assert all(x[0] == tmpname for x in t[1])
            outs.append(["concat", [x[1] for x in t[1]]])
        else:
            assert t[0] == tmpname and len(t) == 2, t
            outs.append(["alias", t[1]])
    return [slices, outs]


def source(rt, pd, a, dup=2):
    vals = [v for v in range(a[0], a[-1] + 1) for _ in range(dup)]
    pdf = pd.DataFrame({"x": range(len(vals))}, index=vals)
    return pdf, rt.dx.repartition(pdf, list(a))


def spec_outputs(pdf, b):
    outs = []
    for j in range(len(b) - 1):
        lo, hi = b[j], b[j + 1]
        m = (pdf.index >= lo) & ((pdf.index < hi) | ((j == len(b) - 2) & (pdf.index == hi)))
        outs.append(list(pdf.x[m]))
    return outs


def classify(a, b, force):
    """Known-finding classifier (kept for the record; D15 is fixed)."""
    return None


def divisions_sweep(run, V, maxlen, model):
    import rt
    import pandas as pd
    import dask
    vecs = div_vectors(V, maxlen)
    cases = [(a, b, f) for a in vecs for b in vecs for f in (False, True)]
    reqs, reals, e2e_bad = [], [], 0
    n_err = n_ok = 0
    srcs = {}
    for a, b, force in cases:
        if a not in srcs:
            srcs[a] = source(rt, pd, a)
        pdf, src = srcs[a]
        reqs.append("(repart_plan %s %s %s)" % (sx(list(a)), sx(list(b)), sx(force)))
        try:
            q = src.repartition(divisions=list(b), force=force)
            e = q.expr.lower_completely()
            if tuple(b) == tuple(a):
                reals.append(("same", None))
                n_ok += 1
                got = [list(p.x) for p in dask.get(e.__dask_graph__(), e.__dask_keys__())]
                if got != spec_outputs(pdf, b):
                    run.violation("repartition to identical divisions changed rows", {"a": a, "b": b, "force": force})
                continue
            rds = rt.find(e, "RepartitionDivisions")
            assert len(rds) == 1
            rd = rds[0]
            layer = rd._layer()
        except ValueError as ex:
            reals.append(("error", str(ex)[:60]))
            n_err += 1
            continue
        reals.append(("plan", canon_layer(layer, rd.frame._name, rd._name, a[0])))
        n_ok += 1
        # the property's own oracle on the real implementation: every output partition holds exactly
        # the rows of its target range, in the original order
        got = [list(p.x) for p in dask.get(e.__dask_graph__(), e.__dask_keys__())]
        exp = spec_outputs(pdf, b)
        if got != exp:
            e2e_bad += 1
            run.violation("repartition(divisions=%s, force=%s) of divisions %s: partitions %s, expected %s" % (list(b), force, list(a), got, exp),
                          {"kind": "divisions", "a": list(a), "b": list(b), "force": force, "got": got, "expected": exp},
                          finding=classify(a, b, force))
        if q.divisions != tuple(b):
            run.violation("reported divisions %s != requested %s" % (q.divisions, b), {"kind": "divisions", "a": list(a), "b": list(b), "force": force})
    ans = model.batch(reqs)
    # translation validation: every REAL plan is certified by the verified checker plan_ok (theorem plan_ok_sound)
    creqs = ["(plan_ok %s %s %s %s)" % (sx(list(a)), sx(list(b)), sx(real[0]), sx(real[1]))
             for (a, b, force), (kind, real) in zip(cases, reals) if kind == "plan"]
    cans = model.batch(creqs)
    uncert = sum(1 for x in cans if x != "true")
    if uncert:
        ex = [r for r, x in zip(creqs, cans) if x != "true"][:3]
        run.broken_tie("plan_ok rejects a real RepartitionDivisions plan", {"count": uncert, "examples": ex})
    run.section("repartition_divisions_certified", real_plans=len(creqs), certified_by_plan_ok=len(creqs) - uncert)
    bad = 0
    for (a, b, force), (kind, real), m in zip(cases, reals, ans):
        run.count(("div", a, b, force), nontrivial=(kind == "plan"))
        if kind == "same":
            continue
        exp = "none" if kind == "error" else "(some %s)" % sx(real)
        if m != exp:
            bad += 1
            if bad <= 5:
                run.broken_tie("T-LAYER RepartitionDivisions._layer", {"a": a, "b": b, "force": force, "model": m[:400], "real": exp[:400]})
    run.sample({"RepartitionDivisions": {"a": [0, 2, 4], "b": [0, 1, 4], "force": False,
                                         "model_plan": model.batch(["(repart_plan (0 2 4) (0 1 4) false)"])[0]}})
    run.section("repartition_divisions", domain_values=V, max_len=maxlen, triples=len(cases), accepted=n_ok, rejected=n_err,
                layer_disagreements=bad, e2e_mismatches=e2e_bad, exhaustive=True)
    return bad


def count_sweep(run, N, model):
    """RepartitionToFewer / RepartitionToMore for all (n_in, n_out) <= N."""
    import rt
    import pandas as pd
    import dask
    from dask.dataframe.core import _concat, split_evenly
    from operator import getitem
    pdf = pd.DataFrame({"x": range(2 * N)})
    bad = 0
    reqs, exps, tags = [], [], []
    Ndata = min(N, 14)
    for n_in in range(1, N + 1):
        df = rt.dx.from_pandas(pdf, npartitions=n_in, sort=False)
        assert df.npartitions == n_in
        dfu = df.clear_divisions()
        for n_out in range(1, N + 1):
            q = df.repartition(npartitions=n_out)
            e = q.expr.lower_completely()
            if n_out == n_in:
                continue
            if n_out < n_in:
                r = rt.find(e, "RepartitionToFewer")[0]
                bs = list(r._partitions_boundaries)
                # contract of the float-computed boundaries (precondition of theorem fewer_eq)
                ok = bs[0] == 0 and bs[-1] == n_in and all(x <= y for x, y in zip(bs, bs[1:])) and len(bs) == n_out + 1
                if not ok:
                    run.broken_tie("contract RepartitionToFewer._partitions_boundaries", {"n_in": n_in, "n_out": n_out, "bs": bs})
                layer = r._layer()
                real = []
                for i in range(len(bs) - 1):
                    t = layer[(r._name, i)]
                    assert t[0] is _concat and all(k[0] == r.frame._name for k in t[1])
                    real.append([k[1] for k in t[1]])
                assert len(layer) == len(bs) - 1
                reqs.append("(fewer_ranges %s)" % sx(bs)); exps.append(sx(real)); tags.append(("fewer", n_in, n_out))
            else:
                rm = rt.find(e, "RepartitionToMore")
                if not rm:
                    # known numeric divisions: Repartition._lower interpolates new divisions (np.interp, float code):
                    # contract = valid division vector with the old end points (precondition of the divisions theorem)
                    rd = rt.find(e, "RepartitionDivisions")[0]
                    nd = list(rd.new_divisions); od = rd.frame.divisions
                    ok = nd[0] == od[0] and nd[-1] == od[-1] and all(x < y for x, y in zip(nd, nd[1:-1])) and nd[-2] <= nd[-1]
                    if not ok:
                        run.broken_tie("contract Repartition._lower interpolated divisions", {"n_in": n_in, "n_out": n_out, "new": nd[:20], "old": list(od)[:20]})
                    run.count(("interp", n_in, n_out))
                    q = dfu.repartition(npartitions=n_out)
                    e = q.expr.lower_completely()
                r = rt.find(e, "RepartitionToMore")[0]
            if n_in <= Ndata and n_out <= Ndata:
                parts = dask.get(e.__dask_graph__(), e.__dask_keys__())
                got = [x for p in parts for x in p.x]
                if got != list(pdf.x) or len(parts) != n_out or q.npartitions != n_out:
                    run.violation("repartition(npartitions=%d) of %d partitions: rows %s" % (n_out, n_in, got[:20]),
                                  {"kind": "count", "n_in": n_in, "n_out": n_out})
    ans = model.batch(reqs)
    for t, m, e in zip(tags, ans, exps):
        run.count(t)
        if m != e:
            bad += 1
            if bad <= 5:
                run.broken_tie("T-LAYER %s" % t[0], {"case": t, "model": m[:300], "real": e[:300]})
    run.section("repartition_count", n_max=N, compared=len(tags), disagreements=bad, exhaustive=True)
    return bad


def api_sweep(run):
    """API-level oracle on index dtypes / duplicates across borders / empty partitions / size / freq / unknown divisions."""
    import rt
    import numpy as np
    import pandas as pd
    rng = np.random.RandomState(run.seed)
    n = 0
    def check(name, pdf, q, exact_order=True):
        nonlocal n
        n += 1
        run.count(("api", name, n))
        try:
            got = q.compute()
        except Exception as ex:
            run.violation("%s raised %r" % (name, ex), {"kind": "api", "name": name})
            return
        same = got.index.tolist() == pdf.index.tolist() and got.x.tolist() == pdf.x.tolist()
        if not same:
            run.violation("%s changed rows/order" % name, {"kind": "api", "name": name, "got": got.x.tolist()[:30]})
        if q.known_divisions:
            divs = q.divisions
            parts = rt.compute_expr(q.optimize(fuse=False).expr)
            for i, p in enumerate(parts):
                if len(p) and not (p.index.min() >= divs[i] and (p.index.max() < divs[i + 1] or (i == len(parts) - 1 and p.index.max() <= divs[i + 1]))):
                    run.violation("%s: partition %d outside divisions" % (name, i), {"kind": "api", "name": name})
    idxs = {
        "int-dups": np.sort(rng.randint(0, 12, size=40)),
        "float": np.sort(rng.randint(0, 30, size=40) / 2.0),
        "str": np.array(sorted("k%02d" % v for v in rng.randint(0, 20, size=40))),
        "datetime": pd.to_datetime("2020-01-01") + pd.to_timedelta(np.sort(rng.randint(0, 60, size=40)), unit="D"),
    }
    for nm, idx in idxs.items():
        pdf = pd.DataFrame({"x": range(len(idx))}, index=idx)
        for npart in (1, 3, 5):
            df = rt.dx.from_pandas(pdf, npartitions=npart)
            for k in (1, 2, 4, 7, 11):
                check("%s from %d to npartitions=%d" % (nm, npart, k), pdf, df.repartition(npartitions=k))
            if nm != "str":
                d = df.divisions
                mid = sorted(set([d[0], d[-1]] + list(pd.Series(idx).sample(3, random_state=int(rng.randint(1 << 30))))))
                check("%s from %d to divisions %s" % (nm, npart, mid), pdf, df.repartition(divisions=mid))
            check("%s from %d partition_size" % (nm, npart), pdf, df.repartition(partition_size="200B"))
            du = df.clear_divisions()
            check("%s unknown divisions to npartitions" % nm, pdf, du.repartition(npartitions=2))
            try:
                du.repartition(divisions=[idx[0], idx[-1]]).compute()
                run.violation("repartition(divisions=) with unknown divisions not rejected", {"kind": "api", "name": nm})
            except ValueError:
                pass
        if nm == "datetime":
            df = rt.dx.from_pandas(pdf, npartitions=3)
            for fr in ("7D", "30D", "1D"):
                check("freq=%s" % fr, pdf, df.repartition(freq=fr))
    # unsorted / malformed division vectors, with and without force, through the method and the function: each request must
    # either be refused or return exactly the rows, once, inside the requested divisions
    import itertools
    base = pd.DataFrame({"x": range(10)}, index=range(10))
    dbase = rt.dx.from_pandas(base, npartitions=2)
    vals = [-2, 0, 3, 5, 7, 9, 12]
    vecs = [list(v) for k in (2, 3, 4) for v in itertools.permutations(vals, k)]
    vecs = [v for i, v in enumerate(vecs) if v != sorted(v) and (i % (9 if run.tier == "quick" else 1) == 0)]
    for v in vecs:
        for force in (True, False):
            for how in ("method", "function"):
                n += 1
                run.count(("api-unsorted", tuple(v), force, how))
                r = try_(lambda: (dbase.repartition(divisions=v, force=force) if how == "method" else rt.dx.repartition(dbase, divisions=v, force=force)).compute())
                if r[0] == "raise":
                    continue
                if sorted(r[1].x.tolist()) != base.x.tolist():
                    run.violation("repartition(divisions=%s, force=%s) [%s] is accepted and returns %d rows (x: %s), the frame has 10" % (v, force, how, len(r[1]), sorted(r[1].x.tolist())[:14]),
                                  {"kind": "api-unsorted", "divisions": v, "force": force, "how": how})
    # several repartitionings of ONE frame evaluated in one graph (their helper keys must not collide): every variant must
    # return exactly the rows it returns alone
    import dask
    big = pd.DataFrame({"x": range(400), "y": [float(i) for i in range(400)]})
    dbig = rt.dx.from_pandas(big, npartitions=2)
    ts = pd.DataFrame({"x": range(24)}, index=pd.date_range("2021-01-01", periods=24, freq="D"))
    dts = rt.dx.from_pandas(ts, npartitions=3)
    families = {
        "partition_size": (big, [dbig.repartition(partition_size=sz) for sz in ("1kiB", "2kiB", "3kiB", "100kiB")]),
        "npartitions": (big, [dbig.repartition(npartitions=k) for k in (1, 3, 5, 7)]),
        "divisions": (big, [dbig.repartition(divisions=d) for d in ([0, 100, 399], [0, 50, 200, 399], [0, 399])]),
        "freq": (ts, [dts.repartition(freq=f) for f in ("2D", "3D", "5D")]),
        "mixed": (big, [dbig.repartition(npartitions=4), dbig.repartition(partition_size="2kiB"), dbig.repartition(divisions=[0, 10, 399])]),
    }
    for fam, (pdf, variants) in families.items():
        n += 1
        run.count(("api-joint", fam))
        try:
            joint = dask.compute(*variants)
        except Exception as ex:
            run.violation("joint evaluation of %d %s repartitionings of one frame raised %r" % (len(variants), fam, ex), {"kind": "api-joint", "family": fam})
            continue
        for i, got in enumerate(joint):
            if got.index.tolist() != pdf.index.tolist() or got.x.tolist() != pdf.x.tolist():
                run.violation("variant %d of %d %s repartitionings of one frame, evaluated in one graph, returns %d rows (first x: %s), expected %d" % (
                    i, len(variants), fam, len(got), got.x.tolist()[:6], len(pdf)), {"kind": "api-joint", "family": fam, "variant": i})
        cc = try_(lambda: rt.dx.concat(variants).compute())
        if cc[0] == "ok" and sorted(cc[1].x.tolist()) != sorted(pdf.x.tolist() * len(variants)):
            run.violation("concat of %d %s repartitionings of one frame has %d rows, expected %d" % (len(variants), fam, len(cc[1]), len(pdf) * len(variants)), {"kind": "api-joint", "family": fam})
    run.section("api", cases=n)


def run(run):
    run.trusted = common.COMMON_TRUSTED + [
        "methods.boundary_slice on an index-sorted partition = filter lo<=idx<hi (<= when closed); _concat / methods.concat = list append; split_evenly k p: k pieces whose concatenation is p (Section hypotheses, observed by the E2E sweeps)",
        "float arithmetic of RepartitionToFewer._partitions_boundaries and np.interp in Repartition._lower: contract-checked, not proved",
    ]
    run.rule = ("exhaustive: all (old divisions, new divisions, force) over an ordered domain incl. repeated last values and single-value ranges: "
                "real RepartitionDivisions._layer vs model repart_plan (structural) AND real computed partitions vs target ranges; all (n_in,n_out)<=N for count-based; "
                "API sweep over index dtypes; repartitioning of derived collections (concatenations with separated / touching / overlapping "
                "index ranges, partition selections, label slices, filters, chained repartitionings) vs pandas rows, input order and "
                "computed output partitions; non-trivial = a plan was produced (not rejected / identical)")
    run.proofs("PropC13.v")
    m = common.Model()
    quick = run.tier == "quick"
    divisions_sweep(run, 5 if quick else 7, 4 if quick else 6, m)
    count_sweep(run, 24 if quick else 100, m)
    api_sweep(run)
    c13_hist.history_sweep(run)
