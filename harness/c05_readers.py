"""C05, file readers with user supplied option objects.

The read tasks of one collection all carry the SAME option objects the user handed to the reader (the
``arrow_to_pandas`` / ``kwargs`` dicts, ``columns`` / ``filters`` lists, ``dtype`` dicts, ``args`` / ``kwargs`` of
``from_map``): they are inputs shared by several consumers exactly like a computed intermediate.  The property demands that

  * every dependency-respecting order of the graph gives the same partitions,
  * repeated computes of one collection (also after head(), after a partition subset, after a parent / sibling
    collection built from the same option objects was computed) give the same answer,
  * the user's objects are left as they were.

Oracle ("private inputs"): the same query built a second time from *copies* of the option objects and executed by an
executor that hands every task deep copies of everything it receives (embedded literals and the values of its
dependencies).  Under that executor no task can observe what another task did to its arguments, so if tasks do not modify
their inputs -- which is what the property states -- every real execution has to agree with it partition by partition,
dtypes included.  Nothing else is demanded (no comparison with pandas: that is C02's business).
"""
import copy
import gc
import os
import random
import shutil
import tempfile
import types
import weakref

import numpy as np
import pandas as pd

import common
import graphs
from e2e import try_, _short

BIG = 2 ** 60


# ----------------------------------------------------------------------------- data


def make_frame(seed, nrows, nulls, big):
    """Deterministic frame; nullable extension dtypes so that every file of a dataset has the same parquet schema."""
    rng = random.Random(seed)

    def maybe(v):
        return None if (nulls and rng.random() < 0.3) else v
    i = [maybe((BIG + 2 * rng.randrange(10 ** 6) + 1) if big else rng.randrange(-40, 40)) for _ in range(nrows)]
    if nulls and all(v is not None for v in i):
        i[rng.randrange(nrows)] = None
    f = [maybe(rng.randrange(-100, 100) / 4.0) for _ in range(nrows)]
    s = [maybe(rng.choice(["ab", "cd", "ef", "gh", ""])) for _ in range(nrows)]
    b = [maybe(rng.random() < 0.5) for _ in range(nrows)]
    pdf = pd.DataFrame({
        "i": pd.array(i, dtype="Int64"),
        "j": np.array([rng.randrange(0, 1000) for _ in range(nrows)], dtype="int64"),
        "f": pd.array(f, dtype="Float64").astype("float64") if not nulls else pd.array(f, dtype="Float64"),
        "s": pd.array(s, dtype="string"),
        "b": pd.array(b, dtype="boolean") if nulls else np.array(b, dtype=bool),
        "t": pd.Timestamp("2021-01-01") + pd.to_timedelta(np.arange(nrows) * 36, unit="h"),
        "k": np.arange(nrows, dtype="int64") % 3,
    })
    pdf.index = pd.Index(np.arange(nrows, dtype="int64") * 2 + 10, name="idx")
    return pdf


def cuts(seed, nrows, nfiles):
    rng = random.Random(seed + 17)
    if nfiles == 1:
        return [0, nrows]
    inner = sorted(rng.sample(range(1, nrows), nfiles - 1))
    return [0] + inner + [nrows]


def write_parquet(pdf, bounds, path, index):
    os.makedirs(path)
    for n, (a, b) in enumerate(zip(bounds, bounds[1:])):
        # written by pandas / pyarrow, not by the tree under test
        pdf.iloc[a:b].to_parquet(os.path.join(path, "part.%d.parquet" % n), index=index)


def write_csv(pdf, bounds, path):
    os.makedirs(path)
    for n, (a, b) in enumerate(zip(bounds, bounds[1:])):
        pdf.iloc[a:b][["i", "j", "f", "s", "k"]].to_csv(os.path.join(path, "part.%d.csv" % n), index=False)


# ----------------------------------------------------------------------------- option objects of the user


def _tm_int(t):
    import pyarrow as pa
    if t == pa.int64():
        return pd.Int64Dtype()
    return None


def _tm_nullable(t):
    import pyarrow as pa
    return {pa.int64(): pd.Int64Dtype(), pa.float64(): pd.Float64Dtype(), pa.bool_(): pd.BooleanDtype()}.get(t)


def _tm_float(t):
    import pyarrow as pa
    if t == pa.float64():
        return pd.Float64Dtype()
    return None


def _tm_arrow_int(t):
    import pyarrow as pa
    if t == pa.int64():
        return pd.ArrowDtype(pa.int64())
    return None


def _tm_identity(t):
    return None


# name -> keyword arguments of read_parquet (fresh objects on every call)
PARQUET_OPTIONS = {
    "plain": lambda: {},
    "types_mapper int64->Int64": lambda: {"arrow_to_pandas": {"types_mapper": _tm_int}},
    "types_mapper nullable": lambda: {"arrow_to_pandas": {"types_mapper": _tm_nullable}},
    "types_mapper float64->Float64": lambda: {"arrow_to_pandas": {"types_mapper": _tm_float}},
    "types_mapper int64->int64[pyarrow]": lambda: {"arrow_to_pandas": {"types_mapper": _tm_arrow_int}},
    "types_mapper identity": lambda: {"arrow_to_pandas": {"types_mapper": _tm_identity}},
    "ignore_metadata=True": lambda: {"arrow_to_pandas": {"ignore_metadata": True}},
    "ignore_metadata=False + types_mapper": lambda: {"arrow_to_pandas": {"ignore_metadata": False, "types_mapper": _tm_nullable}},
    "integer_object_nulls": lambda: {"arrow_to_pandas": {"integer_object_nulls": True}},
    "strings_to_categorical": lambda: {"arrow_to_pandas": {"strings_to_categorical": True}},
    "types_mapper + integer_object_nulls": lambda: {"arrow_to_pandas": {"integer_object_nulls": True, "types_mapper": _tm_float}},
    "dtype_backend numpy_nullable": lambda: {"dtype_backend": "numpy_nullable"},
    "dtype_backend pyarrow": lambda: {"dtype_backend": "pyarrow"},
    "dtype_backend numpy_nullable + types_mapper": lambda: {"dtype_backend": "numpy_nullable", "arrow_to_pandas": {"types_mapper": _tm_arrow_int}},
    "columns list": lambda: {"columns": ["j", "i", "s", "k"]},
    "columns list + types_mapper": lambda: {"columns": ["i", "f", "k", "j"], "arrow_to_pandas": {"types_mapper": _tm_nullable}},
    "filters list": lambda: {"filters": [("k", ">", 0)]},
    "filters DNF + types_mapper": lambda: {"filters": [[("k", "==", 0)], [("j", ">", 300)]], "arrow_to_pandas": {"types_mapper": _tm_int}},
    "index=idx": lambda: {"index": "idx"},
    "index=idx calculate_divisions + types_mapper": lambda: {"index": "idx", "calculate_divisions": True, "arrow_to_pandas": {"types_mapper": _tm_nullable}},
}

CSV_OPTIONS = {
    "plain": lambda: {},
    "dtype dict": lambda: {"dtype": {"i": "Int64", "j": "float64", "s": "string"}},
    "dtype dict + na_values list": lambda: {"dtype": {"i": "Int64", "f": "float64"}, "na_values": ["ab", ""], "keep_default_na": True},
    "usecols list": lambda: {"usecols": ["i", "j", "k"], "dtype": {"i": "Int64"}},
    "converters dict": lambda: {"converters": {"j": _conv_j}, "dtype": {"i": "Int64"}},
    "dtype_backend numpy_nullable": lambda: {"dtype_backend": "numpy_nullable"},
}


def _conv_j(x):
    return int(x) * 2


def _fm_read(path, columns=None, opts=None, extra=None):
    """A user's from_map reader: options arrive in objects shared by all partitions."""
    out = pd.read_parquet(path, columns=columns)
    for c, dt in (opts or {}).get("astype", {}).items():
        if c in out.columns:
            out[c] = out[c].astype(dt)
    if extra:
        out = out.assign(**{n: v for n, v in extra})
    return out


FROM_MAP_OPTIONS = {
    "kwargs dict": lambda: {"opts": {"astype": {"j": "float64"}}},
    "kwargs dict + list": lambda: {"opts": {"astype": {"i": "Float64", "k": "int32"}}, "extra": [("z", 1), ("w", 2.5)]},
}


QUERIES = {
    "identity": lambda df: df,
    "projection": lambda df: df[["i", "k"]] if {"i", "k"} <= set(df.columns) else df[list(df.columns)[:2]],
    "column": lambda df: df["i"],
    "filter": lambda df: df[df.j > 200],
    "arithmetic": lambda df: df.i + df.j,
    "assign": lambda df: df.assign(z=df.j * 2),
    "shared read": lambda df: df.assign(z=df.i).assign(y=df.j + df.i),
    "sum": lambda df: df[["i", "j"]].sum(),
    "max": lambda df: df.i.max(),
    "count": lambda df: df.count(),
    "cumsum": lambda df: df[["i", "j"]].cumsum(),
    "map_partitions": lambda df: df.map_partitions(_dtypes_row),
}


def _dtypes_row(part):
    return part.assign(n=len(part))


# what happened to the collection / to the option objects before the executions that are compared
HISTORIES = ["fresh", "computed before", "one partition first", "head first", "parent computed", "sibling from the same option objects computed", "threads first"]


# ----------------------------------------------------------------------------- exact comparison


def _val(v):
    if v is None or v is pd.NA or v is pd.NaT:
        return None
    if isinstance(v, (float, np.floating)):
        return None if v != v else repr(float(v))
    if isinstance(v, (bool, np.bool_)):
        return bool(v)
    if isinstance(v, (int, np.integer)):
        return int(v)
    return str(v)


def _dt(dtype):
    s = str(dtype)
    if isinstance(dtype, pd.CategoricalDtype):
        s += repr([_val(c) for c in dtype.categories])
    return s


def exact(obj):
    """Comparable form that keeps dtypes (Int64 vs float64), exact integers, index and names."""
    if isinstance(obj, pd.DataFrame):
        return ("frame", [(str(c), _dt(t)) for c, t in obj.dtypes.items()], exact(obj.index),
                [[_val(v) for v in obj[c].tolist()] for c in obj.columns] if obj.columns.is_unique else [[_val(v) for v in r] for r in obj.itertuples(index=False, name=None)])
    if isinstance(obj, pd.Series):
        return ("series", None if obj.name is None else str(obj.name), _dt(obj.dtype), exact(obj.index), [_val(v) for v in obj.tolist()])
    if isinstance(obj, pd.Index):
        return ("index", None if obj.name is None else str(obj.name), _dt(obj.dtype), [_val(v) for v in obj.tolist()])
    if isinstance(obj, (np.generic, int, float, bool)) or obj is None or obj is pd.NA:
        return ("scalar", type(obj).__name__, _val(obj))
    return ("object", type(obj).__name__, str(obj))


def user_fp(x, depth=0):
    """State of an object of the user: container structure, identity of the leaves that are not plain values."""
    if isinstance(x, dict):
        return ("dict", sorted(((repr(k), user_fp(v, depth + 1)) for k, v in x.items()), key=lambda kv: kv[0]))
    if isinstance(x, (list, tuple)):
        return (type(x).__name__, [user_fp(v, depth + 1) for v in x])
    if isinstance(x, (set, frozenset)):
        return (type(x).__name__, sorted(repr(v) for v in x))
    if isinstance(x, (pd.DataFrame, pd.Series, pd.Index, np.ndarray)):
        return graphs.fingerprint(x)
    if isinstance(x, (str, bytes, int, float, bool, type(None))):
        return ("value", repr(x))
    return ("object", type(x).__name__, id(x))


def copy_containers(x):
    """What a user gets who writes the same options out a second time: new containers, the same leaves."""
    if isinstance(x, dict):
        return {k: copy_containers(v) for k, v in x.items()}
    if isinstance(x, list):
        return [copy_containers(v) for v in x]
    if isinstance(x, tuple):
        return tuple(copy_containers(v) for v in x)
    return x


# ----------------------------------------------------------------------------- the oracle: every task gets private inputs


def _private(v):
    if isinstance(v, (pd.DataFrame, pd.Series, pd.Index)):
        return v.copy(deep=True)
    if isinstance(v, np.ndarray):
        return v.copy()
    if isinstance(v, list):
        return [_private(x) for x in v]
    if isinstance(v, tuple):
        return tuple(_private(x) for x in v)
    if isinstance(v, dict):
        return {k: _private(x) for k, x in v.items()}
    return v


class _PrivateCache(dict):
    """Values of finished tasks; every consumer receives its own copy."""

    def __getitem__(self, k):
        return _private(dict.__getitem__(self, k))


def _fresh_task(t):
    """The task with every embedded literal copied (deep copy; where an object cannot be copied it is kept and only the
    containers around it are rebuilt)."""
    if isinstance(t, tuple):
        return tuple(_fresh_task(x) for x in t)
    if isinstance(t, list):
        return [_fresh_task(x) for x in t]
    if isinstance(t, dict):
        return {k: _fresh_task(x) for k, x in t.items()}
    if isinstance(t, (str, bytes, int, float, bool, type(None), type, types.FunctionType, types.BuiltinFunctionType, types.MethodType)):
        return t
    if type(t).__module__.split(".")[0] == "pyarrow":     # schemas, filesystems, expressions: immutable handles
        return t
    try:
        return copy.deepcopy(t)
    except Exception:
        return t


def run_private(expr):
    """Partitions of a lowered expression, each task executed on private copies of all it receives."""
    from dask.core import _execute_task
    info = graphs.analyse(expr)
    graph = info["graph"]
    cache = _PrivateCache()
    for k in info["order"]:          # a topological order (dependencies first)
        dict.__setitem__(cache, k, _execute_task(_fresh_task(graph[k]), cache))
    return [dict.__getitem__(cache, o) for o in info["outs"]]


# ----------------------------------------------------------------------------- cases


def build(rt, case, paths, options):
    """The collection of a case from the given option objects (a dict of keyword arguments of the reader)."""
    dx = rt.dx
    kind = case["reader"]
    if kind == "parquet-arrow":
        df = dx.read_parquet(paths[case["dataset"]], filesystem="arrow", **options)
    elif kind == "parquet-arrow-fs":
        import pyarrow.fs as pa_fs
        df = dx.read_parquet(paths[case["dataset"]], filesystem=pa_fs.LocalFileSystem(), **options)
    elif kind == "parquet-fsspec":
        df = dx.read_parquet(paths[case["dataset"]], **options)
    elif kind == "csv":
        df = dx.read_csv(os.path.join(paths[case["dataset"]], "*.csv"), **options)
    elif kind == "from_map":
        d = paths[case["dataset"]]
        files = sorted(os.path.join(d, f) for f in os.listdir(d))
        files.sort(key=lambda p: int(p.split(".")[-2]))
        df = dx.from_map(_fm_read, files, **options)
    else:
        raise KeyError(kind)
    return df


OPTION_TABLE = {"parquet-arrow": PARQUET_OPTIONS, "parquet-arrow-fs": PARQUET_OPTIONS, "parquet-fsspec": PARQUET_OPTIONS,
                "csv": CSV_OPTIONS, "from_map": FROM_MAP_OPTIONS}

# pristine findings: inputs for which the unmodified tree (with the installed dask) does not keep the user's object intact.
# They stay out of the "user object intact" comparison and are described in the report of this extension.
#   * parquet-fsspec + arrow_to_pandas: dask.dataframe.io.parquet.arrow.ArrowDatasetEngine._arrow_table_to_pandas writes
#     'types_mapper', 'use_threads', 'ignore_metadata' into the dict the user passed (idempotent: results do not change).
def _user_objects_exempt(case, options):
    return case["reader"] == "parquet-fsspec" and "arrow_to_pandas" in options


def datasets(tmp, specs):
    paths = {}
    for name, sp in specs.items():
        pdf = make_frame(sp["seed"], sp["nrows"], sp["nulls"], sp["big"])
        bounds = cuts(sp["seed"], sp["nrows"], sp["nfiles"])
        if sp["format"] == "parquet":
            write_parquet(pdf, bounds, os.path.join(tmp, name), sp["index"])
        else:
            write_csv(pdf, bounds, os.path.join(tmp, name))
        paths[name] = os.path.join(tmp, name)
    return paths


def dataset_specs(rng, quick):
    specs = {}
    n = 0
    for nfiles in (1, 2, 3, 5):
        for nulls in (False, True):
            for big in (False, True):
                if quick and nfiles in (1, 5) and not (nulls and big):
                    continue
                name = "pq%d" % n
                n += 1
                specs[name] = {"format": "parquet", "seed": rng.randrange(10 ** 6), "nfiles": nfiles, "nrows": nfiles * rng.randint(2, 4) + rng.randint(0, 2),
                               "nulls": nulls, "big": big, "index": True}
    for nfiles in (2, 4):
        specs["pqnoidx%d" % nfiles] = {"format": "parquet", "seed": rng.randrange(10 ** 6), "nfiles": nfiles, "nrows": nfiles * 3 + 1, "nulls": True, "big": True, "index": False}
    for nfiles in (2, 3):
        specs["csv%d" % nfiles] = {"format": "csv", "seed": rng.randrange(10 ** 6), "nfiles": nfiles, "nrows": nfiles * 3 + 2, "nulls": nfiles == 3, "big": nfiles == 3, "index": False}
    return specs


def cases(rng, specs, quick):
    """The family: reader x option objects x dataset (files, nulls, large integers) x query x history x fusion."""
    pq = [n for n, sp in specs.items() if sp["format"] == "parquet"]
    pq_idx = [n for n in pq if specs[n]["index"]]
    csvs = [n for n, sp in specs.items() if sp["format"] == "csv"]
    qnames = list(QUERIES)
    out = []
    serial = [0]

    def add(reader, option, dataset, query, history, fuse):
        serial[0] += 1
        out.append({"kind": "reader-options", "reader": reader, "options": option, "dataset": dataset, "spec": specs[dataset],
                    "query": query, "history": history, "fuse": fuse, "order_seed": rng.randrange(10 ** 6)})
    # every option kind of the two pyarrow-filesystem spellings and of the fsspec reader, over datasets and histories
    for reader in ("parquet-arrow", "parquet-arrow-fs", "parquet-fsspec"):
        for oi, option in enumerate(PARQUET_OPTIONS):
            reps = 1 if (quick and (reader != "parquet-arrow" or "types_mapper" not in option)) else (2 if quick else 6)
            if quick and reader != "parquet-arrow" and oi % 2 == (reader == "parquet-fsspec"):
                continue
            for r in range(reps):
                pool = pq_idx if "idx" in option else pq
                add(reader, option, rng.choice(pool), "identity" if r == 0 else rng.choice(qnames), HISTORIES[(oi + r + len(reader)) % len(HISTORIES)] if r < 2 else rng.choice(HISTORIES), bool((oi + r) % 2))
    # every history and every query at least once with a dtype changing mapper on a multi-file dataset
    multi = [n for n in pq if specs[n]["nfiles"] >= 2]
    for h in HISTORIES:
        add("parquet-arrow", rng.choice(["types_mapper int64->Int64", "types_mapper nullable", "ignore_metadata=False + types_mapper"]), rng.choice(multi), rng.choice(["identity", "projection", "assign"]), h, rng.random() < 0.5)
    for q in (rng.sample(qnames, 6) if quick else qnames):
        add("parquet-arrow", rng.choice(["types_mapper nullable", "types_mapper float64->Float64", "strings_to_categorical", "integer_object_nulls", "dtype_backend pyarrow"]), rng.choice(multi), q, rng.choice(HISTORIES), rng.random() < 0.5)
    for option in CSV_OPTIONS:
        for r in range(1 if quick else 3):
            add("csv", option, rng.choice(csvs), rng.choice(["identity", "column", "filter", "sum", "assign"]), rng.choice(HISTORIES), rng.random() < 0.5)
    for option in FROM_MAP_OPTIONS:
        for r in range(2 if quick else 4):
            add("from_map", option, rng.choice(multi), rng.choice(["identity", "projection", "arithmetic", "sum"]), rng.choice(HISTORIES), rng.random() < 0.5)
    return out


def _tag(case):
    sp = case["spec"]
    return "%s(%s) on %d file(s)%s%s | %s | history: %s | fuse=%s" % (case["reader"], case["options"], sp["nfiles"], " nulls" if sp["nulls"] else "", " ints>2**53" if sp["big"] else "",
                                                                      case["query"], case["history"], case["fuse"])


def _apply_history(rt, case, paths, base, coll, options):
    """Returns None, or ("raise", msg) when the preceding use of the collection fails."""
    import dask
    h = case["history"]
    if h == "fresh":
        return None
    if h == "computed before":
        r = try_(lambda: coll.compute(scheduler="sync"))
    elif h == "one partition first":
        j = getattr(coll, "npartitions", 1) - 1
        r = try_(lambda: coll.partitions[j].compute(scheduler="sync") if hasattr(coll, "partitions") and coll.npartitions > 1 else coll.compute(scheduler="sync"))
    elif h == "head first":
        r = try_(lambda: coll.head(2, npartitions=1) if hasattr(coll, "head") else coll.compute(scheduler="sync"))
    elif h == "parent computed":
        r = try_(lambda: base.compute(scheduler="sync"))
    elif h == "sibling from the same option objects computed":
        # the user reuses the option objects for a second reader call (a different query on the same files)
        sib = try_(lambda: build(rt, case, paths, options))
        if sib[0] == "raise":
            return sib
        r = try_(lambda: (sib[1][[list(sib[1].columns)[0]]]).compute(scheduler="sync"))
    elif h == "threads first":
        r = try_(lambda: coll.compute(scheduler="threads", num_workers=3))
    else:
        raise KeyError(h)
    return r if r[0] == "raise" else None


def check_case(run, rt, case, paths, quick):
    """One case.  Returns a short status (for the section statistics)."""
    import dask
    tag = _tag(case)
    rng = random.Random(case["order_seed"])
    query = QUERIES[case["query"]]
    mk = OPTION_TABLE[case["reader"]][case["options"]]
    options = mk()                      # the user's objects
    fp0 = user_fp(options)
    # ---- oracle first (nothing of the real collection has run yet): same query from copies, private inputs for every task
    ref_opts = copy_containers(options)
    alive = []

    def oracle_query(opts):
        base = build(rt, case, paths, opts)
        alive.append(weakref.ref(base.expr))
        return query(base)
    ref = try_(lambda: run_private(oracle_query(ref_opts).optimize(fuse=case["fuse"]).expr))
    if ref[0] == "raise":
        if os.environ.get("C05_READERS_DEBUG"):
            print("oracle raises:", ref[1], tag)
        return "oracle raises"
    ref = [exact(p) for p in ref[1]]
    # a fresh collection (again from copies) computed once through the real scheduler: tells whether compute() of this query
    # works at all (its final concatenation may fail whatever the schedule) and what a first compute returns
    whole = try_(lambda: exact(oracle_query(copy_containers(ref_opts)).compute(scheduler="sync")))
    if user_fp(options) != fp0:
        return "oracle touched the user's objects"      # cannot happen: they were not handed over
    # expressions are interned by name while alive: let the oracle's expressions go before the user's objects are handed over
    if any(w() is not None for w in alive):
        gc.collect()
    # ---- the real collection
    built = try_(lambda: build(rt, case, paths, options))
    if built[0] == "raise":
        run.violation("building the collection fails (%s) after the same query was built from copies of the option objects [%s]" % (built[1], tag), case)
        return "violation"
    base = built[1]
    coll = try_(lambda: query(base))
    if coll[0] == "raise":
        run.violation("building the query fails (%s) after the same query was built from copies of the option objects [%s]" % (coll[1], tag), case)
        return "violation"
    coll = coll[1]
    hr = _apply_history(rt, case, paths, base, coll, options)
    if hr is not None and whole[0] == "ok" and case["history"] in ("computed before", "threads first"):
        run.violation("%s fails (%s) but compute() of a fresh collection of the same query succeeds [%s]" % (case["history"], hr[1], tag), case)
        return "violation"
    e = try_(lambda: coll.optimize(fuse=case["fuse"]).expr)
    info = try_(lambda: graphs.analyse(e[1])) if e[0] == "ok" else e
    if info[0] == "raise":
        run.violation("materializing the graph fails (%s) but the query computes when every task has private inputs [%s]" % (info[1], tag), case)
        return "violation"
    info = info[1]
    nout = len(info["outs"])
    if nout != len(ref):
        run.violation("%d output partitions, %d when built from copies of the option objects [%s]" % (nout, len(ref), tag), case)
        return "violation"
    # orders: each output partition's sub-graph first (adversarial for anything the first task consumes), then the usual policies
    firsts = list(range(nout))
    rng.shuffle(firsts)
    firsts = firsts[: (2 if quick else 5)]
    schedules = [("demand, output %d first" % j, j) for j in firsts] + [(p, None) for p in (["reverse", "random"] if quick else ["fifo", "reverse", "lifo", "random", "random", "random"])]
    for pol, first in schedules:
        if first is None:
            r = try_(lambda: graphs.run_schedule(info, rng, pol))
        else:
            perm = [first] + [x for x in range(nout) if x != first]
            rr = try_(lambda: graphs.run_schedule(dict(info, outs=[info["outs"][x] for x in perm]), rng, "demand"))
            if rr[0] == "ok":
                vals = [None] * nout
                for pos, x in enumerate(perm):
                    vals[x] = rr[1][0][pos]
                r = ("ok", (vals, rr[1][1]))
            else:
                r = rr
        if r[0] == "raise":
            run.violation("execution in order '%s' fails (%s) but the query computes when every task has private inputs [%s]" % (pol, r[1], tag), dict(case, schedule=pol))
            return "violation"
        vals, muts = r[1]
        bad = False
        for mu in muts[:2]:
            run.violation("%s [%s]" % (mu, tag), dict(case, schedule=pol))
            bad = True
        for i, (v, want) in enumerate(zip(vals, ref)):
            got = exact(v)
            if got != want:
                run.violation("partition %d computed in order '%s' differs from the same partition computed with private task inputs: %s vs %s [%s]" % (i, pol, _short(got), _short(want), tag),
                              dict(case, schedule=pol, partition=i))
                bad = True
                break
        if bad:
            return "violation"
    # repeated computes of the one collection, sequentially and on threads
    results = []
    for how, kw in (("first compute", {"scheduler": "sync"}), ("second compute", {"scheduler": "sync"}), ("compute on 4 threads", {"scheduler": "threads", "num_workers": 4}),
                    ) + (() if quick else (("third compute", {"scheduler": "sync"}),)):
        r = try_(lambda: coll.compute(**kw))
        if r[0] == "raise" and whole[0] == "raise":
            break           # compute() of this query fails on a fresh collection as well: nothing to compare
        if r[0] == "raise":
            run.violation("%s fails (%s) but compute() of a fresh collection of the same query succeeds [%s]" % (how, r[1], tag), dict(case, compute=how))
            return "violation"
        results.append((how, exact(r[1])))
    for how, got in results[1:]:
        if got != results[0][1]:
            run.violation("%s of one collection differs from its first compute: %s vs %s [%s]" % (how, _short(got), _short(results[0][1]), tag), dict(case, compute=how))
            return "violation"
    if whole[0] == "ok" and results and whole[1] != results[0][1]:
        run.violation("compute() differs from compute() of the same query built from fresh copies of the option objects: %s vs %s [%s]" % (_short(results[0][1]), _short(whole[1]), tag), dict(case, compute="fresh"))
        return "violation"
    # the user's objects
    if user_fp(options) != fp0 and not _user_objects_exempt(case, options):
        run.violation("the option objects the user passed to the reader were modified: now %s, before %s [%s]" % (_short(_show(options)), _short(_show(ref_opts)), tag), dict(case, compute="user objects"))
        return "violation"
    return "ok"


def _show(x):
    if isinstance(x, dict):
        return {k: _show(v) for k, v in x.items()}
    if isinstance(x, (list, tuple)):
        return [_show(v) for v in x]
    return getattr(x, "__name__", None) or repr(x)[:40]


def run_family(run, rt):
    quick = run.tier == "quick"
    rng = random.Random(run.rng.randrange(10 ** 9))
    tmp = tempfile.mkdtemp(prefix="c05_", dir=common.BUILD)
    stats = {}
    try:
        specs = dataset_specs(rng, quick)
        paths = datasets(tmp, specs)
        todo = cases(rng, specs, quick)
        for case in todo:
            multi = case["spec"]["nfiles"] >= 2
            run.count(("reader-options", case["reader"], case["options"], case["spec"]["nfiles"], case["spec"]["nulls"], case["spec"]["big"], case["query"], case["history"], case["fuse"]),
                      nontrivial=multi or case["history"] != "fresh")
            st = check_case(run, rt, case, paths, quick)
            stats[st] = stats.get(st, 0) + 1
        run.section("reader option objects", cases=len(todo), datasets=len(specs), **{k.replace(" ", "_").replace("'", ""): v for k, v in stats.items()})
    finally:
        shutil.rmtree(tmp, ignore_errors=True)
