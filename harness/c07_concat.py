"""C07 family: declared schema of concatenations.

dd.concat derives its declaration (Concat._meta) by concatenating non-empty stand-ins of the inputs' metas, while the data
is produced by one of five lowered forms (StackPartition: partitions stacked, a partition whose meta differs from the
declared one is aligned with the declared meta at run time; StackPartitionInterleaved: repartitioned inputs concatenated
partition by partition; ConcatIndexed / ConcatUnindexed / the interleaved form for axis=1), after casts (AsType) inserted
by the lowering and after the projection push-down narrowed every input.  Each of these paths receives the user's options
(join, ignore_order, interleave_partitions, axis) separately, so the declaration and the data can drift apart.

The family enumerates
  shapes     2-3 inputs whose column sets are identical / reordered / overlapping / nested / disjoint, with shared columns
             of equal or different dtypes (int/float/int32/str/bool/category with equal or different categories/datetime),
             Series inputs (equal names, different names, unnamed) and Series mixed with frames,
  layouts    index ranges that are monotonic across the inputs, overlapping, unknown (divisions cleared), partly unknown,
             with a named index; 1-3 partitions per input,
  options    join inner/outer x interleave_partitions x ignore_order x axis 0/1,
  data       with and without missing values (float with NaN, strings with None, a float column whose first partition is
             all-null), inputs whose leading partitions are empty (a filter below the concat),
  consumers  nothing, column / column-list selections (pushed into the inputs), filter, elementwise, reset_index, head,
             repartition, map_partitions, reductions, index, a second concat on top.

Oracles (c07_sources.check_query, all from the property text): the declared schema of the query (container kind, labels and
their order, names, dtype kinds; through _meta and through the accessors) equals that of compute() and of EVERY partition
of the plan lowered without optimization / optimized / optimized + fused; the optimized plans declare what the query
declares; every node of the optimized plans declares what its own partitions carry.
"""
import time

from e2e import try_
import c07_sources

N = 12

DEFAULT = {"a": "int", "k": "int", "v": "float", "w": "str", "b": "bool", "c": "cat", "t": "dt", "e": "float0", "n": "i32"}


def _values(dt, n, nulls, j):
    import numpy as np
    import pandas as pd
    if dt == "int":
        return [(i * 7 + j) % 11 for i in range(n)]
    if dt == "i32":
        return np.array([(i * 5 + j) % 7 for i in range(n)], dtype="int32")
    if dt == "float":
        return [np.nan if (nulls and i % 4 == 1) else i * 1.5 + j for i in range(n)]
    if dt == "float0":                                  # first third all-null
        return [np.nan if (nulls and i < n // 3) else 0.25 * i + j for i in range(n)]
    if dt == "str":
        return [None if (nulls and i % 5 == 2) else "s%d" % ((i + j) % 5) for i in range(n)]
    if dt == "bool":
        return [(i + j) % 2 == 0 for i in range(n)]
    if dt == "cat":
        return pd.Categorical([["x", "y", "z"][(i + j) % 3] for i in range(n)], categories=["x", "y", "z"])
    if dt == "cat2":
        return pd.Categorical([["y", "z", "q"][(i + j) % 3] for i in range(n)], categories=["y", "z", "q"])
    if dt == "dt":
        return pd.date_range("2021-01-01", periods=n, freq="D") + pd.Timedelta(days=j)
    raise KeyError(dt)


def _split(spec):
    name, _, dt = spec.partition(":")
    return name, dt or DEFAULT[name]


# shape name -> inputs; an input is a list of column specs (a frame) or ("series", spec, name) (a Series named `name`)
SHAPES = {
    "identical": [["a", "k", "v"], ["a", "k", "v"]],
    "reordered": [["a", "k", "v"], ["v", "a", "k"]],
    "overlap": [["a", "k", "v"], ["v", "k", "w"]],
    "overlap-str-bool": [["w", "b", "k"], ["b", "e", "w"]],
    "nested": [["a", "k", "v", "w"], ["k", "w"]],
    "nested-second": [["k"], ["a", "k", "v"]],
    "three": [["a", "k", "v"], ["v", "k", "w"], ["k", "b", "v"]],
    "three-middle-wider": [["k", "v"], ["a", "k", "v"], ["k", "v"]],
    "three-last-wider": [["v", "k"], ["v", "k"], ["v", "k", "w", "t"]],
    "disjoint": [["a", "b"], ["w", "t"]],
    "int-vs-float": [["a", "k", "v"], ["k:float", "v", "w"]],
    "int32-vs-int64": [["n", "v"], ["v", "n:int", "b"]],
    "int-vs-str": [["k", "v"], ["k:str", "v", "a"]],
    # categoricals only between inputs with the same labels: see LEFT OUT below
    "category": [["c", "k", "a"], ["k", "a", "c"]],
    "category-other": [["c", "k"], ["k", "c:cat2"]],
    "datetime-bool": [["t", "b", "k"], ["b", "k", "t", "v"]],
    "wide": [["a", "k", "v", "w", "b"], ["b", "w", "e", "k"]],
    "all-null-part": [["e", "k", "w"], ["k", "e", "a"]],
    "series-same-name": [("series", "k", "k"), ("series", "k", "k")],
    "series-different-names": [("series", "k", "k"), ("series", "v", "v")],
    "series-unnamed": [("series", "k", None), ("series", "a", None)],
    "series-str-vs-int": [("series", "w", "x"), ("series", "k", "x")],
    "frame+series": [["a", "k"], ("series", "k", "k")],
    "series+frame": [("series", "v", "v"), ["v", "k", "w"]],
}
# LEFT OUT (the unmodified tree violates the property there; reported as pristine findings, not part of the family):
#  * row-wise concat of Series with different names: declared name None, the partitions keep 'k' / 'v' (check_meta does not
#    compare names, so no partition is aligned), concat([f.k, f.v]).reset_index() declares ['index', 0], computes ['index', 'k', 'v']
#  * row-wise concat of Series with different dtypes (int64 + float64): declared float64, the int partitions stay int64
#    (Concat._lower tests is_series_like(expr), which is False for an expression, so no cast is inserted)
#  * inputs with a categorical column and different labels: dask's concat of categoricals ignores `join` and the labels of all inputs
#    but the first (declared and computed agree on the labels of the first input), then concat(join="inner")[["a"]] with "a" in the
#    first input only raises KeyError in optimize() while the plan lowered without optimization computes
#  * fillna(0) over a datetime column with missing values (declared datetime64, computed object): see the fillna consumer
ROWWISE_LEFT_OUT = ("series-different-names",)
FRAME_SHAPES = [s for s, ins in SHAPES.items() if all(isinstance(i, list) for i in ins)]
SERIES_SHAPES = [s for s in SHAPES if s not in FRAME_SHAPES]
# shapes whose inputs do not all have the same labels: the ones a join option matters for
UNEQUAL_SHAPES = [s for s in FRAME_SHAPES if len({tuple(sorted(_split(c)[0] for c in i)) for i in SHAPES[s]}) > 1]
ROWWISE_SHAPES = [s for s in SHAPES if s not in ROWWISE_LEFT_OUT]

# layout -> (index start of input j, known divisions of input j, index name of input j)
LAYOUTS = {
    "monotonic": (lambda j: 100 * j, lambda j: True, lambda j: None),
    "overlapping": (lambda j: 2 * j, lambda j: True, lambda j: None),
    "unknown": (lambda j: 100 * j, lambda j: False, lambda j: None),
    "partly-unknown": (lambda j: 100 * j, lambda j: j != 1, lambda j: None),
    "named-index": (lambda j: 100 * j, lambda j: True, lambda j: "idx"),
    "named-index-overlapping": (lambda j: 3 * j, lambda j: True, lambda j: "idx"),
}
# axis=1 joins the inputs on their index labels
LAYOUTS_AXIS1 = {
    "co-aligned": (lambda j: 0, lambda j: True, lambda j: None),
    "shifted": (lambda j: 3 * j, lambda j: True, lambda j: None),
    "unknown": (lambda j: 0, lambda j: False, lambda j: None),
    "named-index": (lambda j: 2 * j, lambda j: True, lambda j: "idx"),
}

HISTORIES = ("none", "empty-leading", "elementwise")


def _identity(p):
    return p


def _relabelled(q):
    q = q.copy()
    q.columns = ["c%d_" % i for i in range(len(q.columns))]
    return q


def _fillna(q):
    # pandas turns a datetime column with missing values into object under fillna(0); the declaration (made on stand-ins without
    # missing values) says datetime64 on the unmodified tree as well: not a matter of the concat, left out
    if any(str(t).startswith("datetime") for t in q.dtypes):
        raise ValueError("fillna(0) over a datetime column")
    return q.fillna(0)


def frame_consumers(dx):
    return {
        "plain": lambda q: q,
        "first column": lambda q: q[q.columns[0]],
        "last column as list": lambda q: q[[q.columns[-1]]],
        "reversed columns": lambda q: q[list(reversed(list(q.columns)))],
        "all but first": lambda q: q[list(q.columns)[1:]],
        "filter": lambda q: q[q[q.columns[0]].notnull()],
        "filter then column": lambda q: q[q[q.columns[0]].notnull()][q.columns[-1]],
        "isna": lambda q: q.isna(),
        "fillna": _fillna,
        "dropna": lambda q: q.dropna(),
        "reset_index": lambda q: q.reset_index(),
        "reset_index drop": lambda q: q.reset_index(drop=True),
        "head": lambda q: q.head(3, compute=False),
        "tail": lambda q: q.tail(2, compute=False),
        "repartition": lambda q: q.repartition(npartitions=1),
        "map_partitions": lambda q: q.map_partitions(_identity),
        "count": lambda q: q.count(),
        "index": lambda q: q.index,
        "last partition": lambda q: q.partitions[[q.npartitions - 1]],
        "assign": lambda q: q.assign(extra_=q[q.columns[0]]),
        "rename": lambda q: q.rename(columns={q.columns[0]: "renamed_"}),
        "positional relabel": _relabelled,
        "concat again": lambda q: dx.concat([q, q]),
        "concat again inner": lambda q: dx.concat([q, q[list(q.columns)[:1]]], join="inner"),
        "two selections": lambda q: q[[q.columns[0]]].isna() | q[[q.columns[1], q.columns[0]]].isna(),
    }


def series_consumers(dx):
    return {
        "plain": lambda q: q,
        "isna": lambda q: q.isna(),
        "to_frame": lambda q: q.to_frame(),
        "filter": lambda q: q[q.notnull()],
        "head": lambda q: q.head(3, compute=False),
        "index": lambda q: q.index,
        "count": lambda q: q.count(),
        "rename": lambda q: q.rename("renamed_"),
        "repartition": lambda q: q.repartition(npartitions=1),
        "reset_index": lambda q: q.reset_index(),
        "map_partitions": lambda q: q.map_partitions(_identity),
    }


# ----------------------------------------------------------------------------- building one case


def build_input(dx, inp, j, case):
    """Input j of the concat: (dask collection, pandas object)."""
    import pandas as pd
    layouts = LAYOUTS_AXIS1 if case["axis"] == 1 else LAYOUTS
    start, known, iname = layouts[case["layout"]]
    nulls, npart, hist = case["nulls"], case["nparts"][j], case["history"]
    index = pd.RangeIndex(start(j), start(j) + N, name=iname(j))
    if isinstance(inp, list):
        cols = [_split(s) for s in inp]
        data = {name: _values(dt, N, nulls, j) for name, dt in cols}
        if case["axis"] == 1:                       # column-wise: the labels of the inputs must not collide
            data = {"%s%d" % (name, j): v for name, v in data.items()}
        pdf = pd.DataFrame(data, index=index)
        labels = list(pdf.columns)
        if hist == "empty-leading":
            pdf["_r"] = range(N)
    else:
        _, spec, sname = inp
        name, dt = _split(spec)
        if case["axis"] == 1 and sname is not None:
            sname = "%s%d" % (sname, j)
        # a column of a frame source (a Series handed to from_pandas is a source of its own kind, not this family's business)
        pdf = pd.DataFrame({name: _values(dt, N, nulls, j), "_r": range(N)}, index=index)
        labels = None
    f = dx.from_pandas(pdf, npartitions=npart, sort=True)
    if not known(j):
        f = f.clear_divisions()
    if hist == "empty-leading":
        f = f[f["_r"] >= N // 2]
        if labels is not None:
            f = f[labels]
    if labels is None:
        f = f[name] if sname == name else f[name].rename(sname)
    if hist == "elementwise":
        f = f.where(f.notnull())
    return f


def build_query(dx, case):
    ins = [build_input(dx, inp, j, case) for j, inp in enumerate(SHAPES[case["shape"]])]
    kw = {}
    if case["join"] != "outer":
        kw["join"] = case["join"]
    if case["axis"] != 0:
        kw["axis"] = case["axis"]
        kw["ignore_unknown_divisions"] = True
    if case["interleave"]:
        kw["interleave_partitions"] = True
    if case["ignore_order"]:
        kw["ignore_order"] = True
    q = dx.concat(ins, **kw)
    cons = frame_consumers(dx) if q.ndim == 2 else series_consumers(dx)
    return cons[case["consumer"]](q)


# ----------------------------------------------------------------------------- driver


def _case(shape, layout, nparts, join, axis=0, interleave=False, ignore_order=False, nulls=False, history="none", consumer="plain"):
    return {"kind": "concat", "shape": shape, "inputs": [i if isinstance(i, list) else list(i) for i in SHAPES[shape]], "layout": layout,
            "nparts": list(nparts), "join": join, "axis": axis, "interleave": interleave, "ignore_order": ignore_order,
            "nulls": nulls, "history": history, "consumer": consumer}


def _nparts(rng, shape, same=False):
    k = len(SHAPES[shape])
    if same:
        return [rng.choice((1, 2, 3))] * k
    return [rng.choice((1, 2, 3)) for _ in range(k)]


def plan(rng, quick):
    fnames, snames = sorted(frame_consumers(None)), sorted(series_consumers(None))
    cases = []
    # core grid: every join x every layout (both interleave settings) over inputs with unequal columns, unconsumed and consumed
    for join in ("inner", "outer"):
        for layout in LAYOUTS:
            for interleave in (False, True):
                shapes = rng.sample(UNEQUAL_SHAPES, 1 if quick else len(UNEQUAL_SHAPES))
                for shape in shapes:
                    base = dict(join=join, interleave=interleave, nulls=rng.random() < 0.5)
                    cons = ["plain", rng.choice(fnames)] if (quick and not interleave) else (["plain"] if quick else ["plain"] + rng.sample(fnames, 3))
                    for cn in cons:
                        cases.append(_case(shape, layout, _nparts(rng, shape), consumer=cn, **base))
    # every shape at least once, random options
    for shape in ROWWISE_SHAPES:
        for _ in range(1 if quick else 12):
            series = shape in SERIES_SHAPES
            cases.append(_case(shape, rng.choice(sorted(LAYOUTS)), _nparts(rng, shape), rng.choice(("inner", "outer")), interleave=rng.random() < 0.4,
                               ignore_order=rng.random() < 0.3, nulls=rng.random() < 0.5, history=rng.choice(HISTORIES),
                               consumer=rng.choice(snames if series and shape not in ("frame+series", "series+frame") else fnames)))
    # every consumer at least once over an inner join of unequal inputs on the stacking path, and histories
    for cn in (rng.sample(fnames, 4) if quick else fnames):
        shape = rng.choice(UNEQUAL_SHAPES)
        cases.append(_case(shape, rng.choice(("monotonic", "unknown", "overlapping")), _nparts(rng, shape), "inner", nulls=rng.random() < 0.5,
                           history=rng.choice(HISTORIES), consumer=cn))
    # column-wise
    ax1 = sorted(SHAPES)
    for layout in LAYOUTS_AXIS1:
        for join in ("inner", "outer"):
            for shape in rng.sample(ax1, 1 if quick else 8):
                same = layout in ("co-aligned", "unknown")
                cases.append(_case(shape, layout, _nparts(rng, shape, same=same), join, axis=1, interleave=rng.random() < 0.3, nulls=rng.random() < 0.5,
                                   history=rng.choice(("none", "none", "elementwise")), consumer=rng.choice(["plain", rng.choice(fnames)])))
    if not quick:
        for _ in range(600):
            shape = rng.choice(sorted(ROWWISE_SHAPES))
            series = shape in SERIES_SHAPES and shape not in ("frame+series", "series+frame")
            cases.append(_case(shape, rng.choice(sorted(LAYOUTS)), _nparts(rng, shape), rng.choice(("inner", "outer")), interleave=rng.random() < 0.4,
                               ignore_order=rng.random() < 0.3, nulls=rng.random() < 0.5, history=rng.choice(HISTORIES), consumer=rng.choice(snames if series else fnames)))
    return cases


def describe(case):
    return "concat(%s, axis=%d, join=%r%s%s) of %s [layout %s, partitions %s, %s, history %s] -> %s" % (
        case["shape"], case["axis"], case["join"], ", interleave_partitions=True" if case["interleave"] else "", ", ignore_order=True" if case["ignore_order"] else "",
        case["inputs"], case["layout"], case["nparts"], "missing values" if case["nulls"] else "no missing values", case["history"], case["consumer"])


def run_family(run):
    import rt
    dx = rt.dx
    quick = run.tier == "quick"
    n = bad = skipped = 0
    per = {}
    lowered_forms = {}
    done = set()
    t0 = time.time()
    for case in plan(run.rng, quick):
        key = tuple(sorted((k, repr(v)) for k, v in case.items()))
        if key in done:
            continue
        done.add(key)
        q = try_(lambda: build_query(dx, case))
        if q[0] == "raise":
            skipped += 1                  # the query cannot be built (consumer does not apply / rejected combination): nothing is declared
            continue
        run.count(("concat",) + key, nontrivial=sum(case["nparts"]) > 2)
        n += 1
        per[(case["axis"], case["join"])] = per.get((case["axis"], case["join"]), 0) + 1
        lo = try_(lambda: [type(x).__name__ for x in q[1].expr.lower_completely().walk() if "Concat" in type(x).__name__ or "StackPartition" in type(x).__name__])
        for nm in (sorted(set(lo[1])) if lo[0] == "ok" else ()):
            lowered_forms[nm] = lowered_forms.get(nm, 0) + 1
        res = try_(lambda: c07_sources.check_query(q[1], node_stages=("optimized",) if quick else ("optimized", "fused")))
        if res[0] == "raise":
            bad += 1
            run.violation("%s: reading the declared schema raises %s" % (describe(case), res[1]), case)
        elif res[1] is None:
            skipped += 1
        elif res[1]:
            bad += 1
            run.violation("%s: %s" % (describe(case), res[1][0]), dict(case, findings=res[1][:8]))
    run.section("concatenations", cases=n, violations=bad, skipped=skipped, per_axis_join={"axis=%d/%s" % k: v for k, v in sorted(per.items())},
                lowered_forms=lowered_forms, wall_s=round(time.time() - t0, 1))


def replay_case(case):
    import rt
    return c07_sources.check_query(build_query(rt.dx, case)) or []
