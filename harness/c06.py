"""C06 -- reported partition structure (npartitions, divisions, lengths) is truthful."""
import common
import progcheck
from e2e import exec_expr, node_truth, try_, _short


def collections(rt):
    """Targeted collections whose divisions / lengths are derived by special rules."""
    import numpy as np
    import pandas as pd
    out = []
    idxs = {
        "int-dups": [0, 0, 1, 2, 2, 2, 3, 5, 5, 6, 8, 9, 9, 10],
        "float": [0.5, 1.0, 1.5, 2.5, 2.5, 3.0, 4.5, 5.0, 6.5, 7.0, 7.0, 8.5, 9.0, 9.5],
        "str": ["a", "b", "b", "c", "d", "e", "e", "f", "g", "h", "i", "j", "k", "l"],
        "datetime": list(pd.to_datetime("2021-01-01") + pd.to_timedelta([0, 1, 1, 2, 4, 5, 5, 6, 8, 9, 10, 12, 13, 13], unit="D")),
    }
    for nm, idx in idxs.items():
        pdf = pd.DataFrame({"x": range(len(idx)), "y": [i % 3 for i in range(len(idx))]}, index=idx)
        for npart in (1, 3, 4):
            df = rt.dx.from_pandas(pdf, npartitions=npart)
            n = df.npartitions
            T = lambda s: "%s/%d:%s" % (nm, npart, s)
            out += [
                (T("source"), df, pdf),
                (T("elemwise"), df + 1, pdf + 1),
                (T("filter"), df[df.x > 3], pdf[pdf.x > 3]),
                (T("projection"), df[["y"]], pdf[["y"]]),
                (T("series"), df.x, pdf.x),
                (T("index"), df.index, pdf.index),
                (T("concat self-separated"), None, None),
                (T("head"), df.head(3, compute=False), pdf.head(3)),
                (T("tail"), df.tail(3, compute=False), pdf.tail(3)),
                (T("repartition fewer"), df.repartition(npartitions=max(1, n - 1)), pdf),
                (T("repartition more"), df.repartition(npartitions=n + 2), pdf),
                (T("sort_values"), df.sort_values("y"), None),
                (T("set_index"), df.set_index("x"), None),
                (T("set_index sorted"), df.set_index("x", sorted=True), None),
                (T("reset_index"), df.reset_index(), None),
                (T("cumsum"), df.cumsum(), pdf.cumsum()),
                (T("shift"), df.shift(1), pdf.shift(1)),
                (T("assign"), df.assign(z=df.x * 2), pdf.assign(z=pdf.x * 2)),
                (T("rename series"), df.x.rename("q"), pdf.x.rename("q")),
                (T("merge on index"), df.merge(df, left_index=True, right_index=True), None),
                (T("join"), df.join(df.rename(columns={"x": "x2", "y": "y2"})), None),
                (T("groupby"), df.groupby("y").sum(), None),
                (T("drop_duplicates"), df.drop_duplicates(subset=["y"]), None),
                (T("map_partitions"), df.map_partitions(lambda p: p), pdf),
                (T("fillna"), df.fillna(0), pdf),
                (T("astype"), df.astype({"x": "float64"}), pdf),
            ]
            if n >= 2:
                out += [
                    (T("partitions[0]"), df.partitions[0], None),
                    (T("partitions[[0,n-1]]"), df.partitions[[0, n - 1]], None),
                    (T("partitions[1:]"), df.partitions[1:], None),
                    (T("partitions reversed"), df.partitions[[n - 1, 0]], None),
                    (T("partitions repeated"), df.partitions[[0, 0]], None),
                    (T("elemwise of partitions reversed"), (df + 1).partitions[[n - 1, 0]], None),
                    (T("head npartitions=2"), df.head(5, npartitions=2, compute=False), None),
                ]
            if n >= 3:
                # the same derivations on a partition selection: the selection is pushed into the source, and the
                # derived node has to report the *selected* partitioning at every stage
                for selnm, sel in (("[1]", [1]), ("[0,n-1]", [0, n - 1]), ("[1:]", list(range(1, n)))):
                    ps, U = df.partitions[sel], (lambda s, selnm=selnm: T("partitions%s then %s" % (selnm, s)))
                    out += [
                        (U("cumsum"), ps.cumsum(), None), (U("cumprod series"), ps.x.cumprod(), None), (U("cummax"), ps.cummax(), None),
                        (U("shift"), ps.shift(1), None), (U("diff"), ps.x.diff(), None),
                        (U("align[0]"), ps.align(ps.x, axis=0)[0], None), (U("align[1]"), ps.align(ps.x, axis=0)[1], None),
                        (U("merge single-partition"), ps.merge(rt.dx.from_pandas(pd.DataFrame({"y": [0, 1, 2], "w": [5, 6, 7]}), npartitions=1), on="y"), None),
                        (U("merge broadcast"), ps.merge(rt.dx.from_pandas(pd.DataFrame({"y": [0, 1, 2, 2], "w": [5, 6, 7, 8]}), npartitions=2), on="y", broadcast=True), None),
                        (U("index merge broadcast"), ps.merge(rt.dx.from_pandas(pdf[["y"]].rename(columns={"y": "w"}), npartitions=2).clear_divisions(),
                                                              left_index=True, right_index=True, broadcast=True), None),
                        (U("repartition"), ps.repartition(npartitions=1), None), (U("set_index"), ps.set_index("x"), None),
                        (U("elemwise"), ps + 1, None), (U("filter"), ps[ps.x > 3], None), (U("fillna"), ps.fillna(0), None),
                        (U("groupby"), ps.groupby("y").x.sum(), None), (U("sort_values"), ps.sort_values("y"), None),
                        (U("map_partitions"), ps.map_partitions(lambda p: p), None), (U("concat"), rt.dx.concat([ps, ps]), None),
                        (U("head"), ps.head(2, npartitions=-1, compute=False), None), (U("tail"), ps.tail(2, compute=False), None),
                    ]
            # merges on the index: every combination of partition counts (a single partition is broadcast) x how
            if nm in ("int-dups", "str"):
                oth = pd.DataFrame({"w": range(6)}, index=[idx[i] for i in (0, 3, 4, 8, 12)] + [12 if nm == "int-dups" else "z"])   # reaches beyond df's last division
                for onp in (1, 2):
                    do = rt.dx.from_pandas(oth, npartitions=onp)
                    for how in ("inner", "left", "right", "outer"):
                        out.append((T("index merge %s with %d-partition" % (how, onp)), df.merge(do, left_index=True, right_index=True, how=how), None))
                        out.append((T("index merge %s of %d-partition" % (how, onp)), do.merge(df, left_index=True, right_index=True, how=how), None))
                    out.append((T("join %d-partition" % onp), df.join(do), None))
            if nm in ("int-dups", "float", "str"):
                uniq = list(dict.fromkeys(idx))
                for lnm, labels in (("ascending", [uniq[1], uniq[4], uniq[7]]), ("unsorted", [uniq[6], uniq[1], uniq[8], uniq[3]]), ("descending", [uniq[8], uniq[5], uniq[2]]),
                                    ("one partition unsorted", [uniq[1], uniq[0]]), ("last partition unsorted", [uniq[-1], uniq[-3]])):
                    out.append((T("loc list %s" % lnm), df.loc[labels], None))
                    out.append((T("loc list %s then loc" % lnm), df.loc[labels].loc[labels[0]:labels[0]] if labels == sorted(labels) else df.loc[labels], None))
            if nm in ("int-dups", "float"):
                out.append((T("loc slice"), df.loc[idx[2]:idx[9]], pdf.loc[idx[2]:idx[9]]))
                out.append((T("loc element"), df.loc[idx[5]:idx[5]], pdf.loc[idx[5]:idx[5]]))
            if nm == "int-dups":
                other = pd.DataFrame({"x": range(5)}, index=[10, 11, 12, 13, 14])       # touches 10
                sep = pd.DataFrame({"x": range(5)}, index=[20, 21, 22, 23, 24])
                do, ds = rt.dx.from_pandas(other, npartitions=2), rt.dx.from_pandas(sep, npartitions=2)
                out.append((T("concat touching"), rt.dx.concat([df[["x"]], do]), pd.concat([pdf[["x"]], other])))
                out.append((T("concat separated"), rt.dx.concat([df[["x"]], ds]), pd.concat([pdf[["x"]], sep])))
                out.append((T("concat overlapping"), rt.dx.concat([df[["x"]], df[["x"]]]), None))
                out.append((T("concat interleave"), rt.dx.concat([df[["x"]], do], interleave_partitions=True), None))
    # input already ordered by the key across partitions, unknown divisions, a key value straddling a partition border
    spdf = pd.DataFrame({"y": [0, 0, 1, 2, 2, 2, 2, 3, 5, 5, 6, 6, 6, 8], "x": range(14)})
    for cuts in ([4, 9], [5, 11], [2, 7], [1, 6, 12], [3, 8, 10]):
        b = [0] + cuts + [len(spdf)]
        pieces = [spdf.iloc[i:j] for i, j in zip(b[:-1], b[1:])]
        src = rt.dx.from_map(_ident, pieces, meta=spdf.iloc[:0])
        for nm, c in (("set_index", src.set_index("y")), ("set_index npartitions=same", src.set_index("y", npartitions=len(pieces))), ("set_index npartitions=2", src.set_index("y", npartitions=2)),
                      ("sort_values", src.sort_values("y")), ("set_index then loc", src.set_index("y").loc[2:5]), ("set_index index", src.set_index("y").index)):
            out.append(("presorted pieces cut at %s: %s" % (cuts, nm), c, None))
    # period index converted to timestamps (divisions converted with the same freq / how as the data)
    per = pd.DataFrame({"x": range(14)}, index=pd.period_range("2020-01", periods=14, freq="M"))
    for npart in (1, 3):
        dper = rt.dx.from_pandas(per, npartitions=npart)
        for freq in (None, "M", "D", "Q"):
            for how in ("start", "end"):
                c = try_(lambda: dper.to_timestamp(freq=freq, how=how))
                if c[0] == "ok":
                    out.append(("period index /%d: to_timestamp(freq=%s, how=%s)" % (npart, freq, how), c[1], None))
                    out.append(("period index /%d: to_timestamp(freq=%s, how=%s) + 1" % (npart, freq, how), c[1] + 1, None))
        out.append(("period index /%d: source" % npart, dper, None))
    dts = rt.dx.from_pandas(pd.DataFrame({"x": range(14)}, index=pd.date_range("2020-01-01", periods=14, freq="D")), npartitions=3)
    out += [("datetime index: shift freq", dts.shift(2, freq="D"), None), ("datetime index: loc", dts.loc["2020-01-03":"2020-01-09"], None), ("datetime index: resample sum", dts.resample("3D").sum(), None),
            ("datetime index: repartition freq", dts.repartition(freq="5D"), None), ("datetime index: to_period", try_(lambda: dts.to_period("D"))[1] if try_(lambda: dts.to_period("D"))[0] == "ok" else None, None)]
    return [o for o in out if o[1] is not None]


def _ident(p):
    return p


def lengths(run, rt):
    """len / shape / size / per-partition lengths answered from metadata vs computed."""
    import pandas as pd
    n = 0
    pdf = pd.DataFrame({"a": range(10), "b": [i % 4 for i in range(10)], "c": [float(i) for i in range(10)]})
    for npart in (1, 3):
        df = rt.dx.from_pandas(pdf, npartitions=npart)
        cases = {
            "frame": (df, pdf), "elemwise": (df + 1, pdf + 1), "projection": (df[["a"]], pdf[["a"]]), "series": (df.a, pdf.a),
            "assign": (df.assign(z=df.a), pdf.assign(z=pdf.a)), "filter": (df[df.b > 1], pdf[pdf.b > 1]),
            "filter-then-elemwise": (df[df.b > 1] + 1, pdf[pdf.b > 1] + 1),
            "binop of two filters (same)": (df[df.b > 1].a + df[df.b > 1].c, pdf[pdf.b > 1].a + pdf[pdf.b > 1].c),
            "partitions": (df.partitions[[0]] if npart > 1 else df, None),
            "repartition": (df.repartition(npartitions=2), pdf), "shuffle": (df.shuffle("b"), pdf), "sort": (df.sort_values("b"), pdf),
            "fillna": (df.fillna(1), pdf), "rename": (df.rename(columns={"a": "q"}), pdf), "head": (df.head(4, compute=False), pdf.head(4)),
            "drop_duplicates": (df.drop_duplicates(subset=["b"]), pdf.drop_duplicates(subset=["b"])),
            "explode": (df.assign(l=df.a.map(lambda v: [v, v], meta=("a", "object"))).explode("l") if False else df, pdf),
            "concat": (rt.dx.concat([df, df]), pd.concat([pdf, pdf])), "dropna": (df.dropna(), pdf.dropna()),
            "merge": (df.merge(df, on="b"), pdf.merge(pdf, on="b")),
            "concat axis=1": (rt.dx.concat([df[["a"]], df[["c"]]], axis=1), pd.concat([pdf[["a"]], pdf[["c"]]], axis=1)),
            "concat axis=1 three": (rt.dx.concat([df[["a"]], df[["b"]], df[["c"]]], axis=1), pd.concat([pdf[["a"]], pdf[["b"]], pdf[["c"]]], axis=1)),
            "concat axis=1 then column": (rt.dx.concat([df[["a"]], df[["c"]]], axis=1)["c"], pd.concat([pdf[["a"]], pdf[["c"]]], axis=1)["c"]),
            "concat axis=1 then elemwise": (rt.dx.concat([df[["a"]], df[["c"]]], axis=1) + 1, pd.concat([pdf[["a"]], pdf[["c"]]], axis=1) + 1),
            "concat axis=1 with a filtered operand": (rt.dx.concat([df[["a"]], df[df.b > 1][["c"]]], axis=1), pd.concat([pdf[["a"]], pdf[pdf.b > 1][["c"]]], axis=1)),
            "concat three frames": (rt.dx.concat([df, df[["a"]], df]), pd.concat([pdf, pdf[["a"]], pdf])),
            "empty projection": (df[[]], pdf[[]]), "elemwise of two filters": (df[df.b > 1].a + df.a, pdf[pdf.b > 1].a + pdf.a),
            "scalar + series": (df.a.sum() + df.a, pdf.a.sum() + pdf.a), "series + scalar": (df.a + df.a.sum(), pdf.a + pdf.a.sum()),
            "where": (df.where(df.a > 3), pdf.where(pdf.a > 3)), "mask": (df.a.mask(df.b > 1), pdf.a.mask(pdf.b > 1)), "isin filter": (df[df.b.isin([1, 2])], pdf[pdf.b.isin([1, 2])]),
            "cumsum": (df.cumsum(), pdf.cumsum()), "shift": (df.shift(1), pdf.shift(1)), "diff": (df.a.diff(), pdf.a.diff()), "astype": (df.astype({"a": "float64"}), pdf),
            "set_index": (df.set_index("a"), pdf), "reset_index": (df.reset_index(), pdf), "to_frame": (df.a.to_frame(), pdf), "index": (df.index, pdf.index),
            "nlargest": (df.nlargest(3, "a"), pdf.nlargest(3, "a")), "tail": (df.tail(3, compute=False), pdf.tail(3)), "sample frac=1": (df.sample(frac=1.0, random_state=1), pdf),
            "str accessor": (df.assign(s=df.a.astype(str)).s.str.upper(), pdf.a.astype(str)), "explode-like map_partitions": (df.map_partitions(lambda p: pd.concat([p, p])), pd.concat([pdf, pdf])),
            "merge left": (df.merge(df[["b"]].drop_duplicates(), on="b", how="left"), pdf.merge(pdf[["b"]].drop_duplicates(), on="b", how="left")),
            "join": (df[["a"]].join(df[["c"]]), pdf[["a"]].join(pdf[["c"]])), "loc slice": (df.loc[2:7], pdf.loc[2:7]), "partitions[[1,0]]" if npart > 1 else "partitions-all": (df.partitions[[1, 0]] if npart > 1 else df, pdf),
            "partitions[[0,0]]": (df.partitions[[0, 0]], None) if npart > 1 else (df, pdf),
            "groupby": (df.groupby("b").sum(), pdf.groupby("b").sum()),
        }
        for nm, (c, p) in cases.items():
            n += 1
            run.count(("len", nm, npart))
            real = try_(lambda: len(c.compute()))
            if real[0] == "raise":
                continue
            for what, f in (("len()", lambda: len(c)), ("shape[0]", lambda: int(c.shape[0].compute()) if hasattr(c.shape[0], "compute") else int(c.shape[0])),
                            ("size", lambda: int(c.size.compute())), ("map_partitions(len) sum", lambda: int(sum(c.map_partitions(len).compute())))):
                got = try_(f)
                exp = real[1] * (len(c.columns) if (what == "size" and hasattr(c, "columns")) else 1)
                if got[0] == "raise":
                    run.violation("%s of %s raises %s" % (what, nm, got[1]), {"kind": "length", "name": nm, "what": what})
                elif got[1] != exp:
                    run.violation("%s of %s reports %s, computed data has %s" % (what, nm, got[1], exp), {"kind": "length", "name": nm, "what": what, "npartitions": npart})
    run.section("lengths", cases=n)


class _Piece:
    """Partition i of a synthetic source whose data respects the user-asserted divisions (picklable, tokenizable)."""

    def __init__(self, divs):
        self.divs = tuple(divs)

    def __call__(self, i):
        import pandas as pd
        lo, hi = self.divs[i], self.divs[i + 1]
        last = i == len(self.divs) - 2
        idx = sorted({lo, max(lo, hi - 1)} | ({hi} if last else set()))
        return pd.DataFrame({"x": [float(v) for v in idx], "k": [v % 3 for v in idx]}, index=idx)

    def __dask_tokenize__(self):
        return ("c06-piece", self.divs)


def divisions_layer(run, rt):
    """T-LAYER `divisions`: the real _divisions() formulas against the extracted Divisions.v model on the same
    (divisions, selection / boundaries / operand list); on a disagreement the real claim is tested on the really
    computed partitions with the verified `truthfulb` (the search for a failing input)."""
    import os
    import shutil
    import tempfile
    import pandas as pd
    import dask_expr._expr as E
    from dask_expr._repartition import RepartitionToFewer
    from dask_expr.io.io import FusedIO
    sx, m = common.sx, common.Model()
    rng = run.rng
    quick = run.tier == "quick"
    cases = []          # (family, tag, request, real claim as python value, thunk -> collection)

    def norm(d):
        d = tuple(d)
        return None if (len(d) == 0 or d[0] is None) else [int(v) for v in d]

    def source(divs):
        return rt.dx.from_map(_Piece(divs), list(range(len(divs) - 1)), divisions=tuple(divs), meta=_Piece(divs)(0).iloc[:0])

    def rand_divs(n, start=None):
        v = rng.randint(-5, 5) if start is None else start
        out = [v]
        for _ in range(n):
            v += rng.randint(1, 4)
            out.append(v)
        return out

    for _ in range(40 if quick else 600):
        n = rng.randint(1, 7)
        divs = rand_divs(n)
        df = source(divs)
        # (a) partition selections, logical and pushed into the source, and nodes derived from the selection
        for _ in range(3):
            if rng.random() < 0.45:
                sel = sorted(rng.sample(range(n), rng.randint(1, n)))
            else:
                sel = [rng.randrange(n) for _ in range(rng.randint(1, n + 2))]
            req = "(partitions_divisions %s %s)" % (sx(divs), sx(sel))
            for nm, th in (("logical", lambda: df.partitions[sel]), ("pushed into the source", lambda: rt.dx.new_collection(df.partitions[sel].expr.simplify())),
                           ("cumsum of the selection, simplified", lambda: rt.dx.new_collection(df.partitions[sel].cumsum().expr.simplify())),
                           ("elementwise of the selection, simplified", lambda: rt.dx.new_collection((df.partitions[sel] + 1).expr.simplify())),
                           ("filter of the selection, lowered", lambda: rt.dx.new_collection((lambda q: q[q.x > 0])(df.partitions[sel]).expr.optimize(fuse=False))),
                           ("repartition(npartitions=len) of the selection", lambda: df.partitions[sel].repartition(npartitions=len(sel)))):
                c = try_(th)
                if c[0] == "ok":
                    cases.append(("partitions", "%s sel=%s divs=%s" % (nm, sel, divs), req, ("opt", len(sel) + 1, try_(lambda: norm(c[1].divisions))), c[1]))
        # (b) head / tail
        for k in sorted({-1, 1, n, rng.randint(1, n)}):
            h = df.head(2, npartitions=k, compute=False)
            cases.append(("head", "head(npartitions=%d) divs=%s" % (k, divs), "(head_divisions %s %d)" % (sx(divs), n if k == -1 else k), ("list", try_(lambda: norm(h.divisions))), h))
            low = try_(lambda: h.expr.lower_completely())
            if low[0] == "ok":
                for node in low[1].walk():
                    if type(node).__name__ == "BlockwiseHead":
                        fd = norm(node.frame.divisions)
                        if fd is not None:
                            cases.append(("blockwise head", "BlockwiseHead over %s, %d partitions" % (fd, len(node._partitions)),
                                          "(bhead_divisions %s %d)" % (sx(fd), len(node._partitions)), ("list", try_(lambda: norm(node._divisions()))), rt.dx.new_collection(node)))
        t = df.tail(2, compute=False)
        cases.append(("tail", "tail divs=%s" % (divs,), "(tail_divisions %s)" % sx(divs), ("list", try_(lambda: norm(t.divisions))), t))
        # (c) repartition to fewer partitions: divisions taken at the boundaries
        for k in sorted({1, max(1, n - 1), rng.randint(1, n)}):
            r = df.repartition(npartitions=k)
            low = try_(lambda: r.expr.lower_completely())
            if low[0] == "ok":
                for node in low[1].walk():
                    if isinstance(node, RepartitionToFewer):
                        bs = [int(b) for b in node._partitions_boundaries]
                        cases.append(("fewer", "repartition(npartitions=%d) divs=%s boundaries=%s" % (k, divs, bs), "(fewer_divisions %s %s)" % (sx(norm(node.frame.divisions)), sx(bs)),
                                      ("list", try_(lambda: norm(node._divisions()))), rt.dx.new_collection(node)))
        # (d) concat along the rows: separated, touching, overlapping operands
        frames, ds = [df], [divs]
        for _ in range(rng.randint(1, 2)):
            d2 = rand_divs(rng.randint(1, 3), start=ds[-1][-1] + rng.choice([-2, 0, 0, 1, 3]))
            ds.append(d2)
            frames.append(source(d2))
        c = try_(lambda: rt.dx.concat(frames))
        if c[0] == "ok":
            cases.append(("concat", "concat of %s" % (ds,), "(concat_divisions %s)" % sx(ds), ("opt", sum(len(d) - 1 for d in ds) + 1, try_(lambda: norm(c[1].divisions))), c[1]))
    # (e) fused multi-file parquet reads (the fusion step depends on the column projection), with partition selections
    tmp = tempfile.mkdtemp(prefix="c06_", dir=common.BUILD)
    try:
        nfiles = 9
        pdf = pd.DataFrame({c: range(nfiles * 4) for c in "abcdef"}, index=pd.RangeIndex(0, nfiles * 4, name="i"))
        rt.dx.from_pandas(pdf, npartitions=nfiles).to_parquet(tmp)
        for cols in (["a"], ["a", "b"], ["a", "b", "c"], ["a", "b", "c", "d", "e"]):
            for sel in (None, [0, 1, 2, 3, 4], [1, 3, 4, 6, 7, 8], [2, 8], [5]):
                rd = rt.dx.read_parquet(tmp, calculate_divisions=True)
                q = (rd if sel is None else rd.partitions[sel])[cols] + 1          # fusion of reads is decided by a parent (_tune_up)
                o = try_(lambda: q.optimize(fuse=False).expr)
                if o[0] != "ok":
                    continue
                for node in o[1].walk():
                    if isinstance(node, FusedIO):
                        inner = node.operand("_expr")
                        full = norm(inner._divisions())
                        psel = [int(v) for v in inner._partitions]
                        import math
                        step = min(math.ceil(1 / inner._fusion_compression_factor), math.ceil(math.sqrt(len(psel))), 100)
                        buckets = [[int(v) for v in b] for b in node._fusion_buckets]
                        cases.append(("fusion buckets", "columns=%s sel=%s step=%d" % (cols, sel, step), "(fusion_buckets %s %d)" % (sx(psel), step), ("raw", buckets), None))
                        if full is not None:
                            cases.append(("fused", "columns=%s sel=%s buckets=%s" % (cols, sel, buckets), "(fused_divisions %s %s)" % (sx(full), sx(buckets)),
                                          ("list", try_(lambda: norm(node._divisions()))), rt.dx.new_collection(node)))
        ans = m.batch([c[2] for c in cases])
        fam = {}
        for (family, tag, req, real, coll), a in zip(cases, ans):
            fam[family] = fam.get(family, 0) + 1
            run.count(("divisions-layer", family, tag))
            model = common.parse_sx(a)
            if real[0] == "opt":
                exp = None if model == "none" else [int(v) for v in model[1]]
                got = real[2]
            elif real[0] == "raw":
                exp, got = [[int(v) for v in b] for b in model], ("ok", real[1])
            else:
                exp, got = [int(v) for v in model], real[1]
            if got[0] == "raise":
                run.broken_tie("T-LAYER divisions (%s)" % family, {"case": tag, "model": a[:200], "real": "raises " + str(got[1])[:200]})
                continue
            if got[1] != exp:
                # search: is the real claim wrong for the really computed partitions?
                witness = None
                if coll is not None and got[1] is not None:
                    parts = try_(lambda: exec_expr(coll.expr.lower_completely()))
                    if parts[0] == "ok":
                        tb = m.batch(["(truthfulb %s %s)" % (sx(got[1]), sx([[int(v) for v in p.index] for p in parts[1]]))])[0]
                        if tb != "true":
                            witness = "reports divisions %s, computed partitions hold index values %s" % (got[1], [[int(v) for v in p.index] for p in parts[1]])
                if witness:
                    run.violation("%s [%s]: %s" % (family, tag, witness), {"kind": "divisions-layer", "family": family, "case": tag})
                else:
                    run.broken_tie("T-LAYER divisions (%s)" % family, {"case": tag, "model": exp, "real": got[1]})
        run.section("divisions_layer", cases=len(cases), by_family=fam)
    finally:
        shutil.rmtree(tmp, ignore_errors=True)


def classify(v):
    return None


def run(run):
    import rt
    run.trusted = common.COMMON_TRUSTED + [
        "dask's sorted_division_locations (external) is an oracle with a contract; it is only observed through from_pandas sources",
    ]
    run.rule = ("for targeted collections (4 index dtypes incl. duplicates straddling borders x 1/3/4 partitions x ~35 derivations) and every variable of generated programs, at logical / lowered / optimized / fused stage: "
                "reported npartitions and divisions vs the index range and count of each really computed partition; len/shape/size from metadata vs computed; non-trivial = known divisions with >= 2 partitions")
    run.proofs("PropC06.v")
    n = 0
    for tag, coll, _ in collections(rt):
        n += 1
        e = coll.expr
        known = try_(lambda: e.npartitions >= 2 and e.divisions[0] is not None)
        run.count(("collection", tag), nontrivial=(known[0] == "ok" and bool(known[1])))
        vs = node_truth(tag, e, {"C06"}, "logical")
        for st, f in (("simplified", lambda: e.simplify()), ("lowered", lambda: e.simplify().lower_completely())):
            o = try_(f)
            if o[0] == "ok":
                vs += node_truth(tag, o[1], {"C06"}, st, lowered=(st == "lowered"))
        for st, fuse in (("optimized", False), ("fused", True)):
            o = try_(lambda: coll.optimize(fuse=fuse).expr)
            if o[0] == "ok":
                vs += node_truth(tag, o[1], {"C06"}, st, lowered=True)
        for v in vs:
            run.violation(v["what"], {"kind": "collection", "tag": tag}, finding=classify(v))
    run.section("collections", checked=n)
    lengths(run, rt)
    divisions_layer(run, rt)
    import minmax
    minmax.stats_layer(run, run.tier == "quick")
    minmax.presorted_layer(run, rt, run.tier == "quick")
    import loc_layer
    loc_layer.loc_layer(run, rt, run.tier == "quick")
    import align_layer
    align_layer.align_layer(run, rt, run.tier == "quick")
    quick = run.tier == "quick"
    progcheck.run_programs(run, {"C06"}, 120 if quick else 3000, profile="l1", own={"C06"}, with_steps=False)
    progcheck.run_programs(run, {"C06"}, 80 if quick else 2000, profile="l2", own={"C06"}, with_steps=False)
    # divisions computed from ordered data (set_index(sorted=True) / compute_current_divisions(set_divisions=True)); last, so
    # that the random draws of the families above are unchanged
    import c06_resolve
    c06_resolve.resolve_layer(run, rt, quick)
    # routing of set_index / sort_values on divisions (SetIndex.v); after everything else for the same reason
    import setindex_layer
    setindex_layer.setindex_layer(run, rt, quick)
