"""C15 -- planner caches are transparent: results are independent of session history."""
import gc
import itertools
import json
import multiprocessing as mp
import os
import random
import tempfile

import common
from common import sx
from e2e import canon, try_, _short
import c15_shared
import c15_siblings


def lru_sweep(run, model, L):
    """Real dask_expr._util.LRU vs the proved model on ALL operation sequences up to length L over 3 keys."""
    from dask_expr._util import LRU
    ops = [("c", k) for k in range(3)] + [("g", k) for k in range(3)] + [("s", k) for k in range(3)]
    reqs, reals = [], []
    for maxsize in (1, 2, 3):
        for n in range(1, L + 1):
            for seq in itertools.product(ops, repeat=n):
                lru = LRU(maxsize)
                outs, mops = [], []
                for step, (o, k) in enumerate(seq):
                    if o == "c":
                        outs.append(k in lru)
                        mops.append("(c %d)" % k)
                    elif o == "g":
                        try:
                            outs.append(common.Some(lru[k]))
                        except KeyError:
                            outs.append(None)
                        mops.append("(g %d)" % k)
                    else:
                        v = 100 + step
                        try:
                            lru[k] = v
                            outs.append("ok")
                        except KeyError:
                            outs.append("keyerror")
                        mops.append("(s %d %d)" % (k, v))
                reqs.append("(lru_run %d (%s))" % (maxsize, " ".join(mops)))
                reals.append(sx([outs, [[k, v] for k, v in lru.data.items()]]))
    ans = model.batch(reqs)
    bad = 0
    for rq, a, r in zip(reqs, ans, reals):
        run.count(("lru", rq), nontrivial=rq.count("(s ") >= 2)
        if a != r:
            bad += 1
            if bad <= 3:
                run.broken_tie("correspondence LRU (dask_expr/_util.py) vs State model", {"request": rq, "model": a, "real": r})
    run.section("lru", sequences=len(reqs), max_len=L, keys=3, capacities=[1, 2, 3], disagreements=bad, exhaustive=True)
    run.sample({"lru_run": reqs[len(reqs) // 2], "answer": ans[len(reqs) // 2]})


POOL = ["set_index-a", "sort-a", "sort-b", "filter", "sum", "groupby-sum", "merge-inner", "shuffle-tasks", "repartition-2", "head3", "cumsum", "assign",
        "drop_duplicates", "value_counts", "partitions-1", "mean", "len", "concat", "two-shifts", "add1", "fillna0", "groupby-agg", "nlargest", "loc", "bcast-scalar", "unique",
        "presorted-sort-asc", "presorted-sort-desc", "presorted-set_index", "presorted-sort-desc-by-other", "presorted-sort-asc-by-other", "unsorted-source", "from_array"]


# row order inside the partitions is not defined for these (hash shuffles, disk shuffle ties, groupby output)
UNORDERED_PARTS = {"merge-inner", "shuffle-tasks", "drop_duplicates", "value_counts", "unique", "groupby-sum", "groupby-agg", "set_index-a", "sort-a", "sort-b", "concat", "nlargest"}


def _nth(i, frames):
    return frames[i]


def observe(c):
    o = c.optimize()
    res = c.compute()
    import dask
    parts = dask.get(o.__dask_graph__(), o.__dask_keys__())
    return {"opt_name": o.expr._name, "divisions": repr(tuple(o.divisions)), "npartitions": o.npartitions, "result": repr(canon(res, False)),
            "partitions": repr([canon(p, True) for p in parts])}


def _alone(args):
    """Baseline: the query alone in a fresh interpreter (spawned process)."""
    nm, harness_dir, repo = args
    import sys
    sys.path.insert(0, harness_dir)
    import rt
    import catalogue
    pdf, other = catalogue.tables()
    q = catalogue.queries(rt.dx, pdf, other)[nm]()
    try:
        return nm, observe(q)
    except Exception as ex:
        return nm, {"error": type(ex).__name__ + ": " + str(ex)[:120]}


def extra_sorts(rt, pdf):
    """More than 10 distinct divisions-cache keys (capacity of divisions_lru)."""
    out = {}
    for i in range(13):
        d = rt.dx.from_pandas(pdf.assign(k=[(j * (i + 3)) % 17 for j in range(len(pdf))]), npartitions=3)
        out["evict-%d" % i] = d.set_index("k")
    return out


def run(run):
    import rt
    import catalogue
    import pandas as pd
    run.trusted = common.COMMON_TRUSTED + [
        "weak references / garbage collection timing and file-system mtime granularity are runtime behaviour: observed, not modelled",
    ]
    run.rule = ("exhaustive: all LRU operation sequences (contains/getitem/setitem over 3 keys, capacity 1-3) up to length L vs the proved model; "
                "random session histories (build / optimize / compute / divisions / discard+gc / injected task failure / dataset rewrite) over a pool of 26+13 queries (> every cache capacity): "
                "every observation compared with the same query alone in a fresh interpreter; "
                "sessions over queries that SHARE sub-expressions (c15_shared.py: source x view of the source x random interleaving of len/size/count/optimize/compute/"
                "failure/gc/rebuild steps with observations of concat / alignment / length targets built from the same objects), every observation (plan fingerprint, "
                "divisions, dtypes, result) compared with the target alone in a fresh interpreter on data with a salt of its own; "
                "sessions over SIBLING queries (c15_siblings.py: queries that differ only in a detail of one operand -- item order of dicts at any nesting depth, "
                "dict / OrderedDict / defaultdict, int / float / bool / numpy scalar, 0.0 / -0.0, list / tuple, nesting shape, kind of missing value, str / bytes, key types, "
                "array and Series dtype / name / index, closures -- passed through 16 operators of user functions and 27 built-in operators, built / touched / discarded "
                "in random order), every observation (meta columns, plan fingerprint, divisions, dtypes, exact typed result) compared with the query alone in a fresh interpreter; "
                "non-trivial = LRU sequence with >= 2 writes / history step / observation after at least one earlier action of its session")
    run.proofs("PropC15.v")
    quick = run.tier == "quick"
    m = common.Model()
    lru_sweep(run, m, 4 if quick else 5)
    # baselines in fresh interpreters
    ctx = mp.get_context("spawn")
    hdir = os.path.join(common.VERIF, "harness")
    sessions = c15_shared.plan_sessions(run.rng, run.tier)
    sib_sessions = c15_siblings.plan_sessions(run.rng, run.tier)
    with ctx.Pool(12) as pool:
        r_base = pool.map_async(_alone, [(nm, hdir, common.REPO) for nm in POOL])
        r_shared = pool.map_async(c15_shared.baseline_batch, [(chunk, hdir) for chunk in c15_shared.chunks(c15_shared.needed_baselines(sessions), 24)], chunksize=1)
        r_sib = pool.map_async(c15_siblings.baseline_batch, [(chunk, hdir) for chunk in c15_shared.chunks(c15_siblings.needed_baselines(sib_sessions), 24)], chunksize=1)
        base = dict(r_base.get())
        import time as _t
        t_wait = _t.time()
        shared_base = dict(kv for part in r_shared.get() for kv in part)
        sib_base = dict(kv for part in r_sib.get() for kv in part)
        t_wait = _t.time() - t_wait
    pdf, other = catalogue.tables()
    Q = catalogue.queries(rt.dx, pdf, other)
    rng = random.Random(run.seed)
    live = {}
    steps = 120 if quick else 1200
    evict = extra_sorts(rt, pdf)
    nobs = 0
    for step in range(steps):
        act = rng.choice(["observe", "observe", "observe", "build", "discard", "fail", "evict", "optimize-only"])
        nm = rng.choice(POOL)
        run.count(("history", step, act, nm))
        if act == "build":
            live[nm] = Q[nm]()
        elif act == "discard":
            live.pop(nm, None)
            gc.collect()
        elif act == "evict":
            k = rng.choice(list(evict))
            try_(lambda: evict[k].optimize().divisions)
        elif act == "fail":
            def boom(p):
                raise ZeroDivisionError("injected")
            c = live[nm] if nm in live else Q[nm]()
            try_(lambda: c.map_partitions(boom, meta=c._meta).compute())
        elif act == "optimize-only":
            c = live[nm] if nm in live else Q[nm]()
            try_(lambda: c.optimize())
        else:
            c = live[nm] if nm in live else Q[nm]()
            ob = try_(lambda: observe(c))
            nobs += 1
            b = base[nm]
            if "error" in b:
                continue
            if ob[0] == "raise":
                run.violation("after %d history steps query %s fails (%s) although it computes alone in a fresh process" % (step, nm, ob[1]), {"kind": "history", "query": nm, "step": step, "seed": run.seed})
                continue
            for what in ("opt_name", "divisions", "npartitions", "result") + (() if nm in UNORDERED_PARTS else ("partitions",)):
                if ob[1][what] != b[what]:
                    run.violation("after %d history steps %s of query %s differs from the fresh-process observation: %s vs %s" % (step, what, nm, _short(ob[1][what]), _short(b[what])),
                                  {"kind": "history", "query": nm, "step": step, "what": what, "seed": run.seed})
                    break
    run.section("histories", steps=steps, observations=nobs, pool=len(POOL), eviction_queries=len(evict), baselines_failed=[k for k, v in base.items() if "error" in v])
    # sessions over queries that share sub-expressions
    c15_shared.run_sessions(run, rt.dx, sessions, shared_base, extra_wait_for_baselines_s=round(t_wait, 1))
    # sessions over sibling queries (they differ in a detail of one operand)
    c15_siblings.run_sessions(run, rt.dx, sib_sessions, sib_base)
    # dataset rewrite
    tmp = tempfile.mkdtemp(prefix="c15_", dir=common.BUILD)
    try:
        path = os.path.join(tmp, "ds")
        for reader in ({}, {"filesystem": "arrow"}):
            a = pd.DataFrame({"x": range(8), "y": [1.0] * 8})
            rt.dx.from_pandas(a, npartitions=2).to_parquet(path, overwrite=True)
            r1 = rt.dx.read_parquet(path, **reader)
            v1 = r1.x.sum().compute()
            n1 = len(r1)
            b = pd.DataFrame({"x": range(100, 112), "y": [2.0] * 12})
            import time
            time.sleep(0.05)
            rt.dx.from_pandas(b, npartitions=3).to_parquet(path, overwrite=True)
            r2 = rt.dx.read_parquet(path, **reader)
            run.count(("rewrite", str(reader)))
            got = try_(lambda: (int(r2.x.sum().compute()), len(r2), r2.npartitions))
            if got[0] == "raise" or got[1][0] != int(b.x.sum()) or got[1][1] != 12:
                run.violation("re-reading a rewritten dataset (%s) does not reflect the new contents: %s (old sum %s, len %s)" % (reader or "fsspec", got[1], v1, n1), {"kind": "rewrite", "reader": str(reader)})
            # rewrite IN PLACE: same directory, same file names, same number of files (no overwrite=True, no new directory entry)
            path2 = os.path.join(tmp, "inplace_%s" % ("arrow" if reader else "fsspec"))
            a2 = pd.DataFrame({"x": range(100)}, index=pd.Index(range(100), name="i"))
            rt.dx.from_pandas(a2, npartitions=2).to_parquet(path2)
            q1 = rt.dx.read_parquet(path2, calculate_divisions=True, **reader)
            obs1 = (len(q1), q1.divisions, int(q1.x.sum().compute()))
            time.sleep(0.05)
            b2 = pd.DataFrame({"x": range(40)}, index=pd.Index(range(1000, 1040), name="i"))
            rt.dx.from_pandas(b2, npartitions=2).to_parquet(path2)          # overwrites part.0 / part.1 in place
            q2 = rt.dx.read_parquet(path2, calculate_divisions=True, **reader)
            run.count(("rewrite-inplace", str(reader)))
            got = try_(lambda: (len(q2), int(q2.x.sum().compute()), len(q2.loc[1005:1010].compute()), q2.divisions[0]))
            if got[0] == "raise" or got[1][:3] != (40, int(b2.x.sum()), 6) or got[1][3] != 1000:
                run.violation("re-reading a dataset rewritten in place (%s) still shows the old plan: (len, sum, len(loc[1005:1010]), first division) = %s, expected (40, %d, 6, 1000); first read was %s" % (
                    reader or "fsspec", got[1], int(b2.x.sum()), obs1), {"kind": "rewrite-inplace", "reader": str(reader)})
        # statistics caches of the parquet readers (process-wide, keyed by file): every order of "plan a projected query"
        # (samples some files), "ask for len()" and "ask for divisions" must give the answers of the data
        path3 = os.path.join(tmp, "uneven")
        sizes = [700, 40, 260, 10, 500, 90, 330]                 # rows per file: size order differs from file order
        frames, start = [], 0
        for nrows in sizes:
            frames.append(pd.DataFrame({"a": range(start, start + nrows), "b": [float(i) for i in range(nrows)], "c": ["x" * (i % 7) for i in range(nrows)]},
                                       index=pd.Index(range(start, start + nrows), name="i")))
            start += nrows
        whole = pd.concat(frames)
        rt.dx.from_map(_nth, list(range(len(frames))), args=[frames], meta=frames[0].iloc[:0], divisions=tuple([f.index[0] for f in frames] + [frames[-1].index[-1]])).to_parquet(path3)
        acts = {
            "plan projected": lambda rd: (rd[["a"]] + 1).optimize(), "compute projected": lambda rd: int((rd[["a"]] + 1).a.sum().compute()),
            "len": lambda rd: len(rd), "len of projection": lambda rd: len(rd[["b"]]), "divisions": lambda rd: tuple(rd.divisions), "partition lengths": lambda rd: tuple(rd.map_partitions(len).compute()),
        }
        expect = {"compute projected": int((whole.a + 1).sum()), "len": len(whole), "len of projection": len(whole), "partition lengths": tuple(sizes)}
        import itertools as _it
        orders = list(_it.permutations(["plan projected", "len", "divisions"])) + [("compute projected", "len of projection", "partition lengths", "len"), ("len", "plan projected", "len")]
        for reader in ({}, {"filesystem": "arrow"}):
            for cd in (True, False):
                for order in orders:
                    for a in order:
                        rd = rt.dx.read_parquet(path3, calculate_divisions=cd, **reader)
                        run.count(("stats-history", str(reader), cd, order, a))
                        got = try_(lambda: acts[a](rd))
                        case = {"kind": "stats-history", "reader": str(reader), "calculate_divisions": cd, "order": list(order), "step": a}
                        if got[0] == "raise":
                            run.violation("parquet statistics history %s (%s, calculate_divisions=%s): %s fails: %s" % (list(order), reader or "fsspec", cd, a, got[1]), case)
                        elif a in expect and got[1] != expect[a]:
                            run.violation("parquet statistics history %s (%s, calculate_divisions=%s): %s gives %s, the data says %s" % (list(order), reader or "fsspec", cd, a, _short(got[1]), _short(expect[a])), case)
                        elif a == "divisions" and cd and got[1][0] is not None and got[1] != tuple([f.index[0] for f in frames] + [frames[-1].index[-1]]):
                            run.violation("parquet statistics history %s (%s): divisions %s, the files hold %s" % (list(order), reader or "fsspec", _short(got[1]), [f.index[0] for f in frames]), case)
    finally:
        import shutil
        shutil.rmtree(tmp, ignore_errors=True)


def replay(path):
    """Replays of the shared-sub-expression sessions (the other kinds are replayed by a run with the recorded seed)."""
    import rt
    with open(path) as f:
        d = json.load(f)
    case = d.get("case") or {}
    if case.get("kind") == "siblings":
        diff = c15_siblings.replay_case(rt.dx, case)
        if diff is None:
            print("C15 replay: sibling %d after %s agrees with the query alone" % (case["target"], case["history"]))
            return 0
        print("C15 replay: after %s the %s of the query with operand %s is %s; alone it is %s" % (case["history"], diff[0], case["operands"][case["target"]], _short(diff[1]), _short(diff[2])))
        return 1
    if case.get("kind") != "shared-subexpression":
        print("C15: replay by `VERIF_SEED=%s ./check C15 --tier %s`" % (d.get("seed"), d.get("tier")))
        return 2
    diff = c15_shared.replay_case(rt.dx, case)
    if diff is None:
        print("C15 replay: target %s after %s agrees with the target alone" % (case["target"], case["history"]))
        return 0
    print("C15 replay: after %s the %s of target %s is %s; alone it is %s" % (case["history"], diff[0], case["target"], _short(diff[1]), _short(diff[2])))
    return 1
