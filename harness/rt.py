"""Access to the real implementation (dask_expr imported from $VERIF_REPO via PYTHONPATH)."""
import os
import warnings

warnings.filterwarnings("ignore")
import dask
import numpy as np
import pandas as pd

dask.config.set(scheduler="sync")
import dask_expr as dx
from dask_expr import _core, _expr

assert os.path.dirname(os.path.dirname(os.path.abspath(dx.__file__))) == os.path.abspath(os.environ.get("VERIF_REPO", "/repo")), \
    "dask_expr imported from %s, not from VERIF_REPO" % dx.__file__


def find(expr, cls):
    """All nodes of class `cls` (by name or type) in the expression DAG, in walk order."""
    out = []
    for e in expr.walk():
        if (isinstance(cls, str) and type(e).__name__ == cls) or (not isinstance(cls, str) and isinstance(e, cls)):
            out.append(e)
    return out


def lowered(coll, fuse=False):
    return coll.optimize(fuse=fuse).expr


def unopt_graph(coll):
    """Graph of the query lowered WITHOUT optimization (C01 reference)."""
    e = coll.expr.lower_completely()
    return e, e.__dask_graph__()


def compute_expr(e):
    from dask.core import get as dget  # noqa
    g = e.__dask_graph__()
    keys = e.__dask_keys__()
    return dask.get(g, keys)


def frame(n_rows=12, seed=0, cols=("a", "b", "c"), nulls=0.0, index=None):
    rng = np.random.RandomState(seed)
    d = {}
    for c in cols:
        v = rng.randint(0, 7, size=n_rows).astype("float64" if nulls else "int64")
        if nulls:
            v[rng.rand(n_rows) < nulls] = np.nan
        d[c] = v
    return pd.DataFrame(d, index=index if index is not None else range(n_rows))
