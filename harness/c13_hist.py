"""C13, part 4: repartitioning of collections WITH A HISTORY.

The sweeps of c13.py repartition collections that come straight out of from_pandas / repartition, whose
divisions are right by construction.  Here the input of the repartitioning is the result of other
operators that compute their divisions themselves: concatenation of several collections (index ranges
separated / touching in one shared label / overlapping / nested, stacked or interleaved, known or
unknown divisions), partition selection, label slices, filters (empty partitions), element-wise
operators, earlier repartitionings.  Every request (divisions with and without force, partition count
up and down, partition size, frequency) must either be refused or return exactly the rows of its input
in their order, inside the divisions it reports.

Oracles: pandas on the same data (pd.concat / boolean mask / .loc of the pandas frames: the rows), the
computed input itself (the order) and the computed output partitions (the layout).
"""
import pandas as pd
import numpy as np

from e2e import try_

DTYPES = ("int", "float", "str", "datetime")
T0 = pd.Timestamp("2020-01-01")


def label(dtype, o):
    """Label of ordinal o (o >= 0) in the index domain `dtype` (strictly increasing in o)."""
    if dtype == "int":
        return int(o) - 3
    if dtype == "float":
        return o / 2.0 - 1.25
    if dtype == "str":
        return "k%02d" % o
    return T0 + pd.Timedelta(days=int(o))


def make_index(dtype, ords):
    labs = [label(dtype, o) for o in ords]
    if dtype == "datetime":
        return pd.DatetimeIndex(labs)
    return pd.Index(labs)


# ------------------------------------------------------------------------------------------- sources


def input_ordinals(rng, lo, hi, dup_lo, dup_hi, density):
    """Sorted ordinals in lo..hi; both ends present (dup_lo / dup_hi times), interior values with repeats."""
    ords = [lo] * dup_lo
    for o in range(lo + 1, hi):
        if rng.random() < density:
            ords += [o] * rng.choice((1, 1, 2, 3))
    if hi > lo:
        ords += [hi] * dup_hi
    return ords


def concat_layouts(rng, relation, n_inputs):
    """Ordinal ranges [(lo, hi)] of the inputs of a concatenation, in the given relation of neighbours."""
    out = []
    lo = rng.randint(1, 3)
    for i in range(n_inputs):
        width = rng.randint(2, 6)
        hi = lo + width
        out.append((lo, hi))
        if relation == "separated":
            lo = hi + rng.randint(1, 3)
        elif relation == "touching":
            lo = hi
        elif relation == "overlapping":
            lo = hi - rng.randint(1, min(2, width))
        elif relation == "nested":
            lo = lo + 1 if width > 2 else lo
        elif relation == "reversed":      # the later input lies entirely in front of the earlier one
            lo = max(1, out[0][0] - (i + 1) * 7)
        elif relation == "mixed":
            lo = hi + rng.choice((0, 0, 1, -1))
    if relation == "reversed":
        m = min(l for l, _ in out)
        if m < 1:
            out = [(l - m + 1, h - m + 1) for l, h in out]
    return out


def build_source(rt, spec):
    """spec (JSON-serialisable) -> (pandas frame = the rows the source must hold, dask-expr collection)."""
    dx = rt.dx
    dtype = spec["dtype"]
    pdfs, colls = [], []
    x0 = 0
    for inp in spec["inputs"]:
        ords = inp["ords"]
        pdf = pd.DataFrame({"x": range(x0, x0 + len(ords))}, index=make_index(dtype, ords))
        if spec.get("nulls"):
            y = np.arange(len(ords), dtype="float64") + x0
            y[(np.arange(len(ords)) + x0) % 3 == 1] = np.nan
            pdf["y"] = y
        x0 += 100
        c = dx.from_pandas(pdf, npartitions=inp["npartitions"], sort=True)
        pre = inp.get("pre")
        if pre == "unknown":
            c = c.clear_divisions()
        elif pre == "drop_last_label":        # divisions keep the end label, the rows with it are gone
            last = pdf.index[-1]
            c = c[c.index.to_series() != last]
            pdf = pdf[pdf.index != last]
        elif pre == "drop_first_label":
            first = pdf.index[0]
            c = c[c.index.to_series() != first]
            pdf = pdf[pdf.index != first]
        elif pre == "repartition":
            c = c.repartition(npartitions=inp["npartitions"] + 2)
        elif pre == "elemwise":
            c = c + 0
        pdfs.append(pdf)
        colls.append(c)
    if len(colls) == 1:
        pdf, src = pdfs[0], colls[0]
    else:
        kw = {}
        if spec.get("interleave") is not None:
            kw["interleave_partitions"] = spec["interleave"]
        src = dx.concat(colls, **kw)
        pdf = pd.concat(pdfs)
    post = spec.get("post")
    if post:
        kind = post[0]
        if kind == "filter_mod":
            k, r = post[1], post[2]
            src = src[src.x % k != r]
            pdf = pdf[pdf.x % k != r]
        elif kind == "filter_range":           # empties whole partitions
            lo, hi = label(dtype, post[1]), label(dtype, post[2])
            ix = src.index.to_series()
            src = src[(ix < lo) | (ix > hi)]
            pdf = pdf[(pdf.index < lo) | (pdf.index > hi)]
        elif kind == "loc":
            lo, hi = label(dtype, post[1]), label(dtype, post[2])
            src = src.loc[lo:hi]
            pdf = pdf.loc[lo:hi]                 # only used on single, sorted collections
        elif kind == "partitions":
            a, b = post[1], post[2]
            n = src.npartitions
            a, b = min(a, n - 1), max(min(b, n), min(a, n - 1) + 1)
            parts = rt.compute_expr(src.optimize(fuse=False).expr)
            pdf = pd.concat(list(parts[a:b]))
            src = src.partitions[a:b]
        elif kind == "elemwise":
            src = src + 0
        elif kind == "repartition":
            src = src.repartition(npartitions=post[1])
    return pdf, src


def rowlist(frame):
    cols = [frame.index.tolist(), frame["x"].tolist()]
    if "y" in frame.columns:
        cols.append([None if v != v else v for v in frame["y"].tolist()])
    return list(zip(*cols))


# ------------------------------------------------------------------------------------------ requests


def requests_for(rng, spec, pdf, src, quick):
    """Repartition requests (JSON-serialisable) for one source."""
    dtype = spec["dtype"]
    ords_all = sorted({o for inp in spec["inputs"] for o in inp["ords"]})
    lo, hi = ords_all[0], ords_all[-1]
    borders = sorted({inp["ords"][0] for inp in spec["inputs"]} | {inp["ords"][-1] for inp in spec["inputs"]})
    n_in = src.npartitions
    reqs = []
    ks = {1, 2, max(1, n_in - 1), n_in + 1, 2 * n_in + 1, rng.randint(1, 3 * n_in + 2)}
    if quick:
        ks = set(rng.sample(sorted(ks), min(2, len(ks)))) | {n_in + 1}
    for k in sorted(ks):
        reqs.append({"npartitions": k})
    # target divisions: the ends of the data, inner boundaries on / next to the borders of the inputs and elsewhere
    inner_pool = sorted({o for b in borders for o in (b - 1, b, b + 1) if lo < o < hi} | set(rng.sample(range(lo, hi + 1), min(3, hi - lo + 1))))
    inner_pool = [o for o in inner_pool if lo < o < hi]
    vecs = [[lo, hi]]
    for o in inner_pool:
        vecs.append([lo, o, hi])
    if len(inner_pool) >= 2:
        for _ in range(2):
            vecs.append([lo] + sorted(rng.sample(inner_pool, rng.randint(2, min(4, len(inner_pool))))) + [hi])
    if inner_pool:
        vecs.append([lo, inner_pool[-1], hi, hi])               # repeated last value
    if quick and len(vecs) > 3:
        vecs = rng.sample(vecs[:1] + vecs[-1:], 1) + rng.sample(vecs[1:-1], 2)
    for v in vecs:
        reqs.append({"divisions": v, "force": False})
    ext = [[lo - 1, hi + 1], [lo - 1] + (inner_pool[:1]) + [hi + 1], [lo, hi + 1], [lo - 1, hi]]
    short = [[lo + 1, hi], [lo, hi - 1]]
    if quick:
        ext = rng.sample(ext, 1)
        short = rng.sample(short, 1)
    for v in ext:
        reqs.append({"divisions": v, "force": True})
    reqs.append({"divisions": vecs[-1], "force": True})
    for v in short + ([] if quick else ext[:1]):
        reqs.append({"divisions": v, "force": False})              # does not cover / exceeds the range: refuse, or keep every row
    reqs.append({"partition_size": rng.choice(("64B", "150B", "400B", "10kiB"))})
    if dtype == "datetime":
        reqs.append({"freq": rng.choice(("1D", "2D", "3D", "7D"))})
    return reqs


def apply_request(dtype, src, req):
    if "divisions" in req:
        return src.repartition(divisions=[label(dtype, o) for o in req["divisions"]], force=req["force"])
    return src.repartition(**req)


# -------------------------------------------------------------------------------------------- checks


def respects(parts, divs):
    """Index of the first partition with a row outside [divs[i], divs[i+1]) (closed for the last), or None."""
    for i, p in enumerate(parts):
        if not len(p):
            continue
        last = i == len(parts) - 1
        if not (p.index.min() >= divs[i] and (p.index.max() < divs[i + 1] or (last and p.index.max() <= divs[i + 1]))):
            return i
    return None


def check_source(run, rt, spec, stats, quick):
    """All requests on one source.  One run.count per (source, request)."""
    dtype = spec["dtype"]
    b = try_(lambda: build_source(rt, spec))
    if b[0] == "raise":
        stats["source_not_built"] += 1
        return
    pdf, src = b[1]
    r = try_(lambda: src.compute())
    if r[0] == "raise":
        stats["source_not_computed"] += 1
        return
    base = r[1]
    base_rows = rowlist(base)
    # Order oracle.  Position-based plans and boundary slicing of index-sorted partitions keep the order of compute().  A source
    # with known divisions whose partitions are NOT sorted inside (interleaved concatenation: one partition holds the piece
    # of the first input, then the piece of the second) cannot keep it when a partition is cut at a label: there the rows must
    # be the same and rows with equal labels must keep their relative order.
    exact_order = True
    if src.known_divisions:
        sp = try_(lambda: rt.compute_expr(src.optimize(fuse=False).expr))
        if sp[0] == "ok" and not all(p.index.is_monotonic_increasing for p in sp[1]):
            exact_order = False
            stats["sources_partitions_unsorted"] += 1
    norm = (lambda rows: rows) if exact_order else (lambda rows: sorted(rows, key=lambda t: t[0]))
    base_cmp = norm(base_rows)
    if sorted(base_rows, key=repr) != sorted(rowlist(pdf), key=repr):
        # the INPUT of the repartitioning is already wrong: not this property's business
        stats["source_differs_from_pandas"] += 1
        stats.setdefault("source_differs_examples", []).append(spec_summary(spec))
        return
    stats["sources"] += 1
    stats["sources_known_divisions" if src.known_divisions else "sources_unknown_divisions"] += 1
    for req in requests_for(run.rng, spec, pdf, src, quick):
        case = {"kind": "history", "spec": spec, "request": req}
        kind = "divisions" if "divisions" in req else next(iter(req))
        q = try_(lambda: apply_request(dtype, src, req))
        out = parts = None
        if q[0] == "ok":
            out = q[1]
            res = try_(lambda: (out.compute(), tuple(out.divisions), out.npartitions))
        else:
            res = q
        accepted = res[0] == "ok"
        run.count(("hist", spec_key(spec), repr(sorted(req.items()))), nontrivial=accepted)
        stats["cases"] += 1
        if not accepted:
            stats["refused"] += 1
            refusable = kind == "divisions" or (kind == "freq" and not src.known_divisions)
            if not refusable:
                # a partition count / size (and a frequency on known datetime divisions) can always be satisfied
                run.violation("repartition(%s) of %s raised %s although the input computes (%d rows)" % (
                    fmt_req(dtype, req), spec_summary(spec), res[1], len(base_rows)), case)
            elif not res[1].startswith(("ValueError", "NotImplementedError", "TypeError")):
                run.violation("repartition(%s) of %s failed with %s instead of rejecting the request" % (
                    fmt_req(dtype, req), spec_summary(spec), res[1]), case)
            continue
        got, divs, nparts = res[1]
        got_rows = rowlist(got)
        if norm(got_rows) != base_cmp:
            missing = [x for x in base_rows if x not in got_rows]
            extra = len(got_rows) - len(set(got_rows))
            what = "drops rows %s" % (missing[:6],) if missing else ("duplicates %d rows" % extra if extra else "reorders the rows")
            run.violation("repartition(%s) of %s (divisions %s) is accepted and %s: %d rows out, %d in" % (
                fmt_req(dtype, req), spec_summary(spec), short_divs(src.divisions), what, len(got_rows), len(base_rows)), case)
            continue
        if kind == "divisions":
            want = tuple(label(dtype, o) for o in req["divisions"])
            if tuple(divs) != want:
                run.violation("repartition(%s) of %s reports divisions %s" % (fmt_req(dtype, req), spec_summary(spec), short_divs(divs)), case)
                continue
        if all(d is not None for d in divs):
            p = try_(lambda: rt.compute_expr(out.optimize(fuse=False).expr))
            if p[0] == "ok":
                parts = p[1]
                stats["layouts_checked"] += 1
                if len(parts) != len(divs) - 1:
                    run.violation("repartition(%s) of %s: %d partitions for divisions %s" % (
                        fmt_req(dtype, req), spec_summary(spec), len(parts), short_divs(divs)), case)
                else:
                    i = respects(parts, divs)
                    if i is not None:
                        run.violation("repartition(%s) of %s: output partition %d holds index %s..%s outside its divisions %s" % (
                            fmt_req(dtype, req), spec_summary(spec), i, parts[i].index.min(), parts[i].index.max(), short_divs(divs[i:i + 2])), case)


def short_divs(d):
    return "(" + ", ".join(str(getattr(x, "date", lambda: x)()) if isinstance(x, pd.Timestamp) else str(x) for x in d) + ")"


def fmt_req(dtype, req):
    if "divisions" in req:
        return "divisions=%s, force=%s" % (short_divs([label(dtype, o) for o in req["divisions"]]), req["force"])
    return ", ".join("%s=%r" % kv for kv in req.items())


def spec_key(spec):
    return repr(sorted((k, repr(v)) for k, v in spec.items()))


def spec_summary(spec):
    dtype = spec["dtype"]
    ins = []
    for inp in spec["inputs"]:
        s = "%s..%s/%dp" % (short_divs([label(dtype, inp["ords"][0])])[1:-1], short_divs([label(dtype, inp["ords"][-1])])[1:-1], inp["npartitions"])
        if inp.get("pre"):
            s += "[%s]" % inp["pre"]
        ins.append(s)
    s = ins[0] if len(ins) == 1 else "concat([%s]%s)" % (", ".join(ins), "" if spec.get("interleave") is None else ", interleave_partitions=%s" % spec["interleave"])
    if spec.get("post"):
        s += "." + "-".join(str(x) for x in spec["post"])
    return "%s-index %s" % (dtype, s)


# --------------------------------------------------------------------------------------------- sweep

RELATIONS = ("separated", "touching", "overlapping", "nested", "reversed", "mixed")
PRES = (None, None, None, "unknown", "drop_last_label", "drop_first_label", "repartition", "elemwise")


def gen_specs(rng, quick):
    specs = []
    # (1) concatenations: every relation of the neighbouring index ranges x index dtype x stacked / interleaved
    for relation in RELATIONS:
        dtypes = DTYPES if (not quick or relation in ("separated", "touching")) else rng.sample(DTYPES, 2)
        for dtype in dtypes:
            for interleave in (None, True):
                reps = 1 if quick else 4
                for _ in range(reps):
                    n_inputs = rng.choice((2, 2, 3))
                    inputs = []
                    for lo, hi in concat_layouts(rng, relation, n_inputs):
                        ords = input_ordinals(rng, lo, hi, rng.choice((1, 1, 2)), rng.choice((1, 1, 2)), rng.choice((0.5, 0.9)))
                        inputs.append({"ords": ords, "npartitions": rng.choice((1, 2, 3)), "pre": None})
                    spec = {"dtype": dtype, "relation": relation, "inputs": inputs, "interleave": interleave, "nulls": rng.random() < 0.4, "post": None}
                    specs.append(spec)
    # (2) the same with a history on the inputs (unknown divisions, emptied end labels, repartitioned, element-wise) and/or on the result
    n2 = 10 if quick else 80
    for _ in range(n2):
        dtype = rng.choice(DTYPES)
        relation = rng.choice(RELATIONS[:4] + ("touching",))
        n_inputs = rng.choice((2, 3))
        inputs = []
        for lo, hi in concat_layouts(rng, relation, n_inputs):
            ords = input_ordinals(rng, lo, hi, rng.choice((1, 2)), rng.choice((1, 2)), 0.8)
            inputs.append({"ords": ords, "npartitions": rng.choice((1, 2, 3)), "pre": rng.choice(PRES)})
        lo_all = min(i["ords"][0] for i in inputs)
        hi_all = max(i["ords"][-1] for i in inputs)
        post = rng.choice((None, None, ("filter_mod", 3, rng.randint(0, 2)), ("filter_range", lo_all + 1, lo_all + 3),
                           ("elemwise",), ("repartition", rng.randint(1, 5)), ("partitions", rng.randint(0, 2), rng.randint(2, 6))))
        specs.append({"dtype": dtype, "relation": relation, "inputs": inputs, "interleave": rng.choice((None, None, True, False)),
                      "nulls": rng.random() < 0.4, "post": list(post) if post else None})
    # (3) single collections with a history: selection of partitions, label slices, filters, chained repartitioning
    n3 = 10 if quick else 60
    for _ in range(n3):
        dtype = rng.choice(DTYPES)
        lo = rng.randint(1, 3)
        hi = lo + rng.randint(5, 12)
        ords = input_ordinals(rng, lo, hi, rng.choice((1, 2)), rng.choice((1, 2)), 0.8)
        npart = rng.choice((2, 3, 4, 5))
        post = rng.choice((("partitions", rng.randint(0, 2), rng.randint(1, 5)), ("loc", rng.randint(lo, lo + 3), rng.randint(hi - 3, hi)),
                           ("filter_range", lo + 1, lo + 3), ("filter_mod", 2, rng.randint(0, 1)), ("repartition", rng.randint(1, 7))))
        specs.append({"dtype": dtype, "relation": "single", "inputs": [{"ords": ords, "npartitions": npart, "pre": rng.choice((None, None, "drop_last_label", "drop_first_label"))}],
                      "interleave": None, "nulls": rng.random() < 0.4, "post": list(post)})
    return specs


def history_sweep(run):
    import rt
    import collections
    quick = run.tier == "quick"
    stats = collections.Counter()
    specs = gen_specs(run.rng, quick)
    for spec in specs:
        check_source(run, rt, spec, stats, quick)
    ex = stats.pop("source_differs_examples", None)
    d = dict(stats)
    if ex:
        d["source_differs_examples"] = ex[:5]
    run.section("repartition_of_derived_collections", specs=len(specs), **d)
