"""C19 -- optimization terminates, is deterministic and idempotent."""
import os
import subprocess

import common
import progcheck
import c19_parquet
import c19_rowcount


def hashseed_names(run, n):
    """optimize() names of the same generated programs in fresh interpreters with different PYTHONHASHSEEDs."""
    code = r'''
import sys, random, json
sys.path.insert(0, %r)
import rt, gen, e2e
out = []
for idx in range(%d):
    rng = random.Random(%d * 1000003 + idx)
    tables = gen.make_tables(rng, nrows=8, nulls=0.0)
    g = gen.ProgGen(rng, profile="l2", max_steps=rng.randint(1, 6))
    prog = g.generate({"t0": list(tables["t0"].columns)})
    src = e2e.build_sources({"t0": tables["t0"]}, {"t0": ("npartitions", 3)}, rt)
    try:
        coll = gen.run_program(prog, src, True)[prog["result"]]
        names = [coll.expr._name, coll.optimize().expr._name]
    except Exception as ex:
        names = ["ERR " + type(ex).__name__]
    out.append(names)
print(json.dumps(out))
''' % (os.path.join(common.VERIF, "harness"), n, run.seed)
    results = []
    for hs in ("0", "1", "12345", "random"):
        env = dict(os.environ)
        env["PYTHONHASHSEED"] = hs
        env["PYTHONPATH"] = common.REPO
        p = subprocess.run([common.PY, "-c", code], env=env, stdout=subprocess.PIPE, stderr=subprocess.PIPE, text=True, timeout=1200)
        if p.returncode != 0:
            run.broken_tie("hashseed subprocess failed", p.stderr[-800:])
            return
        import json
        results.append(json.loads(p.stdout.strip().split("\n")[-1]))
    bad = 0
    for i in range(n):
        run.count(("hashseed", i))
        vals = {tuple(r[i]) for r in results}
        if len(vals) != 1:
            bad += 1
            run.violation("plan names differ between interpreters / hash seeds for generated program #%d: %s" % (i, sorted(vals)[:2]),
                          {"kind": "hashseed", "idx": i, "seed": run.seed})
    run.section("hashseed", programs=n, interpreters=4, differing=bad)


def pass_counts(run, n):
    """Count simplify passes of the real driver (monitored bound; RuntimeError('does not converge') never)."""
    import random
    import rt
    import gen
    import e2e
    from dask_expr import _core
    counts = []
    orig = _core.Expr.simplify_once
    state = {"n": 0}

    def counting(self, dependents, simplified):
        if not simplified:
            state["n"] += 1
        return orig(self, dependents, simplified)
    _core.Expr.simplify_once = counting
    try:
        for idx in range(n):
            rng = random.Random(run.seed * 1000003 + 77777 + idx)
            tables = gen.make_tables(rng, nrows=8)
            g = gen.ProgGen(rng, profile="l2", max_steps=rng.randint(1, 7))
            prog = g.generate({"t0": list(tables["t0"].columns)})
            src = e2e.build_sources({"t0": tables["t0"]}, {"t0": ("npartitions", 3)}, rt)
            try:
                coll = gen.run_program(prog, src, True)[prog["result"]]
            except Exception:
                continue
            state["n"] = 0
            try:
                coll.expr.simplify()
            except RuntimeError as ex:
                if "does not converge" in str(ex):
                    run.violation("Optimizer does not converge: %s" % gen.describe(prog), {"kind": "nonconv", "program": gen.describe(prog)})
                continue
            except Exception:
                continue
            nodes = sum(1 for _ in coll.expr.walk())
            counts.append((state["n"], nodes))
            run.count(("passes", idx))
    finally:
        _core.Expr.simplify_once = orig
    run.section("simplify_passes", programs=len(counts), max_passes=max([c for c, _ in counts] or [0]),
                max_ratio=round(max([c / max(1, nn) for c, nn in counts] or [0]), 2))


def join_filter_convergence(run):
    """optimize() must converge (and be idempotent) on filters over joins: conjunctions in both orders, every join kind."""
    import rt
    import pandas as pd
    L = pd.DataFrame({"k": [0, 1, 2, 3, 1, 2], "a": range(6), "v": [1, 2, 3, 4, 5, 6]})
    R = pd.DataFrame({"k": [1, 2, 2, 4], "x": [0, 1, 2, 3], "v": [9, 8, 7, 6]})
    n = 0
    preds = {
        "x&a": lambda m: (m.x > 1) & (m.a < 8), "a&x": lambda m: (m.a < 8) & (m.x > 1), "x&a&k": lambda m: (m.x > 0) & (m.a < 8) & (m.k > 0),
        "k&x": lambda m: (m.k > 0) & (m.x >= 1), "x|a": lambda m: (m.x > 1) | (m.a < 2), "(x&a)|(x&k)": lambda m: ((m.x > 0) & (m.a < 8)) | ((m.x > 0) & (m.k > 1)),
        "v_x&v_y": lambda m: (m.v_x > 1) & (m.v_y < 9), "v_y&v_x": lambda m: (m.v_y < 9) & (m.v_x > 1),
    }
    for how in ("inner", "left", "right", "outer"):
        for npl, npr in ((1, 1), (2, 3)):
            dl, dr = rt.dx.from_pandas(L, npartitions=npl), rt.dx.from_pandas(R, npartitions=npr)
            for pn, pf in preds.items():
                for tail in ("frame", "cols", "sum"):
                    n += 1
                    run.count(("join-filter", how, npl, pn, tail))
                    m = dl.merge(dr, on="k", how=how)
                    q = m[pf(m)]
                    q = q if tail == "frame" else (q[["k", "a"]] if tail == "cols" else q.a.sum())
                    try:
                        o1 = q.optimize()
                        o2 = q.optimize()
                        o3 = o1.optimize()
                    except RuntimeError as ex:
                        if "does not converge" in str(ex):
                            run.violation("optimize() reports non-convergence for %s-merge filtered by %s (%s)" % (how, pn, tail), {"kind": "nonconv", "how": how, "pred": pn, "tail": tail})
                        continue
                    except Exception:
                        continue
                    if o1.expr._name != o2.expr._name:
                        run.violation("optimize() twice gives different plans for %s-merge filtered by %s" % (how, pn), {"kind": "nondeterministic", "how": how, "pred": pn})
                    pm = L.merge(R, on="k", how=how)
                    exp = pm[pf(pm)]
                    exp = exp if tail == "frame" else (exp[["k", "a"]] if tail == "cols" else exp.a.sum())
                    from e2e import canon
                    a, b = canon(o3.compute(), False, False), canon(exp, False, False)
                    if a != b:
                        run.violation("optimize(optimize(q)) of %s-merge filtered by %s computes %s, pandas %s" % (how, pn, str(a)[:200], str(b)[:200]), {"kind": "idempotence", "how": how, "pred": pn})
    run.section("join_filter_convergence", cases=n)


def determinism_over_time(run):
    """optimize() of one query at different moments of a session (other queries planned in between, process-wide caches filled
    and evicted) must give the same plan, and planning it twice in a row must give the same plan."""
    import pandas as pd
    import rt
    from e2e import try_
    pre = pd.DataFrame({"x": range(60), "w": range(60, 0, -1), "v": [i % 7 for i in range(60)]})
    n = 0
    def mk(i):
        return rt.dx.from_pandas(pre.assign(k=[(j * (i + 3)) % 17 for j in range(len(pre))]), npartitions=3).set_index("k")
    for first, second in (("asc", "desc"), ("desc", "asc")):
        for col in ("x", "w", "v"):
            df = rt.dx.from_pandas(pre, npartitions=4)
            qs = {"asc": df.sort_values(col), "desc": df.sort_values(col, ascending=False), "set_index": df.set_index(col)}
            names = {}
            for moment in ("after the opposite sort", "again", "after 13 unrelated sorts", "after set_index on the same column"):
                if moment == "after the opposite sort":
                    try_(lambda: qs[first].optimize())
                elif moment == "after 13 unrelated sorts":
                    for i in range(13):
                        try_(lambda: mk(i).optimize().divisions)
                elif moment == "after set_index on the same column":
                    try_(lambda: qs["set_index"].optimize())
                o = try_(lambda: qs[second].optimize())
                n += 1
                run.count(("over-time", first, second, col, moment))
                if o[0] == "raise":
                    run.violation("optimize() of sort_values(%r, %s) fails %s: %s" % (col, second, moment, o[1]), {"kind": "over-time", "column": col, "moment": moment})
                    continue
                names[moment] = (o[1].expr._name, repr(tuple(o[1].divisions)))
            if len(set(names.values())) > 1:
                run.violation("optimize() of sort_values(%r, ascending=%s) depends on the moment in the session: %s" % (col, second == "asc", names),
                              {"kind": "over-time", "column": col, "first": first, "second": second})
    # plans whose metadata (npartitions / divisions) is itself computed by a nested optimize(): must converge
    df = rt.dx.from_pandas(pre, npartitions=4)
    nested = {
        "head then repartition(npartitions=3)": lambda: df.head(6, compute=False).repartition(npartitions=3),
        "tail then repartition(npartitions=2)": lambda: df.tail(6, compute=False).repartition(npartitions=2),
        "(df+1).head then repartition": lambda: (df + 1).head(6, compute=False).repartition(npartitions=2),
        "head then repartition(partition_size)": lambda: df.head(20, npartitions=2, compute=False).repartition(partition_size="200B"),
        "head then repartition(npartitions=1)": lambda: df.head(6, compute=False).repartition(npartitions=1),
        "repartition(3) then head": lambda: df.repartition(npartitions=3).head(4, compute=False),
        "repartition of repartition": lambda: df.repartition(npartitions=7).repartition(npartitions=2),
        "sort then repartition then head": lambda: df.sort_values("w").repartition(npartitions=3).head(3, compute=False),
        "set_index then repartition(5) then tail": lambda: df.set_index("w").repartition(npartitions=5).tail(2, compute=False),
        "loc then repartition": lambda: df.loc[5:40].repartition(npartitions=3),
        "partitions then repartition(6)": lambda: df.partitions[[1, 2]].repartition(npartitions=6),
    }
    import sys
    for nm, mk in nested.items():
        n += 1
        run.count(("nested-optimize", nm))
        old = sys.getrecursionlimit()
        sys.setrecursionlimit(600)
        try:
            r = try_(lambda: (lambda q: (q.npartitions, q.optimize().expr._name, q.optimize().optimize().expr._name, len(q.compute())))(mk()))
        finally:
            sys.setrecursionlimit(old)
        if r[0] == "raise":
            run.violation("optimize() of %s does not converge / fails: %s" % (nm, r[1][:200]), {"kind": "nested-optimize", "query": nm})
        elif r[1][1] != r[1][2]:
            run.violation("optimize() of %s is not idempotent" % nm, {"kind": "nested-optimize", "query": nm})
    run.section("determinism_over_time", optimizations=n)


def run(run):
    run.trusted = common.COMMON_TRUSTED + [
        "the drivers are modelled abstractly (Drivers.v) over an arbitrary pass function; that the real simplify_once / lower_once / _fusion_pass are deterministic functions of the plan is observed (names over repetitions, hash seeds, interpreters), not proved",
    ]
    run.rule = ("generated programs (l1/l2 profiles): optimize twice -> same name; optimize(optimize(q)) -> same result; no non-convergence; simplify pass counts bounded; "
                "names across 4 fresh interpreters with different PYTHONHASHSEED; non-trivial = program with >= 2 steps; "
                "projected multi-file parquet reads (2 readers, files of unequal shape, 8 size layouts, calculate_divisions on/off): plan (name, partitions, divisions, graph keys, "
                "partition lengths) first vs after every history action of the session (same collection and rebuilt query) vs a fresh interpreter; optimize twice; result vs pandas; "
                "consumers of the rows (len/size/shape/index/count/sum/head ...) o wrappers o row-wise combination (binary ops, where/mask, assign, fillna ...) of two operands "
                "of one source with different histories (same rows / filtered / sampled / cut / sorted / repartitioned / other collection) over pandas, unknown-division, "
                "from_map and parquet sources: every stage terminates (no non-convergence, simplify rounds <= 40 + 6 n), same plan twice and for the rebuilt query, "
                "optimize(optimize(q)) computes what optimize(q) computes")
    run.proofs("PropC19.v")
    quick = run.tier == "quick"
    progcheck.run_programs(run, {"C19"}, 150 if quick else 3000, profile="l1", own={"C19"}, with_steps=False)
    progcheck.run_programs(run, {"C19"}, 150 if quick else 3000, profile="l2", own={"C19"}, with_steps=False)
    pass_counts(run, 150 if quick else 2000)
    join_filter_convergence(run)
    determinism_over_time(run)
    c19_parquet.parquet_plan_histories(run)
    c19_rowcount.rowcount_consumers(run)
    hashseed_names(run, 40 if quick else 300)
