"""C07 -- declared schema matches the computed data."""
import common
import progcheck
from e2e import exec_expr, node_truth, try_, meta_mismatch, concat_parts, _short
import c06
import c07_sources
import c07_concat


def dtype_mix(rt):
    """Derivations over a table with int/float/bool/str/category/datetime columns; partitions that are empty or all-null."""
    import numpy as np
    import pandas as pd
    n = 12
    pdf = pd.DataFrame({
        "i": list(range(n)), "f": [float(i) if i % 4 else np.nan for i in range(n)], "b": [i % 2 == 0 for i in range(n)],
        "s": ["w%d" % (i % 3) for i in range(n)], "c": pd.Categorical(["x", "y", "z"] * 4), "t": pd.date_range("2020-01-01", periods=n, freq="D"),
        "g": [i % 3 for i in range(n)],
    })
    pdf.loc[0:3, "f"] = np.nan          # first partition all-null in f
    out = []
    for npart in (1, 3, 4):
        df = rt.dx.from_pandas(pdf, npartitions=npart)
        T = lambda s: "mix/%d:%s" % (npart, s)
        emptyfirst = df[df.i > 5]        # empty leading partitions
        out += [
            (T("source"), df), (T("projection"), df[["s", "i"]]), (T("series str"), df.s), (T("series cat"), df.c), (T("index"), df.index),
            (T("filter->empty partitions"), emptyfirst), (T("empty + elemwise"), emptyfirst[["i", "f"]] + 1),
            (T("sum numeric"), df[["i", "f"]].sum()), (T("count"), df.count()), (T("max"), df[["i", "f", "t"]].max()), (T("mean"), df[["i", "f"]].mean()),
            (T("series sum"), df.i.sum()), (T("series mean of empty-ish"), emptyfirst.f.mean()), (T("len-like size"), df.size),
            (T("groupby agg"), df.groupby("g").agg({"i": "sum", "f": "mean"})), (T("groupby count"), df.groupby("s").i.count()),
            (T("groupby split_out"), df.groupby("g").i.sum(split_out=2)),
            (T("value_counts"), df.s.value_counts()), (T("unique"), df.s.unique()), (T("nunique"), df.g.nunique()),
            (T("drop_duplicates"), df[["s", "g"]].drop_duplicates()), (T("isna"), df.isna()), (T("fillna"), df[["i", "f"]].fillna(0)),
            (T("astype"), df.astype({"i": "float64", "g": "int32"})), (T("assign"), df.assign(z=df.i * 1.5, w=df.b)), (T("rename"), df.rename(columns={"i": "ii"})),
            (T("reset_index"), df.reset_index()), (T("set_index"), df.set_index("i")), (T("sort_values"), df.sort_values("f")), (T("to_frame"), df.i.to_frame()),
            (T("series rename"), df.i.rename("renamed")), (T("merge"), df.merge(df[["g", "f"]], on="g")), (T("merge left empty side"), emptyfirst.merge(df[["g", "s"]], on="g", how="left")),
            (T("merge indicator broadcast"), df.merge(df[["g", "f"]].repartition(npartitions=2), on="g", how="inner", indicator=True, broadcast=True, shuffle_method="tasks")),
            (T("merge indicator hash"), df.merge(df[["g", "f"]], on="g", how="left", indicator=True, broadcast=False, shuffle_method="tasks")),
            (T("merge indicator single"), df.merge(df[["g", "f"]].repartition(npartitions=1), on="g", how="left", indicator=True)),
            (T("merge suffixes"), df.merge(df, on="g", suffixes=("_l", "_r"))),
            (T("concat"), rt.dx.concat([df, df])), (T("concat axis1"), rt.dx.concat([df[["i"]], df[["s"]]], axis=1)),
            (T("cumsum"), df[["i", "f"]].cumsum()), (T("shift"), df[["i", "s"]].shift(1)), (T("where"), df[["i", "f"]].where(df.i > 3)),
            (T("mask int->float promotion"), df[["i"]].mask(df.i > 3)), (T("comparison"), df.i > 3), (T("and"), (df.i > 3) & df.b), (T("invert"), ~df.b),
            (T("head"), df.head(3, compute=False)), (T("tail"), df.tail(3, compute=False)), (T("describe-like minmax"), df.i.min()),
            (T("str accessor"), df.s.str.upper()), (T("dt accessor"), df.t.dt.day), (T("map_partitions"), df.map_partitions(lambda p: p[["i"]])),
            (T("nlargest"), df.nlargest(3, "i")), (T("dropna"), df.dropna(subset=["f"])), (T("clip"), df[["i", "f"]].clip(1, 5)), (T("round"), df[["f"]].round()),
            (T("abs"), (df[["i", "f"]] - 5).abs()), (T("index name"), df.rename_axis(index="idx")), (T("repartition"), df.repartition(npartitions=2)),
            (T("shuffle"), df.shuffle("g")), (T("partitions"), df.partitions[[0]]),
            # label indexing with a column indexer: rows from the first, interior and last touched partitions
            (T("loc slice + column list"), df.loc[1:10, ["s", "i"]]), (T("loc slice + one column"), df.loc[1:10, "i"]), (T("loc slice + reordered columns"), df.loc[2:11, ["t", "b", "f"]]),
            (T("loc list + column list"), df.loc[[1, 5, 9], ["f", "s"]]), (T("loc unsorted list + column"), df.loc[[9, 1, 5], "s"]), (T("loc element + column list"), df.loc[3:3, ["i"]]),
            (T("loc all rows + column list"), df.loc[:, ["s", "i"]]), (T("loc open slice + column list"), df.loc[5:, ["c", "g"]]), (T("loc slice + column list + elemwise"), df.loc[1:10, ["i", "g"]] + 1),
            (T("loc boolean series"), df.loc[df.i > 3]), (T("loc boolean + columns"), df.loc[df.i > 3, ["s"]]),
        ]
        # Series with "falsy" or positional-looking names (0, 1, "", None) through operations that detour over a frame
        # (alignment shuffles of operands with unknown divisions, shuffles, drop_duplicates, value_counts, reset_index)
        num = pd.DataFrame(np.arange(24).reshape(12, 2))            # columns 0 and 1
        a = rt.dx.from_pandas(num, npartitions=npart).clear_divisions()
        b = rt.dx.from_pandas(num, npartitions=max(1, npart - 1)).clear_divisions()
        for nm, ser, other in ((0, a[0], b[0]), (1, a[1], b[1]), ("", a[0].rename(""), b[1].rename("")), (None, a[0].rename(None), b[1].rename(None)), ("x", a[0].rename("x"), b[0].rename("y"))):
            out += [
                (T("series named %r + unaligned series" % (nm,)), ser + other), (T("series named %r filtered by unaligned mask" % (nm,)), ser[other > 6]),
                (T("series named %r where unaligned" % (nm,)), ser.where(other > 6)), (T("series named %r shuffle on index" % (nm,)), ser.shuffle(on_index=True)),
                (T("series named %r drop_duplicates" % (nm,)), ser.drop_duplicates()), (T("series named %r value_counts" % (nm,)), ser.value_counts()),
                (T("series named %r unique" % (nm,)), ser.unique()), (T("series named %r reset_index" % (nm,)), ser.reset_index()), (T("series named %r to_frame" % (nm,)), ser.to_frame()),
                (T("series named %r cumsum" % (nm,)), ser.cumsum()), (T("series named %r nlargest" % (nm,)), ser.nlargest(3)), (T("series named %r repartition" % (nm,)), ser.repartition(npartitions=2)),
            ]
    return out


def kind(obj):
    import pandas as pd
    if isinstance(obj, pd.DataFrame):
        return "frame"
    if isinstance(obj, pd.Series):
        return "series"
    if isinstance(obj, pd.Index):
        return "index"
    return "scalar"


def run(run):
    import rt
    run.trusted = common.COMMON_TRUSTED + [
        "_meta is produced by running pandas on empty / non-empty stand-ins: not modelled; compared with the computed data of every partition",
    ]
    run.rule = ("for ~65 derivations over a table with int/float(with all-null partition)/bool/str/category/datetime columns x 1/3/4 partitions, the C06 collection set, and every variable of generated programs, "
                "at logical / optimized / fused stage: container kind, labels and order, names and dtype kinds of _meta vs EACH computed partition and vs the collection type; optimization keeps _meta; "
                "column selections (single label / ordered pairs / triples / header permutations) absorbed by 22 source variants (read_csv/table/fwf with 1-3 files, blocksize, sep, names, usecols; "
                "both parquet readers; from_pandas/map/dict/delayed) over 6 tables with unsorted headers (dtype mixes, missing values, all-null first partition, odd / integer / mixed labels) below 26 consumers: "
                "declared schema (_meta and the .columns/.name/.dtypes accessors) vs compute(), vs each partition of the unoptimized / optimized / fused plan, vs the optimized plans' declaration, and node by node; "
                "concatenations: 24 input shapes (identical / reordered / overlapping / nested / disjoint column sets, shared columns of different dtypes, categoricals, Series, Series with frames) "
                "x 6 row layouts (monotonic / overlapping / unknown / partly unknown divisions, named index) x 1-3 partitions per input x join inner/outer x interleave_partitions x ignore_order x axis 0/1 "
                "x missing values x input histories (empty leading partitions, elementwise) below 25 consumers, same oracles as the source selections; "
                "non-trivial = collection with >= 2 partitions (source selections: >= 2 selected labels; concatenations: > 2 input partitions)")
    run.proofs("PropC07.v")
    n = 0
    colls = [(t, c) for t, c in dtype_mix(rt)] + [(t, c) for t, c, _ in c06.collections(rt)]
    for tag, coll in colls:
        n += 1
        e = coll.expr
        run.count(("collection", tag), nontrivial=True)
        vs = node_truth(tag, e, {"C07"}, "logical")
        m0 = try_(lambda: e._meta)
        for st, fuse in (("optimized", False), ("fused", True)):
            o = try_(lambda: coll.optimize(fuse=fuse).expr)
            if o[0] == "ok":
                vs += node_truth(tag, o[1], {"C07"}, st, lowered=True)
                m1 = try_(lambda: o[1]._meta)
                if m0[0] == "ok" and m1[0] == "ok":
                    msg = meta_mismatch(m0[1], m1[1]) if kind(m0[1]) == kind(m1[1]) else "container kind %s -> %s" % (kind(m0[1]), kind(m1[1]))
                    if msg and "dtype" not in msg:
                        vs.append({"prop": "C07", "what": "%s: optimization (%s) changes the declared schema: %s" % (tag, st, msg)})
            elif o[0] == "raise":
                un = try_(lambda: exec_expr(e.lower_completely()))
                if un[0] == "ok":
                    vs.append({"prop": "C07", "what": "%s: optimize(fuse=%s) raises %s" % (tag, fuse, o[1])})
        # collection type chosen from meta
        if m0[0] == "ok":
            want = {"frame": "DataFrame", "series": "Series", "index": "Index", "scalar": "Scalar"}[kind(m0[1])]
            if type(coll).__name__ != want:
                vs.append({"prop": "C07", "what": "%s: collection type %s but meta is a %s" % (tag, type(coll).__name__, kind(m0[1]))})
            r = try_(lambda: coll.compute())
            if r[0] == "ok" and kind(r[1]) != kind(m0[1]):
                vs.append({"prop": "C07", "what": "%s: computed result is a %s, declared %s" % (tag, kind(r[1]), kind(m0[1]))})
            elif r[0] == "ok":
                msg = meta_mismatch(m0[1], r[1])
                if msg:
                    vs.append({"prop": "C07", "what": "%s: computed result vs meta: %s" % (tag, msg)})
        for v in vs:
            run.violation(v["what"], {"kind": "collection", "tag": tag})
    run.section("collections", checked=n)
    # column selections absorbed by every kind of data source (readers with headers that are not in sorted order)
    c07_sources.run_family(run)
    # concatenations: the declaration comes from the metas of the inputs, the data from five lowered forms that receive the options separately
    c07_concat.run_family(run)
    quick = run.tier == "quick"
    progcheck.run_programs(run, {"C07"}, 120 if quick else 3000, profile="l1", own={"C07"}, with_steps=False)
    progcheck.run_programs(run, {"C07"}, 80 if quick else 2000, profile="l2", own={"C07"}, with_steps=False)


def replay(path):
    import json
    import os
    os.makedirs(common.BUILD, exist_ok=True)
    d = json.load(open(path))
    case = d.get("case") or {}
    if case.get("kind") == "concat":
        found = c07_concat.replay_case(case)
        for f in found:
            print("VIOLATION property=C07 replay=%s :: %s" % (path, f))
        print("C07 replay %s: %d finding(s)" % (path, len(found)))
        return 1 if found else 0
    if case.get("kind") != "source-selection":
        print("C07 replay: only cases of kind source-selection / concat can be replayed individually (this one: %r); rerun ./check C07 with seed %s" % (case.get("kind"), d.get("seed")))
        return 2
    found = c07_sources.replay_case(case)
    for f in found:
        print("VIOLATION property=C07 replay=%s :: %s" % (path, f))
    print("C07 replay %s: %d finding(s)" % (path, len(found)))
    return 1 if found else 0
