"""C02 -- results equal the pandas meaning of the query for every partitioning."""
import itertools
import random
import warnings

import common
import progcheck
from e2e import canon, try_, _short


def all_cuts(n):
    """All 2^(n-1) ways of cutting n rows into consecutive non-empty partitions (as lists of cut positions)."""
    out = []
    for k in range(n):
        for c in itertools.combinations(range(1, n), k):
            out.append(list(c))
    return out


def layouts(pdf, rng, quick):
    """(name, builder(rt) -> collection): every cut (known divisions when the index allows it, and unknown), plus empty partitions."""
    n = len(pdf)
    cuts = all_cuts(n)
    if quick:
        cuts = [c for i, c in enumerate(cuts) if i % 3 == 0 or len(c) in (0, n - 1)]
    L = []
    for c in cuts:
        L.append(("cuts%s" % c, c, "unknown"))
        if pdf.index.is_monotonic_increasing and pdf.index.is_unique:
            L.append(("divs%s" % c, c, "known"))
    for c in ([0], [n], [2, 2], [0, 0, 3], [1, 1, 1, n]):
        if all(x <= n for x in c):
            L.append(("empty%s" % c, c, "unknown"))
    return L


def build(rt, pdf, cut, kind):
    from e2e import _Pieces, _piece, cut_pieces
    if kind == "known":
        divs = [pdf.index[0]] + [pdf.index[i] for i in cut] + [pdf.index[-1]]
        return rt.dx.repartition(pdf, divs)
    pieces = cut_pieces(pdf, cut)
    return rt.dx.from_map(_piece, list(range(len(pieces))), args=[_Pieces(pieces)], meta=pdf.iloc[:0])


def families():
    """Operator families: name -> (fn(d) working on pandas and dask alike, ordered?, labels defined?)."""
    isd = lambda d: hasattr(d, "npartitions")
    F = {
        "elementwise": (lambda d: (d.x * 2 + d.y).to_frame("r").assign(s=d.k.astype(str)), True, True),
        "sum": (lambda d: d[["x", "y"]].sum(), True, True),
        "mean-min-max": (lambda d: d.x.mean() + d.y.min() - d.x.max(), True, True),
        "count-nunique": (lambda d: d.count().sum() + d.k.nunique(), True, True),
        "std-var": (lambda d: d.x.std() + d.y.var(), True, True),
        "groupby-sum": (lambda d: d.groupby("k").x.sum(), False, True),
        "groupby-agg": (lambda d: d.groupby("k").agg({"x": "max", "y": "mean"}), False, True),
        "groupby-count-2keys": (lambda d: d.groupby(["k", "j"]).x.count(), False, True),
        "groupby-apply": (lambda d: d.groupby("k").x.apply(lambda s: s.max() - s.min(), **({"meta": ("x", "float64")} if isd(d) else {})), False, True),
        "groupby-transform": (lambda d: d.groupby("k").x.transform("sum", **({"meta": ("x", "float64")} if isd(d) else {})), False, True),
        "groupby-cumsum": (lambda d: d.groupby("k").x.cumsum(), False, True),
        "sort_values": (lambda d: d.sort_values(["y", "x"]), True, True),
        "set_index": (lambda d: d.set_index("x") if isd(d) else d.set_index("x").sort_index(kind="stable"), False, True),
        # a key that is already ordered across the partitions, with equal values on both sides of a cut (presorted fast paths)
        "sort_values-presorted-2keys": (lambda d: d.sort_values(["p", "y"]), True, True),
        "sort_values-presorted-then-cumsum": (lambda d: d.sort_values(["p", "x"]).x.cumsum(), True, True),
        "sort_values-presorted-then-head": (lambda d: d.sort_values(["p", "y"]).head(4, npartitions=-1) if isd(d) else d.sort_values(["p", "y"]).head(4), True, True),
        "set_index-presorted": (lambda d: d.set_index("p") if isd(d) else d.set_index("p").sort_index(kind="stable"), False, True),
        "set_index-presorted-loc": (lambda d: d.set_index("p").loc[1:1], False, True),
        "set_index-presorted-cumsum": (lambda d: d.set_index("p").k.cumsum().reset_index(drop=True) if not isd(d) else d.set_index("p").k.cumsum().reset_index(drop=True), False, False),
        "cumsum": (lambda d: d[["x", "y"]].cumsum(), True, True),
        "cummax-cumprod": (lambda d: d.x.cummax() + d.y.cumprod(), True, True),
        "cummin-frame": (lambda d: d[["x", "y"]].cummin(), True, True),
        "cumsum-nan-column": (lambda d: d[["x", "z"]].cumsum(), True, True),
        "cummax-nan-series": (lambda d: d.z.cummax(), True, True),
        "shift": (lambda d: d.x.shift(1), True, True),
        "shift-neg": (lambda d: d.x.shift(-2), True, True),
        "diff": (lambda d: d.x.diff(), True, True),
        "ffill": (lambda d: d.z.ffill(), True, True),
        "bfill": (lambda d: d.z.bfill(), True, True),
        "rolling-sum": (lambda d: d.x.rolling(2).sum(), True, True),
        "rolling-mean-3": (lambda d: d.y.rolling(3, min_periods=1).mean(), True, True),
        "drop_duplicates": (lambda d: d[["k", "j"]].drop_duplicates(), False, False),
        "unique": (lambda d: d.k.unique() if isd(d) else __import__("pandas").Series(d.k.unique(), name="k"), False, False),
        "value_counts": (lambda d: d.k.value_counts(), False, True),
        "nlargest": (lambda d: d.nlargest(2, "x"), True, True),
        "nsmallest": (lambda d: d.x.nsmallest(3), True, True),
        "idxmax": (lambda d: d.x.idxmax(), True, True),
        "isin-filter": (lambda d: d[d.k.isin([0, 2])], True, True),
        "fillna-where": (lambda d: d.z.fillna(0).where(d.x > 2, -1), True, True),
        "head-all": (lambda d: d.head(4, npartitions=-1) if isd(d) else d.head(4), True, True),
        "describe-like": (lambda d: d.x.quantile(0.5) if False else d.x.max() - d.x.min(), True, True),
        "len-size": (lambda d: len(d) * 1000 + d.size if not isd(d) else len(d) * 1000 + d.size.compute(), True, True),
        "self-merge": (lambda d: d.merge(d[["k", "y"]].drop_duplicates(subset=["k"]) if not isd(d) else d[["k", "y"]].drop_duplicates(subset=["k"]), on="k", how="left") if False else d.merge(d[["k", "j"]], on="k"), False, False),
        "concat-axis0": (lambda d: __import__("dask_expr").concat([d, d]) if isd(d) else __import__("pandas").concat([d, d]), False, True),
    }
    return F


def two_input_families():
    isd = lambda d: hasattr(d, "npartitions")
    cc = lambda ds, **kw: __import__("dask_expr").concat(ds, **kw) if isd(ds[0]) else __import__("pandas").concat(ds, **kw)
    G = {
        "merge-inner": (lambda a, b: a.merge(b, on="k"), False, False),
        "merge-left": (lambda a, b: a.merge(b, on="k", how="left"), False, False),
        "merge-right": (lambda a, b: a.merge(b, on="k", how="right"), False, False),
        "merge-outer": (lambda a, b: a.merge(b, on="k", how="outer"), False, False),
        "merge-left_on-right_index": (lambda a, b: a.merge(b.set_index("k") if not isd(b) else b.set_index("k"), left_on="k", right_index=True), False, False),
        # mixed key placement: a column on one side, the *named index referred to by name* on the other (hash join)
        "merge-column-vs-named-index": (lambda a, b: a.merge(b.set_index("k"), left_on="k", right_on="k", **({"shuffle_method": "tasks", "broadcast": False} if isd(a) else {})), False, False),
        "merge-named-index-vs-column": (lambda a, b: a.set_index("k").merge(b, on="k", how="left", **({"shuffle_method": "tasks", "broadcast": False} if isd(a) else {})), False, False),
        "merge-column-vs-named-float-index": (lambda a, b: a.merge(b.astype({"k": "float64"}).set_index("k"), left_on="k", right_on="k", how="outer", **({"shuffle_method": "tasks", "broadcast": False} if isd(a) else {})), False, False),
        "merge-index-index": (lambda a, b: a[["x"]].merge(b[["v"]], left_index=True, right_index=True, how="inner"), False, True),
        "join": (lambda a, b: a[["x"]].join(b[["v"]], how="left"), False, True),
        "align-add": (lambda a, b: a.x + b.v, False, True),
        "align-assign": (lambda a, b: a.assign(w=b.v), False, True),
        "align-where": (lambda a, b: a.x.where(b.v > 12), False, True),
        "concat-axis1": (lambda a, b: cc([a[["x"]], b[["v"]]], axis=1), False, True),
        "concat-axis0": (lambda a, b: cc([a[["k"]], b[["k"]]]), False, True),
        "combine_first": (lambda a, b: a.x.combine_first(b.v), False, True),
    }
    return G


def run(run):
    import rt
    import numpy as np
    import pandas as pd
    warnings.filterwarnings("ignore")
    run.trusted = common.COMMON_TRUSTED + [
        "pandas operators inside tasks (merge, groupby, rolling, hashing, sorting, ...) enter the partition-independence theorems as hypotheses; pandas on the concatenated input is the oracle of the sweep",
    ]
    run.rule = ("operator families (elementwise, reductions, groupby agg/apply/transform, sort/set_index, cumulative, shift/diff/fill/rolling, dedup, n-largest, ...) x ALL 2^(n-1) cuts of an n-row table "
                "(known and unknown divisions) + layouts with empty partitions; two-input families (joins of every kind and key placement, alignment, concat) x independently chosen cuts of both inputs; "
                "reductions / groupby aggregations x split_every in {False, 2, 3, default} x skipna / min_count / ddof / dropna / n x layouts with 1..10 partitions (tree depth 1..4), float / int / bool / nullable columns with and without missing values; "
                "dask result (optimized) vs pandas on the concatenated input; row order / index labels ignored only where documented unspecified; non-trivial = layout with >= 2 partitions")
    run.proofs("PropC02.v")
    quick = run.tier == "quick"
    n = 6
    pdf = pd.DataFrame({"x": [3.0, 1.0, 4.0, 1.0, 5.0, 9.0][:n], "y": [2.0, 7.0, 1.0, 8.0, 2.0, 8.0][:n], "k": [0, 1, 0, 2, 1, 0][:n], "j": [0, 0, 1, 1, 0, 0][:n],
                        "z": [np.nan, 1.0, np.nan, np.nan, 2.0, np.nan][:n],
                        "p": [0, 0, 1, 1, 1, 2][:n]}, index=pd.RangeIndex(n))      # p: already ordered, equal values straddle most cuts
    F = families()
    lay = layouts(pdf, run.rng, quick)
    ncase = 0
    for fname, (fn, ordered, labels) in F.items():
        exp = try_(lambda: fn(pdf))
        if exp[0] == "raise":
            run.broken_tie("family does not run on pandas", {"family": fname, "err": exp[1]})
            continue
        pc = canon(exp[1], ordered, labels)
        for lname, cut, kind in lay:
            ncase += 1
            run.count(("single", fname, lname), nontrivial=len(cut) >= 1)
            d = build(rt, pdf, cut, kind)
            got = try_(lambda: fn(d))
            if got[0] == "ok" and hasattr(got[1], "compute"):
                got = try_(lambda: got[1].compute())
            if got[0] == "raise":
                if "NotImplementedError" in got[1] or "ValueError" in got[1] and ("divisions" in got[1] or "Can only" in got[1] or "All NaN partition encountered" in got[1]):
                    continue    # explicit refusal (e.g. rolling / fill limits with unknown divisions) is allowed by the property
                run.violation("%s on layout %s raises %s (pandas computes it)" % (fname, lname, got[1]), {"kind": "single", "family": fname, "cut": cut, "divisions": kind})
                continue
            gc_ = canon(got[1], ordered, labels)
            if gc_ != pc:
                run.violation("%s on layout %s (%s divisions): %s, pandas: %s" % (fname, lname, kind, _short(gc_), _short(pc)), {"kind": "single", "family": fname, "cut": cut, "divisions": kind})
    # two inputs, independently partitioned
    a = pd.DataFrame({"x": [3.0, 1.0, 4.0, 1.0, 5.0], "k": [0, 1, 0, 2, 1]}, index=pd.RangeIndex(5))
    b = pd.DataFrame({"v": [10.0, 11.0, 12.0, 13.0], "k": [0, 1, 3, 1]}, index=pd.Index([0, 2, 3, 6]))
    G = two_input_families()
    ca, cb = all_cuts(len(a)), all_cuts(len(b))
    pairs = [(x, y) for x in ca for y in cb]
    if quick:
        run.rng.shuffle(pairs)
        pairs = pairs[:24]
    for gname, (fn, ordered, labels) in G.items():
        exp = try_(lambda: fn(a, b))
        if exp[0] == "raise":
            run.broken_tie("family does not run on pandas", {"family": gname, "err": exp[1]})
            continue
        pc = canon(exp[1], ordered, labels)
        for (x, y) in pairs:
            for kinds in (("known", "known"), ("unknown", "unknown"), ("known", "unknown")):
                if quick and kinds == ("known", "unknown") and len(x) % 2:
                    continue
                ncase += 1
                run.count(("pair", gname, str(x), str(y), kinds), nontrivial=True)
                da, db = build(rt, a, x, kinds[0]), build(rt, b, y, kinds[1])
                got = try_(lambda: fn(da, db))
                if got[0] == "ok" and hasattr(got[1], "compute"):
                    got = try_(lambda: got[1].compute())
                case = {"kind": "pair", "family": gname, "cuts": [x, y], "divisions": kinds}
                if got[0] == "raise":
                    if ("ValueError" in got[1] or "NotImplementedError" in got[1]) and ("division" in got[1].lower() or "aligned" in got[1].lower() or "unknown" in got[1].lower() or "different lengths" in got[1]):
                        continue   # explicit refusal
                    run.violation("%s with cuts %s / %s (%s) raises %s" % (gname, x, y, kinds, got[1]), case, finding=classify_pair(gname, kinds, got[1]))
                    continue
                gc_ = canon(got[1], ordered, labels)
                if gc_ != pc:
                    run.violation("%s with cuts %s / %s (%s): %s, pandas: %s" % (gname, x, y, kinds, _short(gc_), _short(pc)), case, finding=classify_pair(gname, kinds, None))
    run.section("partitionings", cases=ncase, single_input_families=len(F), two_input_families=len(G), layouts_per_family=len(lay), cuts_enumerated="all 2^(n-1), n=%d" % n)
    run.sample({"family": "groupby-agg", "layout": "cuts[1, 4] unknown divisions"})
    import align_layer
    align_layer.align_layer(run, rt, quick)
    # every reduction that takes split_every, at every depth of the reduction tree (the default split_every=False never combines)
    import reduce_layer
    reduce_layer.reduce_layer(run, rt, quick)
    progcheck.run_programs(run, {"C02"}, 150 if quick else 4000, profile="l1", own={"C02"}, with_steps=False)
    progcheck.run_programs(run, {"C02"}, 100 if quick else 3000, profile="l2", own={"C02"}, with_steps=False)


def classify_pair(gname, kinds, err):
    return None
