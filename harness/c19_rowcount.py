"""C19, consumers of the rows of a row-wise combination: optimize() terminates, is deterministic and idempotent.

The rules that answer `how many rows / which rows does this frame have` (Len, Size, shape, index, count and the other
reductions, head) look THROUGH length-preserving operations and replace the frame by something cheaper that has the same
rows.  Whether they may do so depends on the histories of the row-wise operands of the operation below: operands of one
root collection are partitioned alike (no *Align expression is inserted), yet one of them may have been filtered, sampled,
cut, sorted ...  Several rules of one consumer that are each other's inverse (Len(X) -> Len(Index(X)) -> Len(X)) are only
kept apart by such conditions, so whether the driver converges is a property of

    consumer  o  wrappers  o  combine(history_x(df), history_y(df))          over a source df.

The family enumerates that space (a deterministic core: every way of combining x every consumer, over a filtered and an
unfiltered operand; plus a sample of the whole product drawn from run.rng) and checks exactly what C19 states:

  * optimize_until(q, stage) returns for every stage: no 'does not converge', no RecursionError, a bounded number of
    simplify rounds (the unoptimized plan of the same query is the witness that the query is well formed),
  * optimize() of the same collection twice, and of the query rebuilt from scratch, gives the same plan,
  * optimize(optimize(q)) can be planned and computes what optimize(q) computes.

Results are NOT compared with pandas here (that is C01/C02): a query whose optimized plan cannot be computed is skipped.
"""
import os
import shutil
import tempfile
import time

import numpy as np
import pandas as pd

import common
from e2e import STAGES, canon, concat_parts, exec_expr, try_, _short

# rounds of one Expr.simplify call on a plan of n expressions: at most MAX_ROUNDS + ROUNDS_PER_EXPR * n (the clean tree needs up to
# about 3 n on this family; a driver whose plans keep growing never reaches a fixpoint and is stopped here)
MAX_ROUNDS = 40
ROUNDS_PER_EXPR = 6
MAX_SECONDS = 30.0   # wall time of one optimize_until


# ----------------------------------------------------------------------------- sources

INDEXES = ("range", "gaps", "float", "datetime")
DTYPES = ("int-float", "all-float", "nullable", "with-string", "with-bool")
SOURCE_KINDS = ("pandas", "pandas", "unknown", "cuts", "parquet")


def make_frame(spec):
    """The data of a source: a int, b float, c int (descending), [s string | f bool]; unique, sorted index."""
    n = spec["nrows"]
    rs = np.random.RandomState(spec["seed"])
    a = rs.randint(0, 5, size=n)
    b = rs.randint(0, 9, size=n).astype("float64")
    c = np.arange(n)[::-1].copy()
    if spec["nulls"]:
        b[rs.rand(n) < 0.3] = np.nan
    d = {"a": a, "b": b, "c": c}
    dt = spec["dtypes"]
    if dt == "all-float":
        d["a"] = a.astype("float64")
        d["c"] = c.astype("float64")
        if spec["nulls"]:
            d["a"][rs.rand(n) < 0.2] = np.nan
    elif dt == "nullable":
        aa = pd.array(a, dtype="Int64")
        if spec["nulls"]:
            aa[rs.rand(n) < 0.2] = pd.NA
        d["a"] = aa
    elif dt == "with-string":
        s = np.array(["w%d" % v for v in rs.randint(0, 4, size=n)], dtype=object)
        if spec["nulls"]:
            s[rs.rand(n) < 0.2] = None
        d["s"] = s
    elif dt == "with-bool":
        d["f"] = rs.rand(n) < 0.5
    ix = spec["index"]
    if ix == "range":
        index = pd.RangeIndex(n)
    elif ix == "gaps":
        index = pd.Index(np.arange(n) * 3 + 10, name="i")
    elif ix == "float":
        index = pd.Index(np.arange(n) / 2.0)
    else:
        index = pd.date_range("2001-01-01", periods=n, freq="D", name="t")
    return pd.DataFrame(d, index=index)


def _piece(i, pieces):
    return pieces.pieces[i]


class _Pieces:
    """from_map argument with a stable token (the pieces themselves)."""

    def __init__(self, pieces):
        self.pieces = pieces

    def __dask_tokenize__(self):
        from dask.base import tokenize
        return ("c19-rowcount-pieces", tokenize(*self.pieces))


class Sources:
    """Builds (and rebuilds, for the determinism check) the collection of a source spec."""

    def __init__(self, rt, tmp):
        self.rt, self.tmp, self.frames, self.written = rt, tmp, {}, {}

    def frame(self, spec):
        key = repr(sorted(spec.items()))
        if key not in self.frames:
            self.frames[key] = make_frame(spec)
        return self.frames[key]

    def build(self, spec, npartitions=None):
        dx = self.rt.dx
        pdf = self.frame(spec)
        k = npartitions or spec["npartitions"]
        kind = spec["kind"]
        if kind == "pandas":
            return dx.from_pandas(pdf, npartitions=k, sort=True)
        if kind == "unknown":
            return dx.from_pandas(pdf, npartitions=k, sort=False).clear_divisions()
        if kind == "cuts":
            # unequal pieces, one of them empty: unknown divisions
            n = len(pdf)
            cuts = sorted({0, n} | {(n * j) // k + (j % 2) for j in range(1, k)})
            pieces = [pdf.iloc[lo:hi] for lo, hi in zip(cuts[:-1], cuts[1:])] + [pdf.iloc[:0]]
            return dx.from_map(_piece, list(range(len(pieces))), args=[_Pieces(pieces)], meta=pdf.iloc[:0])
        if kind == "parquet":
            key = (repr(sorted(spec.items())), k)
            if key not in self.written:
                import pyarrow as pa
                import pyarrow.parquet as pq
                path = os.path.join(self.tmp, "ds%d" % len(self.written))
                os.makedirs(path)
                n = len(pdf)
                for j in range(k):
                    pq.write_table(pa.Table.from_pandas(pdf.iloc[(n * j) // k:(n * (j + 1)) // k]), os.path.join(path, "part.%d.parquet" % j))
                self.written[key] = path
            return dx.read_parquet(self.written[key])
        raise KeyError(kind)


def make_source_spec(rng, kind=None):
    kind = kind or rng.choice(SOURCE_KINDS)
    return {"kind": kind, "npartitions": rng.choice([1, 2, 3, 4, 5, 7]), "nrows": rng.choice([9, 24, 40]), "nulls": rng.choice([False, True]),
            "index": rng.choice(INDEXES), "dtypes": rng.choice(DTYPES), "seed": rng.randrange(1000)}


# ----------------------------------------------------------------------------- histories of an operand

def _keep_odd(p):
    return p.iloc[1::2]


class _Ctx:
    """What a history may use besides the source collection: the index labels of the data and other collections of the same data."""

    def __init__(self, labels, other):
        self.labels, self.other = labels, other

    def at(self, frac):
        return self.labels[int(frac * (len(self.labels) - 1))]


HISTORIES = {
    # the rows of the source, provably
    "same": lambda df, S: df,
    "elemwise": lambda df, S: df * 2,
    "fillna": lambda df, S: df.fillna(0),
    "project": lambda df, S: df[["a", "b"]],
    "project-elemwise": lambda df, S: (df[["b", "c"]] + 1),
    # fewer rows, partitioned like the source
    "filter-float": lambda df, S: df[df.b > 2],
    "filter-int": lambda df, S: df[df.a > 1],
    "filter-and": lambda df, S: df[(df.a > 0) & (df.c > 5)],
    "filter-index": lambda df, S: df[df.index.to_series() > S.at(0.3)],
    "filter-isin": lambda df, S: df[df.a.isin([1, 3])],
    "filter-notnull": lambda df, S: df[df.b.notnull()],
    "filter-none": lambda df, S: df[df.c >= 0],
    "filter-all": lambda df, S: df[df.c < 0],
    "filter-twice": lambda df, S: (lambda f: f[f.b > 3])(df[df.a > 0]),
    "filter-elemwise": lambda df, S: df[df.c > 4] + 1,
    "filter-project": lambda df, S: df[df.c > 4][["a", "b", "c"]],
    "dropna": lambda df, S: df.dropna(),
    "dropna-subset": lambda df, S: df.dropna(subset=["b"]),
    "sample": lambda df, S: df.sample(frac=0.5, random_state=7),
    "map_partitions": lambda df, S: df.map_partitions(_keep_odd),
    "head-all-partitions": lambda df, S: df.head(2, npartitions=-1, compute=False),
    # same rows, other operations that keep the length
    "cumsum": lambda df, S: df[["a", "b", "c"]].cumsum(),
    "shift": lambda df, S: df.shift(1),
    "sort": lambda df, S: df.sort_values("c"),
    "shuffle": lambda df, S: df.shuffle("a"),
    # other partitioning: the combination needs an alignment step
    "loc-slice": lambda df, S: df.loc[S.at(0.2):S.at(0.7)],
    "partitions": lambda df, S: df.partitions[[0]],
    "repartition": lambda df, S: df.repartition(npartitions=2),
    "other-collection": lambda df, S: S.other(1),
    "other-collection-filter": lambda df, S: (lambda o: o[o.b > 2])(S.other(1)),
}
ROW_CHANGING = ("filter-float", "filter-int", "filter-and", "filter-index", "filter-isin", "filter-notnull", "filter-none", "filter-all", "filter-twice",
                "filter-elemwise", "filter-project", "dropna", "dropna-subset", "sample", "map_partitions", "head-all-partitions")
UNORDERED = ("shuffle",)


# ----------------------------------------------------------------------------- ways of combining two operands row-wise

COMBINE = {
    # 2-dimensional results
    "x+y": lambda x, y: x + y,
    "y+x": lambda x, y: y + x,
    "x-y": lambda x, y: x - y,
    "x*y": lambda x, y: x * y,
    "x.add(y,fill_value)": lambda x, y: x.add(y, fill_value=0),
    "x.gt(y)": lambda x, y: x.gt(y),
    "x.eq(y)": lambda x, y: x.eq(y),
    "x[ab]+y[bc]": lambda x, y: x[["a", "b"]] + y[["b", "c"]],
    "x.where(y>3)": lambda x, y: x.where(y > 3),
    "x.where(y.b>3)": lambda x, y: x.where(y.b > 3),
    "x.mask(y.isna())": lambda x, y: x.mask(y.isna()),
    "x.where(x>1,y)": lambda x, y: x.where(x > 1, y),
    "x.mask(y>3,-1)": lambda x, y: x.mask(y > 3, -1),
    "x.assign(z=y.b)": lambda x, y: x.assign(z=y.b),
    "x.assign(b=y.b)": lambda x, y: x.assign(b=y.b),
    "x.assign(z=y.b,w=x.a)": lambda x, y: x.assign(z=y.b, w=x.a),
    "x.assign(z=y.b+y.c)": lambda x, y: x.assign(z=y.b + y.c),
    "x.assign(z=x.b+y.b)": lambda x, y: x.assign(z=x.b + y.b),
    "x.fillna(y)": lambda x, y: x.fillna(y),
    "x.b.to_frame().assign(z=y.a)": lambda x, y: x.b.to_frame().assign(z=y.a),
    "(x+y)+x": lambda x, y: (x + y) + x,
    "(x+y)*(x-y)": lambda x, y: (x + y) * (x - y),
    "x+y.sum()": lambda x, y: x + y.sum(),
    "x+y.b.sum()": lambda x, y: x + y.b.sum(),
    "x.combine_first(y)": lambda x, y: x.combine_first(y),
    # 1-dimensional results
    "x.b+y.b": lambda x, y: x.b + y.b,
    "x.b*y.c": lambda x, y: x.b * y.c,
    "x.b.where(y.a>1)": lambda x, y: x.b.where(y.a > 1),
    "x.b.mask(y.b>2,y.c)": lambda x, y: x.b.mask(y.b > 2, y.c),
    "x.b>y.b": lambda x, y: x.b.gt(y.b),
    "x.b.fillna(y.c)": lambda x, y: x.b.fillna(y.c),
    "x.index+y.index": lambda x, y: x.index.to_series() + y.index.to_series(),
}
TWO_DIM = [k for k in COMBINE if not k.startswith("x.b") or k.startswith("x.b.to_frame")]
TWO_DIM.remove("x.index+y.index")


# ----------------------------------------------------------------------------- operations between the combination and the consumer

def _first(q):
    return q[q.columns[0]] if q.ndim == 2 else q


WRAP = {
    "": lambda q: q,
    "*2": lambda q: q * 2,
    "+1": lambda q: q + 1,
    ".isna()": lambda q: q.isna(),
    ".notnull()": lambda q: q.notnull(),
    ".fillna(0)": lambda q: q.fillna(0),
    ".abs()": lambda q: q.abs(),
    "[first two columns]": lambda q: q[list(q.columns[:2])] if q.ndim == 2 else q,
    "[first column]": _first,
    "[[first column]]": lambda q: q[list(q.columns[:1])] if q.ndim == 2 else q.to_frame(),
    ".to_frame()": lambda q: q.to_frame() if q.ndim == 1 else q,
    ".rename(columns)": lambda q: q.rename(columns={q.columns[0]: "A"}) if q.ndim == 2 else q.rename("A"),
    ".astype(str)": lambda q: q.astype(str),
    ".index": lambda q: q.index,
    ".index.to_series()": lambda q: q.index.to_series(),
    ".reset_index(drop)": lambda q: q.reset_index(drop=True),
    ".dropna()": lambda q: q.dropna(),
    "[q>1]": lambda q: (q[_first(q) > 1]),
    ".assign(n=1)": lambda q: q.assign(n=1) if q.ndim == 2 else q,
    ".repartition(2)": lambda q: q.repartition(npartitions=2),
    ".sort_values()": lambda q: q.sort_values(q.columns[0]) if q.ndim == 2 else q.sort_values(),
    ".shuffle()": lambda q: q.shuffle(q.columns[0]) if q.ndim == 2 else q,
    ".persist-like map_partitions": lambda q: q.map_partitions(_identity),
}


def _identity(p):
    return p


# ----------------------------------------------------------------------------- consumers

def _len(rt, q):
    from dask_expr._collection import new_collection
    from dask_expr._reductions import Len
    return new_collection(Len(q.expr))


CONSUME = {
    # the number of rows
    "len": lambda rt, q, x: _len(rt, q),
    "size": lambda rt, q, x: q.size,
    "shape[0]": lambda rt, q, x: q.shape[0],
    "index.size": lambda rt, q, x: q.index.size,
    "len(index)": lambda rt, q, x: _len(rt, q.index),
    "size+index.size": lambda rt, q, x: q.size + q.index.size,
    "len-len(x)": lambda rt, q, x: _len(rt, q) - _len(rt, x),
    "len(q[first column])": lambda rt, q, x: _len(rt, _first(q)),
    "index.to_series().size": lambda rt, q, x: q.index.to_series().size,
    # other reductions over the rows
    "count": lambda rt, q, x: q.count(),
    "sum": lambda rt, q, x: q.sum(),
    "max": lambda rt, q, x: q.max(),
    "count.sum": lambda rt, q, x: q.count().sum() if q.ndim == 2 else q.count(),
    "notnull.sum": lambda rt, q, x: q.notnull().sum(),
    "index.max": lambda rt, q, x: q.index.max(),
    "index.nunique": lambda rt, q, x: q.index.nunique(),
    "first.nunique": lambda rt, q, x: _first(q).nunique(),
    # the rows themselves
    "frame": lambda rt, q, x: q,
    "index": lambda rt, q, x: q.index,
    "head": lambda rt, q, x: q.head(3, compute=False),
    "tail": lambda rt, q, x: q.tail(3, compute=False),
}
ROW_COUNTERS = ("len", "size", "shape[0]", "index.size", "len(index)", "size+index.size", "len-len(x)", "len(q[first column])", "index.to_series().size")


# ----------------------------------------------------------------------------- one case

def build_query(rt, sources, case):
    spec = case["source"]
    labels = list(sources.frame(spec).index)

    def other(extra):
        return sources.build(dict(spec, kind="pandas"), npartitions=spec["npartitions"] + extra)
    ctx = _Ctx(labels, other)
    df = sources.build(spec)
    x = HISTORIES[case["x"]](df, ctx)
    y = HISTORIES[case["y"]](df, ctx)
    q = COMBINE[case["combine"]](x, y)
    for w in case["wrap"]:
        q = WRAP[w](q)
    return CONSUME[case["consumer"]](rt, q, x)


class _Rounds:
    """Counts the rounds of the real Expr.simplify driver: root calls of simplify_once per call of simplify (calls nest: metadata of
    a plan is sometimes computed by optimizing a sub-plan).  `max` = the most rounds a single simplify call needed."""

    def __init__(self):
        from dask_expr import _core
        self.core, self.stack, self.max, self.size, self.calls = _core, [], 0, 0, 0
        self.orig_once, self.orig = _core.Expr.simplify_once, _core.Expr.simplify

    def __enter__(self):
        orig_once, orig, me = self.orig_once, self.orig, self

        def counting(self, dependents, simplified):
            if not simplified and me.stack:
                top = me.stack[-1]
                top[0] += 1
                if top[0] > me.max:
                    me.max, me.size = top[0], top[1]
                if top[0] > MAX_ROUNDS + ROUNDS_PER_EXPR * top[1]:
                    raise RuntimeError("c19-rowcount: more than %d rounds in one simplify() of a plan of %d expressions" % (top[0] - 1, top[1]))
            return orig_once(self, dependents, simplified)

        def simplify(self):
            me.stack.append([0, sum(1 for _ in self.walk())])
            me.calls += 1
            try:
                return orig(self)
            finally:
                me.stack.pop()
        self.core.Expr.simplify_once, self.core.Expr.simplify = counting, simplify
        return self

    def __exit__(self, *a):
        self.core.Expr.simplify_once, self.core.Expr.simplify = self.orig_once, self.orig


def _describe(case):
    s = case["source"]
    return "%s(%s)  over x=%s, y=%s of one %s source (%d partitions, %d rows, %s index, %s%s)" % (
        case["consumer"], case["combine"] + "".join(case["wrap"]), case["x"], case["y"], s["kind"], s["npartitions"], s["nrows"], s["index"], s["dtypes"],
        ", missing values" if s["nulls"] else "")


NOTES = []


def _note(kind, what, detail):
    if os.environ.get("C19_ROWCOUNT_NOTES"):
        NOTES.append((kind, what, detail))


def _compute(coll, ordered):
    """What the plan of `coll` computes, as it stands (compute() would optimize it once more)."""
    return canon(concat_parts(exec_expr(coll.expr)), ordered)


def rewritable_below_fused(plan):
    """An optimized plan with a fused block over a sub-plan (a dependency of the block) that simplify() still rewrites when it
    is handed that sub-plan: see the pristine finding in the docstring of rowcount_consumers."""
    for e in plan.walk():
        if type(e).__name__ == "Fused":
            for dep in e.dependencies():
                r = try_(lambda: dep.simplify()._name)
                if r[0] == "raise" or r[1] != dep._name:
                    return True
    return False


def _run_stage(expr, st, stats, what):
    """("ok", plan, seconds) | ("loop", message) | ("raise", message)"""
    from dask_expr._expr import optimize_until
    with _Rounds() as rounds:
        t0 = time.time()
        try:
            r = ("ok", optimize_until(expr, st))
        except RecursionError as ex:
            r = ("loop", "RecursionError: %s" % str(ex)[:120])
        except RuntimeError as ex:
            msg = str(ex)
            r = ("loop", "RuntimeError: %s" % msg[:160]) if ("does not converge" in msg or "c19-rowcount: more than" in msg) else ("raise", "RuntimeError: " + msg[:160])
        except Exception as ex:  # noqa
            r = ("raise", "%s: %s" % (type(ex).__name__, str(ex)[:160]))
        dt = time.time() - t0
    if rounds.max > stats["max_rounds"]:
        _note("rounds", what, "%s %d rounds, %d expressions" % (st, rounds.max, rounds.size))
        stats["max_rounds"], stats["max_rounds_plan_size"] = rounds.max, rounds.size
    return r + (dt,)


def check_case(run, rt, sources, case, stats):
    """Returns True when the case was evaluated (the query could be built and has an unoptimized plan)."""
    what = _describe(case)
    b = try_(lambda: build_query(rt, sources, case))
    if b[0] == "raise":
        stats["not_buildable"] += 1
        _note("not_buildable", what, b[1])
        return False
    q = b[1]
    if not hasattr(q, "expr") or not hasattr(q, "optimize"):
        stats["not_buildable"] += 1
        return False
    expr = q.expr
    # witness that the query is well formed: it has a plan without any rewriting
    un = try_(lambda: expr.lower_completely())
    if un[0] == "raise":
        stats["no_unoptimized_plan"] += 1
        _note("no_unoptimized_plan", what, un[1])
        return False
    nodes = sum(1 for _ in expr.walk())
    stats["max_nodes"] = max(stats["max_nodes"], nodes)
    # ---- terminates, at every stage (the stages are cumulative: the last one runs them all; each one separately in the thorough
    # tier and to name the first stage that fails)
    first = _run_stage(expr, STAGES[-1], stats, what)
    stages = STAGES[:-1] if (first[0] != "ok" or run.tier != "quick") else []
    for st, r in [(s_, _run_stage(expr, s_, stats, what)) for s_ in stages] + [(STAGES[-1], first)]:
        if r[0] == "loop":
            run.violation("optimize() does not terminate normally at stage %s (%s) for %s; the unoptimized plan of the query exists (%d expressions)" % (st, r[1], what, nodes),
                          dict(case, kind="rowcount-nonconvergence", stage=st))
            return True
        if r[0] == "raise":
            # an optimizer that fails otherwise is C01's business
            stats["optimizer_raises_otherwise"] += 1
            _note("optimizer_raises", what, st + " " + r[1])
            return True
        if r[2] > MAX_SECONDS:
            run.violation("optimize() up to stage %s needs %.1f s for a query of %d expressions: %s" % (st, r[2], nodes, what),
                          dict(case, kind="rowcount-unbounded", stage=st))
            return True
    # ---- deterministic
    o = try_(lambda: q.optimize())
    if o[0] == "raise":
        stats["optimizer_raises_otherwise"] += 1
        return True
    o1 = o[1]
    if o1.expr._name != first[1]._name:
        run.violation("optimize() of the same collection twice gives two plans (%s / %s): %s" % (first[1]._name, o1.expr._name, what), dict(case, kind="rowcount-nondeterministic"))
        return True
    rb = try_(lambda: build_query(rt, sources, case))
    if rb[0] == "ok" and rb[1].expr._name == expr._name:
        o1c = try_(lambda: rb[1].optimize())
        if o1c[0] == "raise" or o1c[1].expr._name != o1.expr._name:
            run.violation("optimize() of the rebuilt, identical query (%s) gives another plan (%s, first %s): %s" % (
                expr._name, o1c[1] if o1c[0] == "raise" else o1c[1].expr._name, o1.expr._name, what), dict(case, kind="rowcount-nondeterministic-rebuilt"))
            return True
    else:
        stats["rebuilt_name_differs"] += 1
    # ---- idempotent: optimizing the optimized collection leaves its result unchanged
    if rewritable_below_fused(o1.expr):
        # pristine finding (see rowcount_consumers): these inputs are left out of the idempotence part of the family
        stats["left_out_rewritable_below_fused"] += 1
        _note("left_out", what, "")
        return True
    ordered = not (case["x"] in UNORDERED or case["y"] in UNORDERED or ".shuffle()" in case["wrap"])
    r1 = try_(lambda: _compute(o1, ordered))
    if r1[0] == "raise":
        stats["not_computable"] += 1
        _note("not_computable", what, r1[1])
        return True
    o2 = try_(lambda: o1.optimize())
    if o2[0] == "raise":
        run.violation("optimize(optimize(q)) fails (%s) although optimize(q) computes: %s" % (o2[1], what), dict(case, kind="rowcount-idempotence"))
        return True
    r2 = try_(lambda: _compute(o2[1], ordered))
    if r2[0] == "raise" or r2[1] != r1[1]:
        # known finding D208: x = repartition(npartitions=2) combined with y = head(n, npartitions=-1) of one PARQUET source: AssertionError
        fid = "D208" if (r2[0] == "raise" and "AssertionError" in str(r2[1]) and case.get("source", {}).get("kind") == "parquet"
                         and {case.get("x"), case.get("y")} == {"repartition", "head-all-partitions"}) else None
        run.violation("optimize(optimize(q)) computes %s, optimize(q) computes %s: %s" % (_short(r2[1]), _short(r1[1]), what), dict(case, kind="rowcount-idempotence"), finding=fid)
        return True
    if run.tier != "quick":
        o3 = try_(lambda: o2[1].optimize())
        if o3[0] == "raise" or o3[1].expr._name != o2[1].expr._name:
            # a third application may rename the plan only if it keeps computing the same
            r3 = try_(lambda: _compute(o3[1], ordered)) if o3[0] == "ok" else o3
            if r3[0] == "raise" or r3[1] != r1[1]:
                run.violation("optimize() applied three times: %s, optimize(q) computes %s: %s" % (_short(r3[1]), _short(r1[1]), what), dict(case, kind="rowcount-idempotence-3"))
                return True
            stats["third_optimize_renames"] += 1
    stats["complete"] += 1
    return True


# ----------------------------------------------------------------------------- the family

def _core_cases(rng):
    """Deterministic core: every way of combining x every row counter, one filtered and one unfiltered operand; every history
    against the source under len/size; every wrapper under len; sources of every kind."""
    base = {"kind": "pandas", "npartitions": 3, "nrows": 24, "nulls": False, "index": "range", "dtypes": "int-float", "seed": 1}
    nulls = dict(base, nulls=True, npartitions=4, index="gaps", seed=2)
    cases = []
    counters = list(ROW_COUNTERS)
    for i, comb in enumerate(COMBINE):
        for j, cons in enumerate(("len", "size", "index.size")):
            src = base if (i + j) % 2 == 0 else nulls
            x, y = (("filter-float", "same"), ("same", "filter-int"), ("filter-index", "filter-float"))[(i + j) % 3]
            cases.append({"source": src, "x": x, "y": y, "combine": comb, "wrap": [], "consumer": cons})
        cases.append({"source": base, "x": "same", "y": "filter-float", "combine": comb, "wrap": [], "consumer": counters[i % len(counters)]})
    for i, h in enumerate(HISTORIES):
        for comb, cons in (("x+y", "size"), ("x.assign(z=y.b)", "len"), ("x.where(y>3)", "shape[0]")):
            cases.append({"source": nulls if i % 2 else base, "x": "same", "y": h, "combine": comb, "wrap": [], "consumer": cons})
        cases.append({"source": base, "x": h, "y": "same", "combine": "y+x", "wrap": [], "consumer": "len"})
    for i, w in enumerate(WRAP):
        cases.append({"source": base, "x": "filter-float", "y": "same", "combine": TWO_DIM[i % len(TWO_DIM)], "wrap": [w], "consumer": "len"})
        cases.append({"source": nulls, "x": "same", "y": "dropna", "combine": "x+y", "wrap": [w], "consumer": "size"})
    for cons in CONSUME:
        cases.append({"source": base, "x": "filter-int", "y": "same", "combine": "x+y", "wrap": [], "consumer": cons})
        cases.append({"source": nulls, "x": "same", "y": "filter-float", "combine": "x.assign(z=y.b)", "wrap": ["*2"], "consumer": cons})
    for kind in ("pandas", "unknown", "cuts", "parquet"):
        for k in (1, 2, 5):
            for dt in DTYPES[:2] if k != 2 else DTYPES:
                src = dict(base, kind=kind, npartitions=k, dtypes=dt, nulls=(k == 2), index=INDEXES[(k + len(dt)) % len(INDEXES)])
                cases.append({"source": src, "x": "filter-float", "y": "same", "combine": "x+y", "wrap": [], "consumer": "size"})
                cases.append({"source": src, "x": "same", "y": "filter-int", "combine": "x.where(y>3)", "wrap": [], "consumer": "len"})
    return cases


def _random_case(rng, sources_pool):
    hs = list(HISTORIES)
    x = rng.choice(hs if rng.random() < 0.5 else list(ROW_CHANGING) + ["same", "same"])
    y = rng.choice(hs if rng.random() < 0.5 else list(ROW_CHANGING) + ["same", "same"])
    comb = rng.choice(list(COMBINE) if rng.random() < 0.4 else TWO_DIM)
    nwrap = rng.choice([0, 0, 1, 1, 2])
    wrap = [rng.choice(list(WRAP)) for _ in range(nwrap)]
    cons = rng.choice(list(CONSUME) if rng.random() < 0.4 else list(ROW_COUNTERS))
    return {"source": rng.choice(sources_pool), "x": x, "y": y, "combine": comb, "wrap": wrap, "consumer": cons}


def rowcount_consumers(run):
    """The family (see the module docstring).

    Pristine finding, left out of the idempotence part (termination and determinism are still checked on these inputs): when the
    once-optimized plan has a fused block over a sub-plan that simplify() still rewrites -- typically Projection(source) that
    was not pushed into the source because the source has a second consumer, which now sits INSIDE the fused block where
    collect_dependents does not see it -- the second optimize() renames that sub-plan, the members of the fused block keep
    reading the old name, and the twice-optimized plan fails or computes on the wrong operands:
        df = from_pandas(pd.DataFrame({"a": range(24), "b": range(24)}), npartitions=3)
        (df.a + df.b.shift(1)).optimize().compute()     # IndexError: list index out of range; without .optimize(): fine
    `rewritable_below_fused(optimize(q))` recognises these inputs before the second optimize() is applied."""
    import rt
    rng = run.rng
    quick = run.tier == "quick"
    tmp = tempfile.mkdtemp(prefix="c19_rowcount_", dir=common.BUILD)
    stats = dict.fromkeys(("not_buildable", "no_unoptimized_plan", "optimizer_raises_otherwise", "not_computable", "rebuilt_name_differs", "third_optimize_renames", "left_out_rewritable_below_fused",
                           "complete", "max_rounds", "max_rounds_plan_size", "max_nodes"), 0)
    t0 = time.time()
    evaluated = 0
    try:
        sources = Sources(rt, tmp)
        cases = _core_cases(rng)
        if quick:
            # the core is larger than the quick budget: a third of it per seed (rotating), the rest sampled
            off = run.seed % 3
            must = [c for c in cases if c["consumer"] in ROW_COUNTERS and c["combine"] in TWO_DIM and not c["wrap"]
                    and {c["x"], c["y"]} & set(ROW_CHANGING) and c["source"]["kind"] == "pandas" and c["source"]["npartitions"] == 3][:12]
            cases = must + [c for i, c in enumerate(cases) if i % 3 == off and c not in must]
        pool = [make_source_spec(rng) for _ in range(6 if quick else 40)] + [make_source_spec(rng, "pandas") for _ in range(4 if quick else 20)]
        cases += [_random_case(rng, pool) for _ in range(90 if quick else 6000)]
        budget = 22.0 if quick else 3600.0
        for case in cases:
            if time.time() - t0 > budget:
                break
            done = check_case(run, rt, sources, case, stats)
            key = ("rowcount", repr(sorted(case["source"].items())), case["x"], case["y"], case["combine"], tuple(case["wrap"]), case["consumer"])
            run.count(key, nontrivial=bool(done))
            evaluated += int(bool(done))
            if len(run.violations) >= 40:
                break
    finally:
        shutil.rmtree(tmp, ignore_errors=True)
    run.section("rowcount_consumers", cases=len(cases), evaluated=evaluated, histories=len(HISTORIES), combinations=len(COMBINE), wrappers=len(WRAP),
                consumers=len(CONSUME), seconds=round(time.time() - t0, 1), **stats)


def replay_case(case):
    """Rebuilds the query of a replay's case dict: `import c19_rowcount, rt; q = c19_rowcount.replay_case(case); q.optimize()`."""
    import rt
    tmp = tempfile.mkdtemp(prefix="c19_rowcount_replay_", dir=common.BUILD)
    return build_query(rt, Sources(rt, tmp), {k: v for k, v in case.items() if k not in ("kind", "stage")})
