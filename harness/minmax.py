"""T-LAYER for MinMax.v: divisions derived from per-file / per-partition (min, max) statistics.
   stats_layer     : the real io/parquet.py _divisions_from_statistics (a pure function of the statistics) vs stats_divisions
   presorted_layer : the real _shuffle.py _calculate_divisions (presorted flag, mins, maxes) and the divisions that
                     set_index reports on presorted input vs presorted_divisions"""
import itertools

import common
from e2e import try_


def _pairs(vals):
    return [(a, b) for a in vals for b in vals if a <= b]


def stats_layer(run, quick):
    from dask_expr.io.parquet import _divisions_from_statistics
    sx, m = common.sx, common.Model()
    pairs = _pairs(range(4 if quick else 5))
    cases = []
    for n in (1, 2, 3) if quick else (1, 2, 3, 4):
        if n == 4:
            rng = run.rng
            lists = [tuple(rng.choice(pairs) for _ in range(4)) for _ in range(4000)]
        else:
            lists = itertools.product(pairs, repeat=n)
        for l in lists:
            cases.append(list(l))
    ans = m.batch(["(stats_divisions %s)" % sx([[a, b] for a, b in l]) for l in cases])
    bad = 0
    for l, a in zip(cases, ans):
        run.count(("stats", tuple(l)), nontrivial=(a != "none"))
        stats = [{"columns": [{"path_in_schema": "other", "statistics": {"min": -1, "max": 99}}, {"path_in_schema": "i", "statistics": {"min": lo, "max": hi}}]} for lo, hi in l]
        r = try_(lambda: _divisions_from_statistics(stats, "i"))
        if r[0] == "raise":
            bad += 1
            run.broken_tie("T-LAYER _divisions_from_statistics", {"stats": l, "real": "raises " + str(r[1])[:200], "model": a})
            continue
        divs, order = r[1]
        model = common.parse_sx(a)
        if model == "none":
            ok = all(d is None for d in divs) and len(divs) == len(l) + 1
        else:
            md, mp = [int(v) for v in model[1][0]], [int(v) for v in model[1][1]]
            ok = [None if d is None else int(d) for d in divs] == md and order is not None and [int(v) for v in order] == mp
        if not ok:
            bad += 1
            # search for a failing input: files holding exactly their min and max, in the order the real code reports
            witness = None
            if divs[0] is not None and order is not None:
                parts = [[l[int(j)][0], l[int(j)][1]] for j in order]
                tb = m.batch(["(truthfulb %s %s)" % (sx([int(d) for d in divs]), sx(parts))])[0]
                if tb != "true":
                    witness = "files with index ranges %s get divisions %s (file order %s): not truthful" % (l, tuple(int(d) for d in divs), [int(j) for j in order])
            if witness:
                run.violation("read_parquet(calculate_divisions=True) statistics: " + witness, {"kind": "stats-layer", "stats": l})
            else:
                run.broken_tie("T-LAYER _divisions_from_statistics", {"stats": l, "real": repr((divs, None if order is None else list(order)))[:200], "model": a})
    run.section("stats_layer", cases=len(cases), differing=bad)


class _MMPiece:
    def __init__(self, l):
        self.l = tuple(l)

    def __call__(self, i):
        import pandas as pd
        lo, hi = self.l[i]
        ys = sorted({lo, hi}) if lo != hi else [lo, lo]
        return pd.DataFrame({"y": ys, "x": [float(i)] * len(ys)})

    def __dask_tokenize__(self):
        return ("mm-piece", self.l)


def presorted_layer(run, rt, quick):
    import pandas as pd
    from dask_expr._shuffle import _calculate_divisions
    sx, m = common.sx, common.Model()
    pairs = _pairs(range(4))
    rng = run.rng
    cases = [list(l) for l in itertools.product(pairs, repeat=2)]
    cases += [[rng.choice(pairs) for _ in range(rng.choice([3, 4]))] for _ in range(60 if quick else 1500)]
    # ordered inputs with touching / separated neighbours are the interesting region: generate them on purpose
    for _ in range(60 if quick else 1500):
        v, l = rng.randint(0, 2), []
        for _ in range(rng.choice([2, 3, 4])):
            hi = v + rng.randint(0, 2)
            l.append((v, hi))
            v = hi + rng.choice([0, 1, 1, 2])
        cases.append(l)
    ans = m.batch(["(presorted_divisions %s)" % sx([[a, b] for a, b in l]) for l in cases])
    bad = 0
    meta = _MMPiece([(0, 0)])(0).iloc[:0]
    for l, a in zip(cases, ans):
        run.count(("presorted", tuple(l)), nontrivial=(a != "none"))
        df = rt.dx.from_map(_MMPiece(l), list(range(len(l))), meta=meta)
        r = try_(lambda: _calculate_divisions(df.expr, df.y.expr, len(l)))
        model = common.parse_sx(a)
        if r[0] == "raise":
            bad += 1
            run.broken_tie("T-LAYER _calculate_divisions", {"minmax": l, "real": "raises " + str(r[1])[:200]})
            continue
        # (since fix D165 a fifth element says which partitions hold missing keys: none of the generated pieces does)
        divisions, mins, maxes, presorted = r[1][:4]
        if len(r[1]) > 4 and any(r[1][4]):
            bad += 1
            run.broken_tie("T-LAYER _calculate_divisions reports missing keys for pieces without any", {"minmax": l, "real": repr(r[1][4])[:200]})
            continue
        ok = [int(v) for v in mins] == [p[0] for p in l] and [int(v) for v in maxes] == [p[1] for p in l] and bool(presorted) == (model != "none")
        reported = None
        if ok and model != "none" and len(l) >= 2:      # a single input partition: set_index skips the statistics and reports unknown divisions
            reported = try_(lambda: [int(v) for v in df.set_index("y").divisions])
            ok = reported[0] == "ok" and reported[1] == [int(v) for v in model[1]]
        if not ok:
            bad += 1
            witness = None
            si = df.set_index("y")
            claim = try_(lambda: [int(v) for v in si.divisions])
            parts = try_(lambda: [[int(v) for v in p.compute().index] for p in si.to_delayed()])
            if claim[0] == "ok" and parts[0] == "ok":
                tb = m.batch(["(truthfulb %s %s)" % (sx(claim[1]), sx(parts[1]))])[0]
                if tb != "true":
                    witness = "pieces with key ranges %s: set_index reports divisions %s, computed partitions hold %s" % (l, claim[1], parts[1])
            if witness:
                run.violation("presorted set_index: " + witness, {"kind": "presorted-layer", "minmax": l})
            else:
                run.broken_tie("T-LAYER _calculate_divisions / presorted divisions", {"minmax": l, "real": repr((mins, maxes, presorted, reported))[:300], "model": a})
    run.section("presorted_layer", cases=len(cases), differing=bad)
