"""C12, consumers of co-location: partitionwise joins (Merge._lower -> BlockwiseMerge / BroadcastJoin).

The property makes "a key gets the same partition number in every frame shuffled to the same partition count" the
precondition of partitionwise joins.  Here that precondition is checked where it is consumed: for a family of joins
(how x join strategy x key naming x key dtype x partition counts x orientation of the small frame) the lowered plan is
taken apart and

  * every input of the partitionwise join node still holds every row of its frame exactly once,
  * a key value lives in ONE partition of a shuffled input, and in the SAME partition number on the other side
    (hash join: the other shuffled input; broadcast join: the piece number into which BroadcastJoin splits the
    partitions of the big frame, and the partition number a public `shuffle` of the big frame on its key gives),
  * and, as the consequence that matters, the set of (left row, right row) pairs that met equals the pairs pandas
    finds on the same data (rows identified by a unique id column on each side; nothing else of the result is compared).
"""
import numpy as np
import pandas as pd

from e2e import try_, exec_expr, concat_parts

HOWS = ("inner", "left", "right", "outer", "leftsemi")

# (name, keyword arguments of merge)
STRATEGIES = (
    ("bcast", dict(broadcast=True, shuffle_method="tasks")),
    ("heur", dict(shuffle_method="tasks")),                      # broadcast chosen by the size heuristic (or not)
    ("bias", dict(broadcast=1.0, shuffle_method="tasks")),       # float bias of the heuristic
    ("hash", dict(broadcast=False, shuffle_method="tasks")),
    ("hash-disk", dict(broadcast=False, shuffle_method="disk")),
    ("default", dict()),                                         # everything left to the defaults
)

# (partitions of the small frame, partitions of the big frame)
PAIRS = ((3, 8), (2, 8), (2, 32), (5, 7), (4, 4), (1, 6), (7, 9))

# key dtypes (small frame, big frame)
DTYPES = (("int", "int"), ("float", "int"), ("int", "float"), ("int32", "int"), ("str", "str"),
          ("floatnan", "floatnan"), ("floatnan", "int"), ("strnull", "strnull"), ("cat", "cat"), ("catstr", "catstr"))
NULLS = ("floatnan", "strnull")

# key naming layouts; *idx* layouts join on the index of one or both frames
NAMINGS = ("same", "diff", "decoy", "lidx", "ridx", "bothidx", "idxname", "two", "two-same")
COLUMN_NAMINGS = ("same", "diff", "decoy", "two", "two-same")

N_SMALL, N_BIG = 30, 96

# (how, which frame is the small one): the combinations a broadcast join is defined for
BROADCASTING = (("right", "left"), ("left", "right"), ("inner", "left"), ("inner", "right"), ("leftsemi", "right"))


def _keys(kind, base):
    if kind == "int":
        return base.astype("int64")
    if kind == "int32":
        return base.astype("int32")
    if kind == "float":
        return base.astype("float64")
    if kind == "floatnan":
        v = base.astype("float64")
        v[base % 7 == 3] = np.nan
        return v
    if kind == "str":
        return np.array(["w%d" % b for b in base], dtype=object)
    if kind == "strnull":
        return np.array([None if b % 7 == 3 else "w%d" % b for b in base], dtype=object)
    if kind == "cat":
        return pd.Categorical(base, categories=list(range(40)))
    if kind == "catstr":
        return pd.Categorical(["w%d" % b for b in base], categories=["w%d" % i for i in range(40)])
    raise KeyError(kind)


def build_frames(case):
    """The two pandas frames of a case (left, right), the merge keywords for pandas, the id column of each side."""
    rs = np.random.RandomState(case["data_seed"])
    ks = rs.randint(0, 14, size=N_SMALL)        # small frame: keys 0..13, duplicates
    kb = rs.randint(5, 22, size=N_BIG)          # big frame: keys 5..21 -> unmatched keys on both sides
    ks2, kb2 = rs.randint(0, 3, size=N_SMALL), rs.randint(0, 3, size=N_BIG)
    ds, db = case["dtypes"]
    naming = case["naming"]
    small_left = case["small"] == "left"
    (kl, kr), (kl2, kr2) = ((ks, kb), (ks2, kb2)) if small_left else ((kb, ks), (kb2, ks2))
    dl, dr = (ds, db) if small_left else (db, ds)
    nl, nr = len(kl), len(kr)
    # index labels that say nothing about the key
    il = pd.Index(rs.permutation(nl) + 100)
    ir = pd.Index(rs.permutation(nr) + 1000)
    idl, idr = ("x", "y")
    L = {idl: np.arange(nl)}
    R = {idr: np.arange(nr)}
    if naming == "same":
        L["k"], R["k"] = _keys(dl, kl), _keys(dr, kr)
        kw = dict(on="k")
    elif naming in ("diff", "decoy"):
        L["a"], R["b"] = _keys(dl, kl), _keys(dr, kr)
        if naming == "decoy":  # an unrelated column that carries the name of the other side's key
            L["b"] = _keys(dl, (kl * 7 + 3) % 11)
            R["a"] = _keys(dr, (kr * 5 + 1) % 13)
        kw = dict(left_on="a", right_on="b")
    elif naming == "lidx":
        il = pd.Index(_keys(dl, kl), name=case.get("index_name"))
        R["b"] = _keys(dr, kr)
        kw = dict(left_index=True, right_on="b")
    elif naming == "ridx":
        L["a"] = _keys(dl, kl)
        ir = pd.Index(_keys(dr, kr), name=case.get("index_name"))
        kw = dict(left_on="a", right_index=True)
    elif naming == "bothidx":
        il = pd.Index(_keys(dl, kl), name=case.get("index_name"))
        ir = pd.Index(_keys(dr, kr), name=case.get("index_name"))
        kw = dict(left_index=True, right_index=True)
    elif naming == "idxname":  # `on` names an index level on the left and a column on the right
        il = pd.Index(_keys(dl, kl), name="k")
        R["k"] = _keys(dr, kr)
        kw = dict(on="k")
    elif naming == "two":      # two keys, differently named and stored in a different relative order
        L["a1"], L["a2"] = _keys(dl, kl), kl2
        R["b2"], R["b1"] = kr2, _keys(dr, kr)
        kw = dict(left_on=["a1", "a2"], right_on=["b1", "b2"])
    elif naming == "two-same":
        L["k1"], L["k2"] = _keys(dl, kl), kl2
        R["k2"], R["k1"] = kr2, _keys(dr, kr)
        kw = dict(on=["k1", "k2"])
    else:
        raise KeyError(naming)
    return pd.DataFrame(L, index=il), pd.DataFrame(R, index=ir), kw, idl, idr


def _nv(v):
    if v is None or v is pd.NA or (isinstance(v, (float, np.floating)) and np.isnan(v)):
        return None
    if isinstance(v, (int, float, np.integer, np.floating)):
        return float(v)
    return v


def _side_keys(p, labels, use_index):
    """Normalised key tuples of the rows of one partition."""
    cols = []
    if use_index:
        cols.append(list(p.index))
    else:
        for lb in labels:
            if lb in p.columns:
                cols.append(list(p[lb]))
            else:                      # a label that names the index
                cols.append(list(p.index))
    return [tuple(_nv(v) for v in t) for t in zip(*cols)]


def _aslist(o):
    if o is None:
        return []
    return list(o) if isinstance(o, (list, tuple)) else [o]


def pandas_pairs(L, R, how, kw, idl, idr):
    if how == "leftsemi":
        m = L.merge(R, how="inner", **kw)
        return sorted(((int(v), None) for v in sorted(set(m[idl]))), key=repr)
    m = L.merge(R, how=how, **kw)
    return sorted(((_nv(a), _nv(b)) for a, b in zip(m[idl], m[idr])), key=repr)


def result_pairs(got, how, idl, idr):
    if how == "leftsemi":
        return sorted(((_nv(a), None) for a in got[idl]), key=repr)
    return sorted(((_nv(a), _nv(b)) for a, b in zip(got[idl], got[idr])), key=repr)


def _assign(parts, labels, use_index):
    """key -> set of partition numbers holding it."""
    where = {}
    for i, p in enumerate(parts):
        for k in set(_side_keys(p, labels, use_index)):
            where.setdefault(k, set()).add(i)
    return where


def lower_and_run(q):
    """Lowered plan, its partitionwise join node (if any) and, from ONE execution of the graph, the result and the
    partitions of the two inputs of that node."""
    import dask
    e = q.optimize(fuse=False).expr
    nodes = [n for n in e.walk() if type(n).__name__ in ("BlockwiseMerge", "BroadcastJoin")]
    node = nodes[0] if nodes else None
    g = e.__dask_graph__()
    keys = [e.__dask_keys__()]
    if node is not None:
        keys += [node.left.__dask_keys__(), node.right.__dask_keys__()]
    out = dask.get(g, keys)
    res = concat_parts(list(out[0]))
    return e, node, res, (list(out[1]) if node is not None else None), (list(out[2]) if node is not None else None)


def check_plan(node, lparts, rparts, dl, dr, L, R, idl, idr, report):
    """Co-location at the inputs of the partitionwise join node of the lowered plan."""
    import dask
    if node is None:
        return "other"
    # every input row exactly once
    for side, parts, pdf, idc in (("left", lparts, L, idl), ("right", rparts, R, idr)):
        if parts and all(idc in p.columns for p in parts):
            ids = sorted(int(v) for p in parts for v in p[idc])
            if ids != list(range(len(pdf))):
                report("the %s input of %s holds %d rows of a frame of %d rows (every row must arrive exactly once)" % (
                    side, type(node).__name__, len(ids), len(pdf)))
    lon, ron = _aslist(node.left_on), _aslist(node.right_on)
    lidx, ridx = bool(node.left_index), bool(node.right_index)
    kind = type(node).__name__
    if kind == "BlockwiseMerge":
        if len(lparts) == 1 or len(rparts) == 1:
            return "single"
        if len(lparts) != len(rparts):
            report("partitionwise merge of %d against %d partitions" % (len(lparts), len(rparts)))
            return "hash"
        wl, wr = _assign(lparts, lon, lidx), _assign(rparts, ron, ridx)
        for nm, w in (("left", wl), ("right", wr)):
            for k, s in w.items():
                if len(s) > 1:
                    report("equal keys %r of the %s input of the hash join in partitions %s" % (k, nm, sorted(s)))
                    return "hash"
        for k, s in wl.items():
            if k in wr and wr[k] != s:
                report("hash join: key %r is in partition %d of the left input but in partition %d of the right input" % (
                    k, min(s), min(wr[k])))
                return "hash"
        return "hash"
    # BroadcastJoin
    bside = node.broadcast_side
    if bside == "left":
        bparts, oparts, bon, bidx, oon, oidx, other, odf = lparts, rparts, lon, lidx, ron, ridx, node.right, dr
    else:
        bparts, oparts, bon, bidx, oon, oidx, other, odf = rparts, lparts, ron, ridx, lon, lidx, node.left, dl
    if node.how == "inner" or len(bparts) == 1:
        return "bcast-inner"
    wb = _assign(bparts, bon, bidx)
    for k, s in wb.items():
        if len(s) > 1:
            report("equal keys %r of the shuffled broadcast side (%s) in partitions %s" % (k, bside, sorted(s)))
            return "bcast"
    # (a) the pieces into which the join splits the partitions of the other frame
    layer = node._layer()
    split = [k for k in layer if isinstance(k, tuple) and isinstance(k[0], str) and k[0] == "split-" + node._name]
    if split:
        g = {k: layer[k] for k in split}      # (dask.get does not cull)
        g.update({(other._name, i): p for i, p in enumerate(oparts)})
        for pieces in dask.get(g, split):
            for j, piece in pieces.items():
                for k in set(_side_keys(piece, oon, oidx)):
                    if k in wb and wb[k] != {j}:
                        report("broadcast join (%s side broadcast): rows of the other frame with key %r are sent to piece %d, "
                               "the equal key of the shuffled %s frame is in partition %d" % (bside, k, j, bside, min(wb[k])))
                        return "bcast"
    # (b) a plain shuffle of the other frame on its key to the same partition count
    if oidx or any(lb not in odf.columns for lb in oon):
        ref = odf.shuffle(on_index=True, npartitions=len(bparts), shuffle_method="tasks")
        rparts_ = exec_expr(ref.optimize(fuse=False).expr)
        wo = _assign(rparts_, oon, True)
    else:
        ref = odf.shuffle(on=oon, npartitions=len(bparts), shuffle_method="tasks")
        rparts_ = exec_expr(ref.optimize(fuse=False).expr)
        wo = _assign(rparts_, oon, False)
    for k, s in wb.items():
        if k in wo and wo[k] != s:
            report("key %r -> partition %d in the broadcast (%s) frame shuffled inside the join but partition %d when the other "
                   "frame is shuffled on its key to the same partition count (%d)" % (k, min(s), bside, min(wo[k]), len(bparts)))
            return "bcast"
    return "bcast"


def admissible(case):
    how, naming, (ds, db) = case["how"], case["naming"], case["dtypes"]
    if how == "leftsemi" and naming not in COLUMN_NAMINGS:
        return False    # documented: no index keys on the right of a semi join
    if (ds in NULLS or db in NULLS) and (naming not in COLUMN_NAMINGS or how == "leftsemi"):
        return False    # no missing values in an index; semi-join oracle is stated for non-missing keys
    if ds in ("cat", "catstr") and naming not in ("same", "diff", "decoy"):
        return False
    may_broadcast = case["strategy"] in ("bcast", "heur", "bias")
    if ds == "cat" and may_broadcast:
        return False    # pristine finding P1 (numeric categorical keys under a non-inner broadcast join), left out
    if may_broadcast and how in ("left", "right"):
        # pristine finding P2: the frame that is NOT broadcast is joined on its index -> ValueError, left out
        big_is_left = case["small"] == "right"
        if (naming in ("lidx", "bothidx") and big_is_left) or (naming in ("ridx", "bothidx") and not big_is_left):
            return False
    return True


def make_cases(run):
    """Deterministic strata (every how x orientation x naming under an explicit broadcast, every strategy x how for the
    differently named keys, every dtype pair) + a seeded random sample of the full product."""
    rng = run.rng
    quick = run.tier == "quick"
    cases = []
    seen = set()

    def add(how, small, naming, strategy, pair, dtypes, npartitions=None, sort=False, index_name=None):
        c = {"kind": "join", "how": how, "small": small, "naming": naming, "strategy": strategy, "pair": list(pair),
             "dtypes": list(dtypes), "npartitions": npartitions, "sort": sort, "index_name": index_name,
             "data_seed": run.seed * 1000 + len(cases) % 5}
        key = repr(sorted((k, v) for k, v in c.items() if k != "data_seed"))
        if key in seen or not admissible(c):
            return
        seen.add(key)
        cases.append(c)

    rot = run.seed
    combos = [(h, sm) for h in HOWS for sm in ("left", "right")]
    # 1. explicit broadcast: (how, orientation) x naming (dtype and partition pair rotate); the quick tier keeps the
    #    combinations that Merge.is_broadcast_join really broadcasts, the others are hash joins (stratum 2)
    for how, small in (BROADCASTING if quick else combos):
        for naming in NAMINGS:
            rot += 1
            dt = DTYPES[rot % 5]               # the null-free dtype pairs
            pair = ((3, 8), (2, 8), (5, 7))[rot % 3]
            add(how, small, naming, "bcast", pair, dt, index_name=(None, "a")[rot % 2])
    # 2. strategy x how x orientation on differently named keys; 2 vs 32 so that the heuristic broadcasts
    for strategy, _ in STRATEGIES:
        if quick and strategy == "bcast":
            continue
        for how, small in (BROADCASTING if quick and strategy in ("heur", "bias") else combos):
            rot += 1
            if quick and strategy in ("hash-disk", "default") and (rot + run.seed) % 2:
                continue
            add(how, small, ("diff", "decoy", "two")[rot % 3], strategy, (2, 32) if strategy in ("heur", "bias") else (3, 8),
                DTYPES[rot % 5])
    # 3. every dtype pair (incl. missing values) under a broadcast and under a hash join
    for dt in DTYPES:
        for how, small in ((("right", "left"), ("left", "right")) if not quick else (BROADCASTING[rot % 2],)):
            for strategy in ("bcast", "hash"):
                rot += 1
                if quick and strategy == "hash" and rot % 2 and dt[0] != "cat":
                    continue
                add(how, small, ("diff", "same", "decoy")[rot % 3], strategy, (3, 8), dt)
    # 4. requested npartitions and sorted (known divisions) index keys
    for how, small in (("right", "left"), ("left", "right"), ("inner", "left"), ("outer", "right")):
        for strategy in ("bcast", "hash"):
            rot += 1
            if quick and rot % 2:
                continue
            add(how, small, ("diff", "same")[rot % 2], strategy, (3, 8), DTYPES[rot % 5], npartitions=(5, 11)[rot % 3 % 2])
            add(how, small, ("lidx", "ridx", "bothidx")[rot % 3], strategy, (3, 8), ("int", "int"), sort=True)
    # 5. seeded sample of the full product
    extra = 12 if quick else 600
    tries = 0
    while extra > 0 and tries < 20000:
        tries += 1
        n0 = len(cases)
        add(rng.choice(HOWS), rng.choice(("left", "right")), rng.choice(NAMINGS), rng.choice(STRATEGIES)[0],
            rng.choice(PAIRS[:2] + PAIRS[3:] if quick else PAIRS),
            rng.choice(DTYPES), npartitions=rng.choice((None, None, None, 5, 11)), sort=rng.random() < 0.15,
            index_name=rng.choice((None, "a", "k")))
        extra -= len(cases) - n0
    return cases


def run_case(rt, run, case, stats):
    L, R, kw, idl, idr = build_frames(case)
    how = case["how"]
    exp = try_(lambda: pandas_pairs(L, R, how, kw, idl, idr))
    if exp[0] == "raise":
        stats["pandas_raises"] += 1
        return
    ns, nb = case["pair"]
    nl, nr = (ns, nb) if case["small"] == "left" else (nb, ns)
    opts = dict(dict(STRATEGIES)[case["strategy"]])
    if case["npartitions"] is not None:
        opts["npartitions"] = case["npartitions"]
    said = []
    _case_body(rt, case, stats, L, R, kw, idl, idr, how, exp[1], nl, nr, opts, said.append)
    if said:    # one violation per case: the co-location diagnosis (if any) and the pairs that did not meet
        run.violation("; ".join(said[:2]) + "  [%s join, %s, keys %s, %s frame small, %dx%d partitions]" % (
            how, case["strategy"], case["naming"], case["small"], nl, nr), case)


def _case_body(rt, case, stats, L, R, kw, idl, idr, how, exp, nl, nr, opts, report):
    def real():
        dl = rt.dx.from_pandas(L, npartitions=nl, sort=case["sort"])
        dr = rt.dx.from_pandas(R, npartitions=nr, sort=case["sort"])
        q = dl.merge(dr, how=how, **kw, **opts)
        return (dl, dr) + tuple(lower_and_run(q))

    got = try_(real)
    if got[0] == "raise":
        report("join raised %s where pandas joins the same frames" % got[1])
        return
    dl, dr, e, node, res, lparts, rparts = got[1]
    plan = try_(lambda: check_plan(node, lparts, rparts, dl, dr, L, R, idl, idr, report))
    stats["plan:" + (plan[1] if plan[0] == "ok" else "not-inspectable")] += 1
    pairs = try_(lambda: result_pairs(res, how, idl, idr))
    if pairs[0] == "raise":
        report("join result lacks the id columns: %s" % pairs[1])
        return
    if pairs[1] != exp:
        pe, pg = exp, pairs[1]
        lost = [p for p in pe if p not in set(pg)]
        new = [p for p in pg if p not in set(pe)]
        report("the join pairs %d (left row, right row) combinations, pandas %d on the same data; e.g. missing %s, unexpected %s: "
               "rows with equal keys did not meet in the same partition" % (len(pg), len(pe), lost[:2], new[:2]))


def joins(run):
    import collections
    import time
    import rt
    t0 = time.time()
    stats = collections.Counter()
    cases = make_cases(run)
    for case in cases:
        run.count(("join", tuple(sorted((k, str(v)) for k, v in case.items()))))
        run_case(rt, run, case, stats)
    run.section("e2e_joins", cases=len(cases), hows=list(HOWS), strategies=[s for s, _ in STRATEGIES], namings=list(NAMINGS),
                dtypes=["/".join(d) for d in DTYPES], wall_s=round(time.time() - t0, 1), **{k: v for k, v in sorted(stats.items())})
