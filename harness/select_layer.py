"""T-LAYER for Select.v: positional selection.
   * Head._lower / Tail._lower: the shape of the real lowered expression (per-partition head of the first k partitions, concatenate,
     head again / tail of the last partition) vs the shape the model assumes, and the computed rows vs the extracted
     head_lowered / tail_lowered on generated partitions (short, empty and long partitions, n below / at / above the sizes);
   * nsmallest (chunk = aggregate = "sort, keep the first n", ties in row order) vs the extracted nfirst_tree, exactly;
     sort_values(...).head(n) (Head -> NFirst rewrite) vs nfirst_spec on the keys."""
import common
from e2e import try_


class _Pieces:
    def __init__(self, parts, cols):
        self.parts, self.cols = parts, cols

    def __call__(self, i):
        import pandas as pd
        rows = self.parts[i]
        if self.cols == 1:
            return pd.DataFrame({"id": [int(r) for r in rows]}, index=pd.RangeIndex(len(rows)))
        return pd.DataFrame({"a": [int(k) for k, _ in rows], "id": [int(r) for _, r in rows]}, index=pd.RangeIndex(len(rows)))

    def __dask_tokenize__(self):
        return ("select-pieces", repr(self.parts), self.cols)


def _shape(e):
    """Nested (class, parameters..., inputs) description of a lowered selection down to the source."""
    from dask_expr._expr import BlockwiseHead, BlockwiseTail, Partitions
    from dask_expr._repartition import Repartition
    if isinstance(e, BlockwiseHead):
        return ["bhead", int(e.n), _shape(e.frame)]
    if isinstance(e, BlockwiseTail):
        return ["btail", int(e.n), _shape(e.frame)]
    if isinstance(e, Partitions):
        return ["partitions", [int(i) for i in e.partitions], _shape(e.frame)]
    if isinstance(e, Repartition):
        return ["repartition", e.operand("new_partitions"), _shape(e.frame)]
    return "source"


def select_layer(run, rt, quick):
    import pandas as pd
    sx, m = common.sx, common.Model()
    rng = run.rng
    layouts = []
    nid = 0
    for _ in range(14 if quick else 80):
        k = rng.choice((1, 2, 3, 4, 5))
        parts = []
        for _ in range(k):
            ln = rng.choice((0, 1, 2, 3, 5, 8))
            parts.append(list(range(nid, nid + ln)))
            nid += ln
        if not any(parts):
            parts[0] = [nid]
            nid += 1
        layouts.append(parts)
    cases = []
    for parts in layouts:
        for n in (0, 1, 2, 3, 6, 30):
            for k in sorted({1, 2, len(parts)}):
                if k <= len(parts):
                    cases.append((parts, n, k))
    heads = m.batch(["(head_lowered %d %d %s)" % (n, k, sx(parts)) for parts, n, k in cases])
    tails = m.batch(["(tail_lowered %d %s)" % (n, sx(parts)) for parts, n, k in cases if k == 1])
    bad = 0
    ti = 0
    meta = pd.DataFrame({"id": pd.Series([], dtype="int64")})
    for (parts, n, k), h in zip(cases, heads):
        d = rt.dx.from_map(_Pieces(parts, 1), list(range(len(parts))), meta=meta)
        run.count(("select-head", repr(parts), n, k), nontrivial=k > 1)
        q = d.head(n, npartitions=k, compute=False)
        model = [int(v) for v in common.parse_sx(h)]
        low = try_(lambda: _shape(q.expr._lower()))
        inner = ["bhead", n, ["partitions", list(range(k)), "source"]]
        exp_shape = inner if k == 1 else ["bhead", n, ["repartition", 1, inner]]
        got = try_(lambda: [int(v) for v in q.compute()["id"]])
        case = {"kind": "select-head", "partitions": parts, "n": n, "npartitions": k}
        if got[0] == "raise" or got[1] != model:
            spec = [r for p in parts[:k] for r in p][:n]
            if got[0] == "raise" or got[1] != spec:
                run.violation("head(%d, npartitions=%d) over partitions %s %s, the first rows of the first %d partitions are %s" % (
                    n, k, parts, ("raises " + got[1]) if got[0] == "raise" else "returns rows %s" % got[1], k, spec), case)
            else:
                bad += 1
                run.broken_tie("T-LAYER Head lowering vs Select.head_lowered (values)", dict(case, real=got[1], model=model))
        elif low[0] == "raise" or low[1] != exp_shape:
            bad += 1
            run.broken_tie("T-LAYER Head._lower: shape of the lowered expression vs the shape modelled in Select.v", dict(case, real=low[1], modelled=exp_shape))
        if k == 1:
            tmodel = [int(v) for v in common.parse_sx(tails[ti])]
            ti += 1
            run.count(("select-tail", repr(parts), n))
            qt = d.tail(n, compute=False)
            lowt = try_(lambda: _shape(qt.expr._lower()))
            gott = try_(lambda: [int(v) for v in qt.compute()["id"]])
            case = {"kind": "select-tail", "partitions": parts, "n": n}
            # pandas: tail(0) is empty
            if gott[0] == "raise" or gott[1] != tmodel:
                spec = parts[-1][len(parts[-1]) - n:] if n else []
                spec = parts[-1][max(0, len(parts[-1]) - n):] if n else []
                if gott[0] == "raise" or gott[1] != spec:
                    run.violation("tail(%d) over partitions %s %s, the last rows of the last partition are %s" % (n, parts, ("raises " + gott[1]) if gott[0] == "raise" else "returns rows %s" % gott[1], spec), case)
                else:
                    bad += 1
                    run.broken_tie("T-LAYER Tail lowering vs Select.tail_lowered (values)", dict(case, real=gott[1], model=tmodel))
            elif lowt[0] == "raise" or lowt[1] != ["btail", n, ["partitions", [len(parts) - 1], "source"]]:
                bad += 1
                run.broken_tie("T-LAYER Tail._lower: shape of the lowered expression vs the shape modelled in Select.v", dict(case, real=lowt[1]))
    # n smallest rows as a tree reduction
    kcases = []
    meta2 = pd.DataFrame({"a": pd.Series([], dtype="int64"), "id": pd.Series([], dtype="int64")})
    for parts in layouts[: (8 if quick else 40)]:
        keyed = [[(rng.randrange(0, 4), r) for r in p] for p in parts]
        for n in (1, 3, 7):
            kcases.append((keyed, n))
    trees = m.batch(["(nfirst_tree %d %s)" % (n, sx([[[a, r] for a, r in p] for p in keyed])) for keyed, n in kcases])
    specs = m.batch(["(nfirst_spec %d %s)" % (n, sx([[[a, r] for a, r in p] for p in keyed])) for keyed, n in kcases])
    for (keyed, n), t, s in zip(kcases, trees, specs):
        d = rt.dx.from_map(_Pieces(keyed, 2), list(range(len(keyed))), meta=meta2)
        model = [(int(a), int(r)) for a, r in common.parse_sx(t)]
        spec = [(int(a), int(r)) for a, r in common.parse_sx(s)]
        case = {"kind": "select-nsmallest", "partitions": keyed, "n": n}
        if model != spec:
            bad += 1
            run.broken_tie("extracted nfirst_tree differs from nfirst_spec (contradicts SelectProofs.nfirst_tree_correct)", case)
            continue
        for se in (None, 2):
            run.count(("select-nsmallest", repr(keyed), n, se), nontrivial=len(keyed) > 1)
            got = try_(lambda: d.nsmallest(n, "a", split_every=se).compute())
            rows = None if got[0] == "raise" else [(int(a), int(r)) for a, r in zip(got[1]["a"], got[1]["id"])]
            if rows != model:
                run.violation("nsmallest(%d, 'a', split_every=%s) over partitions %s %s, the %d smallest rows (ties in row order) are %s" % (
                    n, se, keyed, ("raises " + got[1]) if got[0] == "raise" else "returns %s" % rows, n, model), dict(case, split_every=se))
        run.count(("select-sorted-head", repr(keyed), n))
        got = try_(lambda: d.sort_values("a").head(n, compute=False).compute())
        keys = None if got[0] == "raise" else [int(a) for a in got[1]["a"]]
        total = sum(len(p) for p in keyed)
        if keys != [a for a, _ in spec] and not (got[0] == "ok" and total < n):
            run.violation("sort_values('a').head(%d) over partitions %s %s, the %d smallest keys are %s" % (
                n, keyed, ("raises " + got[1]) if got[0] == "raise" else "returns keys %s" % keys, n, [a for a, _ in spec]), case)
    run.section("select_layer", head_tail_cases=len(cases), sorted_cases=len(kcases), differing=bad)
