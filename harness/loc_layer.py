"""T-LAYER for Loc.v: label slices on collections with known divisions (LocSlice.start / stop / _divisions / computed
partitions) against the extracted model, over all small division vectors and all slice bounds (incl. open ends, bounds outside
the divisions, bounds equal to a division, reversed slices)."""
import itertools

import common
from e2e import exec_expr, try_


class _Piece:
    def __init__(self, divs):
        self.divs = tuple(divs)

    def __call__(self, i):
        import pandas as pd
        lo, hi = self.divs[i], self.divs[i + 1]
        last = i == len(self.divs) - 2
        idx = sorted({lo, max(lo, hi - 1)} | ({hi} if last else set()))
        return pd.DataFrame({"x": [float(v) for v in idx]}, index=idx)

    def __dask_tokenize__(self):
        return ("loc-piece", self.divs)


def loc_layer(run, rt, quick):
    sx, m = common.sx, common.Model()
    vals = list(range(0, 7 if quick else 9))
    divsets = []
    for n in (1, 2, 3) if quick else (1, 2, 3, 4):
        for comb in itertools.combinations(vals, n + 1):
            if not quick or (comb[0] <= 1 and len(divsets) % 3 == 0) or n == 1:
                divsets.append(list(comb))
    bounds = [None] + list(range(-1, (8 if quick else 10)))
    cases, reqs = [], []
    for divs in divsets:
        df = rt.dx.from_map(_Piece(divs), list(range(len(divs) - 1)), divisions=tuple(divs), meta=_Piece(divs)(0).iloc[:0])
        parts = [[int(v) for v in _Piece(divs)(i).index] for i in range(len(divs) - 1)]
        for lo in bounds:
            for hi in bounds:
                if lo is None and hi is None:
                    continue
                cases.append((divs, parts, lo, hi, df))
                o = lambda v: "none" if v is None else "(some %d)" % v
                reqs.append("(loc_model %s %s %s %s)" % (sx(divs), sx(parts), o(lo), o(hi)))
    ans = m.batch(reqs)
    bad = 0
    for (divs, parts, lo, hi, df), a in zip(cases, ans):
        run.count(("loc", tuple(divs), lo, hi), nontrivial=(lo is not None and hi is not None))
        model = common.parse_sx(a)      # (start stop (divisions) ((part) ...))
        mstart, mstop = int(model[0][0][0]), int(model[0][0][1])
        mdivs = [int(v) for v in model[0][1]]
        mparts = [[int(v) for v in p] for p in model[1]]
        q = try_(lambda: df.loc[lo:hi])
        if q[0] == "raise":
            bad += 1
            run.broken_tie("T-LAYER LocSlice", {"divs": divs, "lo": lo, "hi": hi, "real": "raises " + str(q[1])[:150]})
            continue
        nodes = [e for e in q[1].expr.walk() if type(e).__name__ == "LocSlice"]
        real = try_(lambda: (int(nodes[0].start), int(nodes[0].stop), [int(v) for v in nodes[0]._divisions()]) if nodes else None)
        rparts = try_(lambda: [[int(v) for v in p.index] for p in exec_expr(q[1].expr.lower_completely())])
        rdivs = try_(lambda: [int(v) for v in q[1].divisions])
        ok = True
        if real[0] == "ok" and real[1] is not None:
            ok = real[1] == (mstart, mstop, mdivs)
        ok = ok and rparts[0] == "ok" and rparts[1] == mparts and rdivs[0] == "ok" and rdivs[1] == mdivs
        if not ok:
            bad += 1
            witness = None
            if rparts[0] == "ok" and rdivs[0] == "ok":
                tb = m.batch(["(truthfulb %s %s)" % (sx(rdivs[1]), sx(rparts[1]))])[0]
                exp = [v for p in parts for v in p if (lo is None or lo <= v) and (hi is None or v <= hi)]
                flat = [v for p in rparts[1] for v in p]
                if tb != "true":
                    witness = "divisions %s, df.loc[%s:%s] reports divisions %s but its partitions hold %s" % (divs, lo, hi, rdivs[1], rparts[1])
                elif flat != exp:
                    witness = "divisions %s, df.loc[%s:%s] returns index values %s, the rows in the range are %s" % (divs, lo, hi, flat, exp)
            if witness:
                run.violation("label slice: " + witness, {"kind": "loc-layer", "divs": divs, "lo": lo, "hi": hi})
            else:
                run.broken_tie("T-LAYER LocSlice", {"divs": divs, "lo": lo, "hi": hi, "model": a[:300], "real": repr((real, rparts, rdivs))[:400]})
    run.section("loc_layer", cases=len(cases), division_vectors=len(divsets), differing=bad)
    loclist_layer(run, rt, quick, divsets)


def loclist_layer(run, rt, quick, divsets):
    """df.loc[[labels]]: divisions and computed partitions vs the model, for label lists in every order (with repetitions)."""
    sx, m = common.sx, common.Model()
    cases, reqs = [], []
    for divs in divsets[:: (2 if quick else 1)]:
        df = rt.dx.from_map(_Piece(divs), list(range(len(divs) - 1)), divisions=tuple(divs), meta=_Piece(divs)(0).iloc[:0])
        parts = [[int(v) for v in _Piece(divs)(i).index] for i in range(len(divs) - 1)]
        present = sorted({v for p in parts for v in p})
        pool = present + [v + 1 for v in present if v + 1 <= divs[-1] and v + 1 not in present][:2]      # labels with and without rows
        lists = [list(p) for k in (1, 2, 3) for p in itertools.permutations(pool, k)]
        lists += [[a, a] for a in pool[:2]] + [[pool[-1], pool[0], pool[-1]]]
        if quick:
            lists = lists[::4]
        for labels in lists:
            cases.append((divs, parts, labels, df))
            reqs.append("(loclist_model %s %s %s)" % (sx(divs), sx(parts), sx(labels)))
    ans = m.batch(reqs)
    bad = 0
    for (divs, parts, labels, df), a in zip(cases, ans):
        run.count(("loclist", tuple(divs), tuple(labels)), nontrivial=len(labels) >= 2)
        model = common.parse_sx(a)
        mdivs, mparts = [int(v) for v in model[0]], [[int(v) for v in p] for p in model[1]]
        q = try_(lambda: df.loc[labels])
        rparts = try_(lambda: [[int(v) for v in p.index] for p in exec_expr(q[1].expr.lower_completely())]) if q[0] == "ok" else q
        rdivs = try_(lambda: [int(v) for v in q[1].divisions]) if q[0] == "ok" else q
        if rparts[0] == "raise" and all(v not in {x for p in parts for x in p} for v in labels):
            continue            # pandas raises KeyError when none of the labels exists
        if rparts[0] == "raise" and "KeyError" in str(rparts[1]):
            continue            # a missing label: pandas refuses as well
        if not (rparts[0] == "ok" and rdivs[0] == "ok" and rparts[1] == mparts and rdivs[1] == mdivs):
            bad += 1
            witness = None
            if rparts[0] == "ok" and rdivs[0] == "ok":
                tb = m.batch(["(truthfulb %s %s)" % (sx(rdivs[1]), sx(rparts[1]))])[0]
                if tb != "true":
                    witness = "divisions %s, df.loc[%s] reports divisions %s but its partitions hold %s" % (divs, labels, rdivs[1], rparts[1])
            if witness:
                run.violation("label list: " + witness, {"kind": "loclist-layer", "divs": divs, "labels": labels})
            else:
                run.broken_tie("T-LAYER LocList", {"divs": divs, "labels": labels, "model": a[:300], "real": repr((rparts, rdivs))[:400]})
    run.section("loclist_layer", cases=len(cases), differing=bad)
