"""Shared machinery of the checks: build of the Coq development and of the extracted model
server, S-expression protocol, evidence writing, known findings, VIOLATION protocol.

Every check is `./check Cxx [--tier quick|thorough] [--replay file]`.  See DESIGN.md section 4."""
import fcntl
import hashlib
import json
import os
import random
import re
import subprocess
import sys
import time

VERIF = os.path.dirname(os.path.dirname(os.path.abspath(__file__)))
REPO = os.environ.get("VERIF_REPO", "/repo")
COQ = os.path.join(VERIF, "coq")
BUILD = os.path.join(VERIF, "build")
PY = "/venv/bin/python"

# ----------------------------------------------------------------------------- S-expressions


def sx(o):
    """Canonical S-expression of a Python value (mirrors ocaml/driver.ml printers)."""
    if o is None:
        return "none"
    if o is True:
        return "true"
    if o is False:
        return "false"
    if isinstance(o, int):
        return str(int(o))
    if isinstance(o, str):
        return o
    if isinstance(o, Some):
        return "(some %s)" % sx(o.v)
    if isinstance(o, (list, tuple)):
        return "(" + " ".join(sx(x) for x in o) + ")"
    raise TypeError("cannot export %r to the model (fail-closed)" % (o,))


class Some:
    def __init__(self, v):
        self.v = v


def opt(v):
    return None if v is None else Some(v)


def parse_sx(s):
    toks = re.findall(r'\(|\)|"[^"]*"|[^\s()]+', s)
    pos = 0

    def item():
        nonlocal pos
        t = toks[pos]
        pos += 1
        if t == "(":
            out = []
            while toks[pos] != ")":
                out.append(item())
            pos += 1
            return out
        if re.fullmatch(r"-?\d+", t):
            return int(t)
        return t

    return item()


# ----------------------------------------------------------------------------- build


def sh(cmd, timeout=3000, cwd=None, env=None):
    p = subprocess.run(cmd, shell=True, cwd=cwd, env=env, stdout=subprocess.PIPE,
                       stderr=subprocess.STDOUT, timeout=timeout, text=True)
    return p.returncode, p.stdout


_build_cache = {}


def build(verbose=False):
    """Regenerate Generated*.v from REPO, make the Coq project (full .vo), build the model
    server.  Serialised with a file lock (checks may run in parallel).  Returns a dict:
    ok, failed (list of .v files that did not compile), log."""
    if "r" in _build_cache:
        return _build_cache["r"]
    os.makedirs(BUILD, exist_ok=True)
    t0 = time.time()
    with open(os.path.join(BUILD, ".lock"), "w") as lk:
        fcntl.flock(lk, fcntl.LOCK_EX)
        # T-GEN: tables regenerated from the source on every run
        rc, out = sh("%s %s/harness/gen_tables.py" % (PY, VERIF), env=_env())
        gen_ok = rc == 0
        log = out
        # T-SRC: method bodies translated from the source on every run (an untranslatable target is left undefined,
        # which breaks SourceChecks.v and with it only the checks whose theorems depend on it)
        rc, out = sh("%s %s/harness/gen_source.py" % (PY, VERIF), env=_env())
        gen_ok = gen_ok and rc == 0
        log += out
        if not os.path.exists(os.path.join(COQ, "Makefile")) or \
                os.path.getmtime(os.path.join(COQ, "Makefile")) < os.path.getmtime(os.path.join(COQ, "_CoqProject")):
            sh("coq_makefile -f _CoqProject -o Makefile", cwd=COQ)
        rc, out = sh("timeout 3000 make -k -j16 2>&1", cwd=COQ, timeout=3100)
        log += out
        failed = sorted(set(re.findall(r'File "\./([A-Za-z0-9_]+\.v)", line \d+, characters [\d-]+:\s*\n\s*Error', out)))
        failed += [m for m in re.findall(r"make.*\*\*\* \[.*?: ([A-Za-z0-9_]+)\.vo\]", out) if m + ".v" not in failed and False]
        ok = rc == 0 and gen_ok
        # model server
        ms = os.path.join(BUILD, "ocaml")
        os.makedirs(ms, exist_ok=True)
        srcs = [os.path.join(COQ, "model.ml"), os.path.join(COQ, "model.mli"), os.path.join(VERIF, "ocaml", "driver.ml")]
        exe = os.path.join(ms, "model")
        if all(os.path.exists(s) for s in srcs):
            if not os.path.exists(exe) or any(os.path.getmtime(s) > os.path.getmtime(exe) for s in srcs):
                sh("cp %s %s" % (" ".join(srcs), ms))
                rc2, out2 = sh("ocamlfind ocamlopt -O2 -w -a model.mli model.ml driver.ml -o model.tmp 2>&1 && mv model.tmp model", cwd=ms)
                log += out2
                if rc2 != 0:
                    ok = False
                    failed.append("ocaml/driver.ml")
        else:
            ok = False
            failed.append("Extract.v")
    r = {"ok": ok, "failed": failed, "log": log, "gen_ok": gen_ok, "wall_s": time.time() - t0}
    _build_cache["r"] = r
    if verbose or not ok:
        sys.stderr.write(log[-4000:] + "\n")
    return r


def _env():
    e = dict(os.environ)
    e["PYTHONPATH"] = REPO
    e.setdefault("PYTHONHASHSEED", "0")
    e["DASK_EXPR_VERIF"] = "1"
    return e


def coq_deps(vfile):
    """Transitive DX dependencies of a .v file (from coqdep), as file names."""
    rc, out = sh("coqdep -Q . DX %s" % vfile, cwd=COQ)
    seen, todo = set(), [vfile]
    while todo:
        f = todo.pop()
        if f in seen or not os.path.exists(os.path.join(COQ, f)):
            continue
        seen.add(f)
        rc, out = sh("coqdep -Q . DX %s" % f, cwd=COQ)
        for m in re.findall(r"([A-Za-z0-9_]+)\.vo", out.split(":", 1)[1] if ":" in out else ""):
            if m + ".v" != f:
                todo.append(m + ".v")
    return sorted(seen)


_STMT = re.compile(r"^\s*(Theorem|Lemma|Corollary|Example|Fact|Proposition|Remark)\s+([A-Za-z0-9_']+)", re.M)


def proof_status(prop_file):
    """Re-check the property's theorem file with coqc (its dependencies were built by make),
    collect Print Assumptions output, count obligations (named statements closed by Qed in the
    files it depends on) and scan for forbidden constructs."""
    deps = coq_deps(prop_file)
    obligations, names = 0, []
    forbidden = []
    for f in deps:
        src = open(os.path.join(COQ, f)).read()
        src_nc = re.sub(r"\(\*.*?\*\)", "", src, flags=re.S)
        st = _STMT.findall(src_nc)
        obligations += len(st)
        if f == prop_file:
            names = [n for _, n in st]
        for bad in re.findall(r"\b(Admitted|admit|Axiom|Parameter|Conjecture|Unset Guard Checking|bypass_check|Admit Obligations)\b", src_nc):
            forbidden.append("%s:%s" % (f, bad))
    missing_vo = [f for f in deps if not _vo_fresh(f)]
    rc, out = sh("timeout 600 coqc -Q . DX %s" % prop_file, cwd=COQ, timeout=700)
    axioms = []
    closed = 0
    for blk in re.split(r"(?=Closed under the global context|Axioms:)", out):
        if blk.startswith("Closed under the global context"):
            closed += 1
        elif blk.startswith("Axioms:"):
            axioms += re.findall(r"^([A-Za-z0-9_.']+)\s*:", blk, flags=re.M)
    ok = rc == 0 and not missing_vo and not forbidden
    return {"ok": ok, "rc": rc, "out": out[-3000:], "deps": deps, "obligations": obligations,
            "discharged": obligations if ok else 0, "theorems": names, "closed": closed,
            "axioms": sorted(set(axioms)), "missing_vo": missing_vo, "forbidden": forbidden}


def _vo_fresh(f):
    vo = os.path.join(COQ, f[:-2] + ".vo")
    return os.path.exists(vo) and os.path.getmtime(vo) >= os.path.getmtime(os.path.join(COQ, f))


class Model:
    """Batch client of the extracted model server."""

    def __init__(self):
        self.exe = os.path.join(BUILD, "ocaml", "model")
        self.calls = 0

    def batch(self, reqs):
        if not reqs:
            return []
        p = subprocess.run([self.exe], input="\n".join(reqs) + "\n", stdout=subprocess.PIPE,
                           stderr=subprocess.PIPE, text=True, timeout=3000)
        out = p.stdout.split("\n")
        if out and out[-1] == "":
            out.pop()
        if len(out) != len(reqs):
            raise RuntimeError("model server returned %d answers for %d requests: %s" % (len(out), len(reqs), p.stderr[-500:]))
        self.calls += len(reqs)
        return out


XCHECK = [
    # (request to the extracted server, the same call as a Coq term)
    ("(tree_layer (some 2) 5)", "tree_layer 5 (Some 2) 5"),
    ("(tree_layer none 4)", "tree_layer 4 None 4"),
    ("(tree_layer (some 3) 10)", "tree_layer 10 (Some 3) 10"),
    ("(clean_boundaries (2 5) 7)", "clean_boundaries [2;5] 7"),
    ("(fewer_ranges (0 2 5))", "fewer_ranges [0;2;5]"),
    ("(more_nsplits 3 7)", "more_nsplits 3 7"),
    ("(partitions_divisions (0 5 9 12) (0 2))", "partitions_divisions [0;5;9;12]%Z [0;2]"),
    ("(partitions_divisions (-3 0 4) (1 0))", "partitions_divisions [-3;0;4]%Z [1;0]"),
    ("(partitions_divisions (-3 0 4) (0 1))", "partitions_divisions [-3;0;4]%Z [0;1]"),
    ("(fusion_buckets (0 1 2 3 4) 2)", "fusion_buckets [0;1;2;3;4] 2"),
    ("(fused_divisions (0 5 9 12 20) ((0 1) (2 3)))", "fused_divisions [0;5;9;12;20]%Z [[0;1];[2;3]]"),
    ("(fewer_divisions (0 5 9 12) (0 2 3))", "fewer_divisions [0;5;9;12]%Z [0;2;3]"),
    ("(head_divisions (0 5 9) 2)", "head_divisions [0;5;9]%Z 2"),
    ("(bhead_divisions (0 5 9) 1)", "bhead_divisions [0;5;9]%Z 1"),
    ("(tail_divisions (0 5 9))", "tail_divisions [0;5;9]%Z"),
    ("(concat_divisions ((0 5) (6 9)))", "concat_divisions [[0;5];[6;9]]%Z"),
    ("(concat_divisions ((0 5) (5 9)))", "concat_divisions [[0;5];[5;9]]%Z"),
    ("(truthfulb (0 5 9) ((0 4) (5 9)))", "truthfulb [0;5;9]%Z [[0;4];[5;9]]%Z"),
    ("(truthfulb (0 5 9) ((0 5) (5 9)))", "truthfulb [0;5;9]%Z [[0;5];[5;9]]%Z"),
    ("(stats_divisions ((5 9) (0 4) (10 12)))", "stats_divisions [(5,9);(0,4);(10,12)]%Z"),
    ("(stats_divisions ((5 9) (0 5)))", "stats_divisions [(5,9);(0,5)]%Z"),
    ("(presorted_divisions ((0 2) (3 3) (4 8)))", "presorted_divisions [(0,2);(3,3);(4,8)]%Z"),
    ("(presorted_divisions ((0 3) (3 5)))", "presorted_divisions [(0,3);(3,5)]%Z"),
    ("(align_divisions ((0 5 10) (3 5 12 12)))", "align_divisions [[0;5;10];[3;5;12;12]]%Z"),
    ("(align_divisions ((4 4) (4 4)))", "align_divisions [[4;4];[4;4]]%Z"),
    ("(align_single ((4 9) (1 4)))", "align_single [[4;9];[1;4]]%Z"),
    ("(head_lowered 3 2 ((1 2) (3 4 5) (6)))", "head_lowered 3 2 [[1;2];[3;4;5];[6]]%Z"),
    ("(tail_lowered 2 ((1 2) (3 4 5)))", "tail_lowered 2 [[1;2];[3;4;5]]%Z"),
    ("(nfirst_tree 3 (((3 1) (1 2)) ((3 3) (1 4) (2 5))))", "nfirst_tree fst 3 [[(3,1);(1,2)];[(3,3);(1,4);(2,5)]]%Z"),
    ("(loclist_model (0 10 20 30) ((0 3 3 7) (10 12 15) (20 25 30)) (7 3 12 25 15))",
     "(ll_divisions [0;10;20;30]%Z [7;3;12;25;15]%Z, ll_parts [0;10;20;30]%Z [[0;3;3;7];[10;12;15];[20;25;30]]%Z [7;3;12;25;15]%Z)"),
    ("(loc_model (0 10 20 30) ((0 5) (10 15) (20 25 30)) (some 12) (some 22))",
     "(ls_start [0;10;20;30]%Z (Some 12%Z), ls_stop [0;10;20;30]%Z (Some 12%Z) (Some 22%Z), loc_divisions [0;10;20;30]%Z (Some 12%Z) (Some 22%Z), loc_parts [0;10;20;30]%Z [[0;5];[10;15];[20;25;30]]%Z (Some 12%Z) (Some 22%Z))"),
    ("(sp_model (0 10 10 30) (30 0 10 29 9 -1 31))",
     "(map (sp_part [0;10;10;30]%Z) [30;0;10;29;9;-1;31]%Z, sp_parts [0;10;10;30]%Z [30;0;10;29;9;-1;31]%Z)"),
    ("(sp_model_desc (0 10 10 30) (30 0 10 29 9 -1 31))",
     "(map (sp_part_desc [0;10;10;30]%Z) [30;0;10;29;9;-1;31]%Z, sp_parts_desc [0;10;10;30]%Z [30;0;10;29;9;-1;31]%Z)"),
]


def _coq_to_sx(text):
    """Canonical S-expression of a printed Coq value built from numbers, bool, option, lists and tuples."""
    toks = re.findall(r"\[|\]|\(|\)|;|,|-?\d+|[A-Za-z_][A-Za-z_0-9']*", re.sub(r"%[A-Za-z_]+", "", text))
    pos = 0

    def atom():
        nonlocal pos
        t = toks[pos]
        pos += 1
        if t == "[":
            items = []
            while toks[pos] != "]":
                items.append(term())
                if toks[pos] == ";":
                    pos += 1
            pos += 1
            return items
        if t == "(":
            items = [term()]
            while toks[pos] == ",":
                pos += 1
                items.append(term())
            assert toks[pos] == ")"
            pos += 1
            if len(items) == 1:
                return items[0]
            # Coq prints nested pairs flat: (a, b, c) = ((a, b), c)
            out = items[0]
            for x in items[1:]:
                out = [out, x]
            return out
        if re.match(r"-?\d+$", t):
            return int(t)
        return {"None": "none", "true": "true", "false": "false"}.get(t, t)

    def term():
        nonlocal pos
        head = atom()
        if head == "Some":
            return ["some", atom()]
        return head

    v = term()
    if pos != len(toks):
        raise ValueError("trailing tokens in %r" % text)
    return v


def extraction_crosscheck():
    """Evaluate XCHECK both with the extracted OCaml server and inside Coq (vm_compute) and compare: keeps extraction,
    ocaml/driver.ml and the S-expression printers honest.  Returns (number compared, list of differences)."""
    os.makedirs(os.path.join(BUILD, "cases"), exist_ok=True)
    path = os.path.join(BUILD, "cases", "xcheck_%d.v" % os.getpid())
    with open(path, "w") as f:
        f.write("From DX Require Import Base TreeReduce Repart Divisions MinMax Loc LocList Align Select SetIndex.\nSet Printing Width 1000000.\nSet Printing Depth 100000.\n")
        for _, t in XCHECK:
            f.write("Eval vm_compute in (%s).\n" % t)
    rc, out = sh("timeout 600 coqc -Q %s DX %s" % (COQ, path), cwd=os.path.dirname(path))
    for ext in (".v", ".vo", ".glob", ".vok", ".vos"):
        try:
            os.remove(path[:-2] + ext)
        except OSError:
            pass
    aux = os.path.join(os.path.dirname(path), "." + os.path.basename(path)[:-2] + ".aux")
    if os.path.exists(aux):
        os.remove(aux)
    got = re.findall(r"^\s*= (.*?)\n\s*: ", out, flags=re.M | re.S)
    if rc != 0 or len(got) != len(XCHECK):
        return 0, [("coqc", "rc=%d, %d values for %d terms: %s" % (rc, len(got), len(XCHECK), out[-300:]))]
    ans = Model().batch([r for r, _ in XCHECK])
    bad = []
    for (req, term), g, a in zip(XCHECK, got, ans):
        try:
            cg = sx(_coq_to_sx(g))
        except Exception as ex:
            cg = "unparsable Coq output %r (%s)" % (g[:80], ex)
        ca = sx(parse_sx(a)) if not a.startswith("(error") else a
        if cg != ca:
            bad.append((req, "Coq: " + cg, "server: " + ca))
    return len(XCHECK), bad


# ----------------------------------------------------------------------------- runs


def known_findings():
    p = os.path.join(VERIF, "known_findings.json")
    if not os.path.exists(p):
        return []
    return json.load(open(p))


class Run:
    """One check run: counters, samples, violations, evidence."""

    def __init__(self, pid, tier, seed, level="proof"):
        self.pid, self.tier, self.seed, self.level = pid, tier, seed, level
        self.t0 = time.time()
        self.rng = random.Random(seed)
        self.evaluations = 0
        self.distinct = set()
        self.samples = []
        self.sections = {}
        self.violations = []       # dicts: {what, replay(dict), kind}
        self.broken = []           # names of theorems / correspondences that no longer check
        self.known_hits = {}       # finding id -> what
        self.assumptions = []
        self.trusted = []
        self.proof = None
        self.rule = ""
        self.known = {k["id"]: k for k in known_findings() if k.get("property") == pid or pid in k.get("properties", [])}

    # -- bookkeeping
    def count(self, case_key, nontrivial=True):
        self.evaluations += 1
        if nontrivial:
            self.distinct.add(hashlib.sha1(repr(case_key).encode()).hexdigest()[:16])

    def sample(self, s, limit=6):
        if len(self.samples) < limit:
            self.samples.append(s)

    def section(self, name, **kw):
        self.sections.setdefault(name, {}).update(kw)

    def broken_tie(self, name, detail):
        self.broken.append({"name": name, "detail": detail})

    def violation(self, what, replay, finding=None):
        """A failing input for the property itself.  `finding`: id of a known finding whose
        specific condition this case satisfies (decided by the caller's classifier)."""
        if finding is not None and finding in self.known and self.known[finding].get("status") == "known":
            self.known_hits.setdefault(finding, what)
            return
        self.violations.append({"what": what, "replay": replay})

    def proofs(self, prop_file):
        b = build()
        ps = proof_status(prop_file)
        self.proof = ps
        if not b["ok"]:
            relevant = [f for f in b["failed"] if f in ps["deps"] or f.startswith("ocaml") or f == "Extract.v"]
            if relevant or not b["gen_ok"]:
                self.broken_tie("coq-build", {"failed": b["failed"], "log": b["log"][-1500:]})
        if not ps["ok"]:
            self.broken_tie("proof:" + prop_file, {"rc": ps["rc"], "missing_vo": ps["missing_vo"],
                                                  "forbidden": ps["forbidden"], "out": ps["out"][-1500:]})
        # the extracted server against the same calls evaluated inside Coq
        try:
            n, bad = extraction_crosscheck()
        except Exception as ex:
            n, bad = 0, [("exception", type(ex).__name__ + ": " + str(ex)[:300])]
        self.xcheck = {"terms_compared_with_vm_compute": n, "differences": len(bad)}
        if bad:
            self.broken_tie("extraction cross-check (OCaml server vs vm_compute)", {"differences": [list(b) for b in bad[:5]]})
        # the reproducers of the defects of this property that were repaired (they run first)
        import regress
        regress.run_regressions(self, self.pid)
        return ps

    # -- finish
    def finish(self):
        os.makedirs(os.path.join(VERIF, "evidence"), exist_ok=True)
        os.makedirs(os.path.join(VERIF, "replays"), exist_ok=True)
        lines = []
        exit_code = 0
        for fid, what in sorted(self.known_hits.items()):
            lines.append("KNOWN-FINDING: property=%s %s: %s" % (self.pid, fid, what))
        if self.violations:
            v = self.violations[0]
            path = self._write_replay("input", v["replay"], v["what"], extra={"all": [x["what"] for x in self.violations[:300]]})
            lines.append("VIOLATION property=%s replay=%s" % (self.pid, path))
            exit_code = 1
        elif self.broken:
            path = self._write_replay("no-failing-input-found", None,
                                      "proof obligation or model/implementation correspondence no longer checks",
                                      extra={"broken": self.broken[:20]})
            lines.append("VIOLATION property=%s replay=%s no-failing-input-found" % (self.pid, path))
            exit_code = 1
        ps = self.proof or {}
        cov = {
            "obligations": ps.get("obligations", 0),
            "discharged": ps.get("discharged", 0),
            "checker_cmd": "cd /verif/coq && make (coqc 8.16.1, full .vo) && coqc -Q . DX %s  [Print Assumptions]" % (ps.get("file", "Prop%s.v" % self.pid)),
            "trusted_base": self.trusted,
            "theorems": ps.get("theorems", []),
            "print_assumptions": {"closed_under_global_context": ps.get("closed", 0), "axioms": ps.get("axioms", [])},
            "model_files": ps.get("deps", []),
            "evaluations": self.evaluations,
            "distinct_nontrivial": len(self.distinct),
            "rule": self.rule,
            "samples": self.samples,
            "correspondence": self.sections,
            "extraction_cross_check": getattr(self, "xcheck", None),
            "broken": self.broken[:10],
            "known_findings_reproduced": sorted(self.known_hits),
        }
        ev = {"property_id": self.pid, "tier": self.tier, "seed": self.seed, "level": self.level,
              "coverage": cov, "assumptions": self.assumptions, "wall_s": round(time.time() - self.t0, 2),
              "violations": len(self.violations) + (1 if (self.broken and not self.violations) else 0)}
        with open(os.path.join(VERIF, "evidence", "%s.json" % self.pid), "w") as f:
            json.dump(ev, f, indent=1, default=str)
        for l in lines:
            print(l)
        print("%s %s tier=%s seed=%d evaluations=%d distinct=%d obligations=%d/%d wall=%.1fs" % (
            self.pid, "FAIL" if exit_code else "ok", self.tier, self.seed, self.evaluations, len(self.distinct),
            cov["discharged"], cov["obligations"], time.time() - self.t0))
        return exit_code

    def _write_replay(self, kind, case, what, extra=None):
        h = hashlib.sha1(json.dumps([kind, case, what], default=str, sort_keys=True).encode()).hexdigest()[:10]
        path = os.path.join(VERIF, "replays", "%s-%s.json" % (self.pid, h))
        d = {"property": self.pid, "kind": kind, "what": what, "case": case, "seed": self.seed, "tier": self.tier,
             "how_to_run": "cd /verif && ./check %s --replay %s" % (self.pid, path)}
        if extra:
            d.update(extra)
        with open(path, "w") as f:
            json.dump(d, f, indent=1, default=str)
        return path


COMMON_TRUSTED = [
    "Coq 8.16.1 kernel (coqc), vm_compute for reflective/bounded lemmas; no native_compute",
    "extraction to OCaml with ExtrOcamlBasic only (its Extract Inductive for bool,list,option,prod,unit,sumbool) + ocaml/driver.ml glue; 33 fixed calls are evaluated by the server and by vm_compute inside Coq on every run and compared (coverage.extraction_cross_check)",
    "the Gallina model is hand-written and tied to /repo by the correspondence runs reported in this file, except: the class table (harness/gen_tables.py) and the bodies of 11 small methods (harness/gen_source.py, a ~300-line Python-AST -> Gallina translator over coq/PySeq.v, fail-closed) are regenerated from the source on every run; the translators and PySeq.v's reading of Python indexing/slicing are trusted",
]


def gate():
    """grep gate over the whole development: no Admitted/admit/Axiom/Parameter/... anywhere."""
    bad = []
    for f in sorted(os.listdir(COQ)):
        if f.endswith(".v"):
            src = re.sub(r"\(\*.*?\*\)", "", open(os.path.join(COQ, f)).read(), flags=re.S)
            for m in re.findall(r"\b(Admitted|admit|Axiom|Axioms|Parameter|Parameters|Conjecture|Unset Guard Checking|bypass_check|Admit Obligations|type-in-type|impredicative-set)\b", src):
                bad.append("%s:%s" % (f, m))
            if re.search(r"^\s*(Variable|Hypothesis|Variables|Hypotheses)\b", _outside_sections(src), flags=re.M):
                bad.append("%s:Variable-outside-section" % f)
    return bad


def _outside_sections(src):
    out, depth = [], 0
    for line in src.split("\n"):
        if re.match(r"\s*Section\s+\w+\s*\.", line):
            depth += 1
        elif re.match(r"\s*End\s+\w+\s*\.", line) and depth > 0:
            depth -= 1
        elif depth == 0:
            out.append(line)
    return "\n".join(out)
