"""Shared machinery of the checks: build of the Coq development and of the extracted model
server, S-expression protocol, evidence writing, known findings, VIOLATION protocol.

Every check is `./check Cxx [--tier quick|thorough] [--replay file]`.  See DESIGN.md section 4."""
import fcntl
import hashlib
import json
import os
import random
import re
import subprocess
import sys
import time

VERIF = os.path.dirname(os.path.dirname(os.path.abspath(__file__)))
REPO = os.environ.get("VERIF_REPO", "/repo")
COQ = os.path.join(VERIF, "coq")
BUILD = os.path.join(VERIF, "build")
PY = "/venv/bin/python"

# ----------------------------------------------------------------------------- S-expressions


def sx(o):
    """Canonical S-expression of a Python value (mirrors ocaml/driver.ml printers)."""
    if o is None:
        return "none"
    if o is True:
        return "true"
    if o is False:
        return "false"
    if isinstance(o, int):
        return str(int(o))
    if isinstance(o, str):
        return o
    if isinstance(o, Some):
        return "(some %s)" % sx(o.v)
    if isinstance(o, (list, tuple)):
        return "(" + " ".join(sx(x) for x in o) + ")"
    raise TypeError("cannot export %r to the model (fail-closed)" % (o,))


class Some:
    def __init__(self, v):
        self.v = v


def opt(v):
    return None if v is None else Some(v)


def parse_sx(s):
    toks = re.findall(r'\(|\)|"[^"]*"|[^\s()]+', s)
    pos = 0

    def item():
        nonlocal pos
        t = toks[pos]
        pos += 1
        if t == "(":
            out = []
            while toks[pos] != ")":
                out.append(item())
            pos += 1
            return out
        if re.fullmatch(r"-?\d+", t):
            return int(t)
        return t

    return item()


# ----------------------------------------------------------------------------- build


def sh(cmd, timeout=3000, cwd=None, env=None):
    p = subprocess.run(cmd, shell=True, cwd=cwd, env=env, stdout=subprocess.PIPE,
                       stderr=subprocess.STDOUT, timeout=timeout, text=True)
    return p.returncode, p.stdout


_build_cache = {}


def build(verbose=False):
    """Regenerate Generated*.v from REPO, make the Coq project (full .vo), build the model
    server.  Serialised with a file lock (checks may run in parallel).  Returns a dict:
    ok, failed (list of .v files that did not compile), log."""
    if "r" in _build_cache:
        return _build_cache["r"]
    os.makedirs(BUILD, exist_ok=True)
    t0 = time.time()
    with open(os.path.join(BUILD, ".lock"), "w") as lk:
        fcntl.flock(lk, fcntl.LOCK_EX)
        # T-GEN: tables regenerated from the source on every run
        rc, out = sh("%s %s/harness/gen_tables.py" % (PY, VERIF), env=_env())
        gen_ok = rc == 0
        log = out
        if not os.path.exists(os.path.join(COQ, "Makefile")) or \
                os.path.getmtime(os.path.join(COQ, "Makefile")) < os.path.getmtime(os.path.join(COQ, "_CoqProject")):
            sh("coq_makefile -f _CoqProject -o Makefile", cwd=COQ)
        rc, out = sh("timeout 3000 make -k -j16 2>&1", cwd=COQ, timeout=3100)
        log += out
        failed = sorted(set(re.findall(r'File "\./([A-Za-z0-9_]+\.v)", line \d+, characters [\d-]+:\s*\n\s*Error', out)))
        failed += [m for m in re.findall(r"make.*\*\*\* \[.*?: ([A-Za-z0-9_]+)\.vo\]", out) if m + ".v" not in failed and False]
        ok = rc == 0 and gen_ok
        # model server
        ms = os.path.join(BUILD, "ocaml")
        os.makedirs(ms, exist_ok=True)
        srcs = [os.path.join(COQ, "model.ml"), os.path.join(COQ, "model.mli"), os.path.join(VERIF, "ocaml", "driver.ml")]
        exe = os.path.join(ms, "model")
        if all(os.path.exists(s) for s in srcs):
            if not os.path.exists(exe) or any(os.path.getmtime(s) > os.path.getmtime(exe) for s in srcs):
                sh("cp %s %s" % (" ".join(srcs), ms))
                rc2, out2 = sh("ocamlfind ocamlopt -O2 -w -a model.mli model.ml driver.ml -o model.tmp 2>&1 && mv model.tmp model", cwd=ms)
                log += out2
                if rc2 != 0:
                    ok = False
                    failed.append("ocaml/driver.ml")
        else:
            ok = False
            failed.append("Extract.v")
    r = {"ok": ok, "failed": failed, "log": log, "gen_ok": gen_ok, "wall_s": time.time() - t0}
    _build_cache["r"] = r
    if verbose or not ok:
        sys.stderr.write(log[-4000:] + "\n")
    return r


def _env():
    e = dict(os.environ)
    e["PYTHONPATH"] = REPO
    e.setdefault("PYTHONHASHSEED", "0")
    e["DASK_EXPR_VERIF"] = "1"
    return e


def coq_deps(vfile):
    """Transitive DX dependencies of a .v file (from coqdep), as file names."""
    rc, out = sh("coqdep -Q . DX %s" % vfile, cwd=COQ)
    seen, todo = set(), [vfile]
    while todo:
        f = todo.pop()
        if f in seen or not os.path.exists(os.path.join(COQ, f)):
            continue
        seen.add(f)
        rc, out = sh("coqdep -Q . DX %s" % f, cwd=COQ)
        for m in re.findall(r"([A-Za-z0-9_]+)\.vo", out.split(":", 1)[1] if ":" in out else ""):
            if m + ".v" != f:
                todo.append(m + ".v")
    return sorted(seen)


_STMT = re.compile(r"^\s*(Theorem|Lemma|Corollary|Example|Fact|Proposition|Remark)\s+([A-Za-z0-9_']+)", re.M)


def proof_status(prop_file):
    """Re-check the property's theorem file with coqc (its dependencies were built by make),
    collect Print Assumptions output, count obligations (named statements closed by Qed in the
    files it depends on) and scan for forbidden constructs."""
    deps = coq_deps(prop_file)
    obligations, names = 0, []
    forbidden = []
    for f in deps:
        src = open(os.path.join(COQ, f)).read()
        src_nc = re.sub(r"\(\*.*?\*\)", "", src, flags=re.S)
        st = _STMT.findall(src_nc)
        obligations += len(st)
        if f == prop_file:
            names = [n for _, n in st]
        for bad in re.findall(r"\b(Admitted|admit|Axiom|Parameter|Conjecture|Unset Guard Checking|bypass_check|Admit Obligations)\b", src_nc):
            forbidden.append("%s:%s" % (f, bad))
    missing_vo = [f for f in deps if not _vo_fresh(f)]
    rc, out = sh("timeout 600 coqc -Q . DX %s" % prop_file, cwd=COQ, timeout=700)
    axioms = []
    closed = 0
    for blk in re.split(r"(?=Closed under the global context|Axioms:)", out):
        if blk.startswith("Closed under the global context"):
            closed += 1
        elif blk.startswith("Axioms:"):
            axioms += re.findall(r"^([A-Za-z0-9_.']+)\s*:", blk, flags=re.M)
    ok = rc == 0 and not missing_vo and not forbidden
    return {"ok": ok, "rc": rc, "out": out[-3000:], "deps": deps, "obligations": obligations,
            "discharged": obligations if ok else 0, "theorems": names, "closed": closed,
            "axioms": sorted(set(axioms)), "missing_vo": missing_vo, "forbidden": forbidden}


def _vo_fresh(f):
    vo = os.path.join(COQ, f[:-2] + ".vo")
    return os.path.exists(vo) and os.path.getmtime(vo) >= os.path.getmtime(os.path.join(COQ, f))


class Model:
    """Batch client of the extracted model server."""

    def __init__(self):
        self.exe = os.path.join(BUILD, "ocaml", "model")
        self.calls = 0

    def batch(self, reqs):
        if not reqs:
            return []
        p = subprocess.run([self.exe], input="\n".join(reqs) + "\n", stdout=subprocess.PIPE,
                           stderr=subprocess.PIPE, text=True, timeout=3000)
        out = p.stdout.split("\n")
        if out and out[-1] == "":
            out.pop()
        if len(out) != len(reqs):
            raise RuntimeError("model server returned %d answers for %d requests: %s" % (len(out), len(reqs), p.stderr[-500:]))
        self.calls += len(reqs)
        return out


def coq_eval_crosscheck(reqs_coq, expected):
    """Re-evaluate a sample of model requests inside Coq (vm_compute) and compare with the
    answers of the extracted server -- keeps extraction + driver honest.
    reqs_coq: list of Coq terms (strings) whose vm_compute normal form, printed by Coq, is
    compared after whitespace normalisation with `expected` (strings in Coq syntax)."""
    if not reqs_coq:
        return 0, []
    os.makedirs(os.path.join(BUILD, "cases"), exist_ok=True)
    path = os.path.join(BUILD, "cases", "cases_%d.v" % os.getpid())
    with open(path, "w") as f:
        f.write("From DX Require Import All.\nSet Printing Width 1000000.\nSet Printing Depth 100000.\n")
        for t in reqs_coq:
            f.write("Eval vm_compute in (%s).\n" % t)
    rc, out = sh("timeout 600 coqc -Q %s DX %s" % (COQ, path), cwd=os.path.dirname(path))
    got = [re.sub(r"\s+", " ", m.strip()) for m in re.findall(r"^\s*= (.*?)\n\s*: ", out, flags=re.M | re.S)]
    bad = []
    for i, (g, e) in enumerate(zip(got, expected)):
        if g != re.sub(r"\s+", " ", e.strip()):
            bad.append((reqs_coq[i], g, e))
    if len(got) != len(expected):
        bad.append(("count", str(len(got)), str(len(expected)) + " rc=%d %s" % (rc, out[-300:])))
    for ext in (".v", ".vo", ".glob", ".vok", ".vos"):
        try:
            os.remove(path[:-2] + ext)
        except OSError:
            pass
    return len(got), bad


# ----------------------------------------------------------------------------- runs


def known_findings():
    p = os.path.join(VERIF, "known_findings.json")
    if not os.path.exists(p):
        return []
    return json.load(open(p))


class Run:
    """One check run: counters, samples, violations, evidence."""

    def __init__(self, pid, tier, seed, level="proof"):
        self.pid, self.tier, self.seed, self.level = pid, tier, seed, level
        self.t0 = time.time()
        self.rng = random.Random(seed)
        self.evaluations = 0
        self.distinct = set()
        self.samples = []
        self.sections = {}
        self.violations = []       # dicts: {what, replay(dict), kind}
        self.broken = []           # names of theorems / correspondences that no longer check
        self.known_hits = {}       # finding id -> what
        self.assumptions = []
        self.trusted = []
        self.proof = None
        self.rule = ""
        self.known = {k["id"]: k for k in known_findings() if k.get("property") == pid or pid in k.get("properties", [])}

    # -- bookkeeping
    def count(self, case_key, nontrivial=True):
        self.evaluations += 1
        if nontrivial:
            self.distinct.add(hashlib.sha1(repr(case_key).encode()).hexdigest()[:16])

    def sample(self, s, limit=6):
        if len(self.samples) < limit:
            self.samples.append(s)

    def section(self, name, **kw):
        self.sections.setdefault(name, {}).update(kw)

    def broken_tie(self, name, detail):
        self.broken.append({"name": name, "detail": detail})

    def violation(self, what, replay, finding=None):
        """A failing input for the property itself.  `finding`: id of a known finding whose
        specific condition this case satisfies (decided by the caller's classifier)."""
        if finding is not None and finding in self.known and self.known[finding].get("status") == "known":
            self.known_hits.setdefault(finding, what)
            return
        self.violations.append({"what": what, "replay": replay})

    def proofs(self, prop_file):
        b = build()
        ps = proof_status(prop_file)
        self.proof = ps
        if not b["ok"]:
            relevant = [f for f in b["failed"] if f in ps["deps"] or f.startswith("ocaml") or f == "Extract.v"]
            if relevant or not b["gen_ok"]:
                self.broken_tie("coq-build", {"failed": b["failed"], "log": b["log"][-1500:]})
        if not ps["ok"]:
            self.broken_tie("proof:" + prop_file, {"rc": ps["rc"], "missing_vo": ps["missing_vo"],
                                                  "forbidden": ps["forbidden"], "out": ps["out"][-1500:]})
        return ps

    # -- finish
    def finish(self):
        os.makedirs(os.path.join(VERIF, "evidence"), exist_ok=True)
        os.makedirs(os.path.join(VERIF, "replays"), exist_ok=True)
        lines = []
        exit_code = 0
        for fid, what in sorted(self.known_hits.items()):
            lines.append("KNOWN-FINDING: property=%s %s: %s" % (self.pid, fid, what))
        if self.violations:
            v = self.violations[0]
            path = self._write_replay("input", v["replay"], v["what"], extra={"all": [x["what"] for x in self.violations[:300]]})
            lines.append("VIOLATION property=%s replay=%s" % (self.pid, path))
            exit_code = 1
        elif self.broken:
            path = self._write_replay("no-failing-input-found", None,
                                      "proof obligation or model/implementation correspondence no longer checks",
                                      extra={"broken": self.broken[:20]})
            lines.append("VIOLATION property=%s replay=%s no-failing-input-found" % (self.pid, path))
            exit_code = 1
        ps = self.proof or {}
        cov = {
            "obligations": ps.get("obligations", 0),
            "discharged": ps.get("discharged", 0),
            "checker_cmd": "cd /verif/coq && make (coqc 8.16.1, full .vo) && coqc -Q . DX %s  [Print Assumptions]" % (ps.get("file", "Prop%s.v" % self.pid)),
            "trusted_base": self.trusted,
            "theorems": ps.get("theorems", []),
            "print_assumptions": {"closed_under_global_context": ps.get("closed", 0), "axioms": ps.get("axioms", [])},
            "model_files": ps.get("deps", []),
            "evaluations": self.evaluations,
            "distinct_nontrivial": len(self.distinct),
            "rule": self.rule,
            "samples": self.samples,
            "correspondence": self.sections,
            "broken": self.broken[:10],
            "known_findings_reproduced": sorted(self.known_hits),
        }
        ev = {"property_id": self.pid, "tier": self.tier, "seed": self.seed, "level": self.level,
              "coverage": cov, "assumptions": self.assumptions, "wall_s": round(time.time() - self.t0, 2),
              "violations": len(self.violations) + (1 if (self.broken and not self.violations) else 0)}
        with open(os.path.join(VERIF, "evidence", "%s.json" % self.pid), "w") as f:
            json.dump(ev, f, indent=1, default=str)
        for l in lines:
            print(l)
        print("%s %s tier=%s seed=%d evaluations=%d distinct=%d obligations=%d/%d wall=%.1fs" % (
            self.pid, "FAIL" if exit_code else "ok", self.tier, self.seed, self.evaluations, len(self.distinct),
            cov["discharged"], cov["obligations"], time.time() - self.t0))
        return exit_code

    def _write_replay(self, kind, case, what, extra=None):
        h = hashlib.sha1(json.dumps([kind, case, what], default=str, sort_keys=True).encode()).hexdigest()[:10]
        path = os.path.join(VERIF, "replays", "%s-%s.json" % (self.pid, h))
        d = {"property": self.pid, "kind": kind, "what": what, "case": case, "seed": self.seed, "tier": self.tier,
             "how_to_run": "cd /verif && ./check %s --replay %s" % (self.pid, path)}
        if extra:
            d.update(extra)
        with open(path, "w") as f:
            json.dump(d, f, indent=1, default=str)
        return path


COMMON_TRUSTED = [
    "Coq 8.16.1 kernel (coqc), vm_compute for reflective/bounded lemmas; no native_compute",
    "extraction to OCaml with ExtrOcamlBasic only (its Extract Inductive for bool,list,option,prod,unit,sumbool) + ocaml/driver.ml glue; a sample is re-evaluated inside Coq each run",
    "the Gallina model is hand-written; it is tied to /repo only by the correspondence runs reported in this file",
]


def gate():
    """grep gate over the whole development: no Admitted/admit/Axiom/Parameter/... anywhere."""
    bad = []
    for f in sorted(os.listdir(COQ)):
        if f.endswith(".v"):
            src = re.sub(r"\(\*.*?\*\)", "", open(os.path.join(COQ, f)).read(), flags=re.S)
            for m in re.findall(r"\b(Admitted|admit|Axiom|Axioms|Parameter|Parameters|Conjecture|Unset Guard Checking|bypass_check|Admit Obligations|type-in-type|impredicative-set)\b", src):
                bad.append("%s:%s" % (f, m))
            if re.search(r"^\s*(Variable|Hypothesis|Variables|Hypotheses)\b", _outside_sections(src), flags=re.M):
                bad.append("%s:Variable-outside-section" % f)
    return bad


def _outside_sections(src):
    out, depth = [], 0
    for line in src.split("\n"):
        if re.match(r"\s*Section\s+\w+\s*\.", line):
            depth += 1
        elif re.match(r"\s*End\s+\w+\s*\.", line) and depth > 0:
            depth -= 1
        elif depth == 0:
            out.append(line)
    return "\n".join(out)
