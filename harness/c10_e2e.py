"""C10 end-to-end knob grid on the real implementation (own oracle of the property)."""


def run(run, suspicious):
    pass
