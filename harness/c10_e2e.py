"""C10 end-to-end knob grid on the real implementation (own oracle of the property)."""
from e2e import canon, try_, _short


def run(run, suspicious):
    import rt
    import numpy as np
    import pandas as pd
    quick = run.tier == "quick"
    n = 60
    rng = run.rng
    pdf = pd.DataFrame({"k": [rng.randint(0, 8) for _ in range(n)], "j": [rng.randint(0, 2) for _ in range(n)],
                        "x": [float(rng.randint(0, 9)) if rng.random() > 0.1 else np.nan for _ in range(n)], "y": [rng.randint(0, 20) for _ in range(n)]})
    small = pd.DataFrame({"k": list(range(9)), "v": [i * 10 for i in range(9)]})
    ncase = 0
    nparts = (1, 3, 9) if quick else (1, 2, 3, 5, 9, 17, 33)     # both sides of split_every / max_branch / broadcast thresholds
    for npart in nparts:
        df = rt.dx.from_pandas(pdf, npartitions=npart)
        dfn = rt.dx.from_pandas(pdf.assign(kn=pdf.k.where(pdf.k % 3 != 0).astype("float64")), npartitions=npart)
        sm1 = rt.dx.from_pandas(small, npartitions=1)
        sm3 = rt.dx.from_pandas(small, npartitions=min(3, npart))
        # (the index must not coincide with the key: a frame partitioned by its index instead of its key would go unnoticed)
        sm3r = rt.dx.from_pandas(small.rename(columns={"k": "id"}).set_axis([(7 * i + 3) % 9 + 20 for i in range(len(small))], axis=0), npartitions=min(3, npart), sort=False)
        queries = {
            # name: (baseline thunk, {variant name: thunk}, ordered, labels)
            "sum": (lambda: df[["x", "y"]].sum(), {"split_every=%s" % s: (lambda s=s: df[["x", "y"]].sum(split_every=s)) for s in (False, 2, 3, 8)}, True, True),
            "mean": (lambda: df.x.mean(), {"split_every=%s" % s: (lambda s=s: df.x.mean(split_every=s)) for s in (False, 2, 8)}, True, True),
            "count-max": (lambda: df.count().sum() + df.y.max(), {"split_every=%s" % s: (lambda s=s: df.count(split_every=s).sum() + df.y.max(split_every=s)) for s in (2, 4)}, True, True),
            "groupby-sum": (lambda: df.groupby("k").x.sum(), dict(
                [("split_every=%s" % s, (lambda s=s: df.groupby("k").x.sum(split_every=s))) for s in (2, 3, 8)] +
                [("split_out=%s" % s, (lambda s=s: df.groupby("k").x.sum(split_out=s))) for s in (1, 2, 4, True)] +
                [("split_out=2,method=%s" % m, (lambda m=m: df.groupby("k").x.sum(split_out=2, shuffle_method=m))) for m in ("tasks", "disk")]), False, True),
            "groupby-agg": (lambda: df.groupby(["k", "j"]).agg({"x": "mean", "y": "max"}), dict(
                [("split_out=%s" % s, (lambda s=s: df.groupby(["k", "j"]).agg({"x": "mean", "y": "max"}, split_out=s))) for s in (1, 3)] +
                [("split_every=%s" % s, (lambda s=s: df.groupby(["k", "j"]).agg({"x": "mean", "y": "max"}, split_every=s))) for s in (2, 5)]), False, True),
            # missing values in the grouping key, kept as a group (dropna=False): every stage of every reduction shape has to keep it
            "groupby-dropna-false-agg": (lambda: dfn.groupby("kn", dropna=False).agg({"x": "sum", "y": "max"}), dict(
                [("split_every=%s" % s, (lambda s=s: dfn.groupby("kn", dropna=False).agg({"x": "sum", "y": "max"}, split_every=s))) for s in (2, 3, 8, False)] +
                [("split_out=%s" % s, (lambda s=s: dfn.groupby("kn", dropna=False).agg({"x": "sum", "y": "max"}, split_out=s))) for s in (1, 2)]), False, True),
            "groupby-dropna-false-sum": (lambda: dfn.groupby("kn", dropna=False).y.sum(), dict(
                [("split_every=%s" % s, (lambda s=s: dfn.groupby("kn", dropna=False).y.sum(split_every=s))) for s in (2, 3, False)] +
                [("split_out=%s" % s, (lambda s=s: dfn.groupby("kn", dropna=False).y.sum(split_out=s))) for s in (1, 2)]), False, True),
            "groupby-dropna-false-mean-var": (lambda: dfn.groupby(["kn", "j"], dropna=False).agg({"y": ["mean", "var", "count"]}), dict(
                [("split_every=%s" % s, (lambda s=s: dfn.groupby(["kn", "j"], dropna=False).agg({"y": ["mean", "var", "count"]}, split_every=s))) for s in (2, 4)] +
                [("split_out=%s" % s, (lambda s=s: dfn.groupby(["kn", "j"], dropna=False).agg({"y": ["mean", "var", "count"]}, split_out=s))) for s in (1, 3)]), False, True),
            "groupby-dropna-true-agg": (lambda: dfn.groupby("kn", dropna=True).agg({"y": "sum"}), {"split_every=%s" % s: (lambda s=s: dfn.groupby("kn", dropna=True).agg({"y": "sum"}, split_every=s)) for s in (2, 3)}, False, True),
            "groupby-first-last": (lambda: df.groupby("k").agg({"y": "first", "x": "last"}), dict(
                [("split_every=%s" % s, (lambda s=s: df.groupby("k").agg({"y": "first", "x": "last"}, split_every=s))) for s in (2, 3)] +
                [("split_out=2,method=%s" % m, (lambda m=m: df.groupby("k").agg({"y": "first", "x": "last"}, split_out=2, shuffle_method=m))) for m in ("tasks", "disk")]), False, True),
            "drop_duplicates-keep-first": (lambda: df.drop_duplicates(subset=["k"], keep="first"), dict(
                [("split_out=%s,method=%s" % (s, m), (lambda s=s, m=m: df.drop_duplicates(subset=["k"], keep="first", split_out=s, shuffle_method=m))) for s in (1, 2) for m in ("tasks", "disk")]), False, True),
            "unique": (lambda: df.k.unique(), {"split_out=%s" % s: (lambda s=s: df.k.unique(split_out=s)) for s in (1, 2, True)}, False, False),
            "drop_duplicates": (lambda: df[["k", "j"]].drop_duplicates(), dict(
                [("split_out=%s" % s, (lambda s=s: df[["k", "j"]].drop_duplicates(split_out=s))) for s in (1, 2, True)] +
                [("split_every=%s" % s, (lambda s=s: df[["k", "j"]].drop_duplicates(split_every=s))) for s in (2, 4)]), False, False),
            "value_counts": (lambda: df.k.value_counts(), {"split_out=%s" % s: (lambda s=s: df.k.value_counts(split_out=s)) for s in (1, 2)}, False, True),
            "nunique": (lambda: df.k.nunique(), {"split_every=%s" % s: (lambda s=s: df.k.nunique(split_every=s)) for s in (2, 3)}, True, True),
            "shuffle": (lambda: df.shuffle("k"), dict(
                [("method=%s,max_branch=%s" % (m, b), (lambda m=m, b=b: df.shuffle("k", shuffle_method=m, **({"max_branch": b} if b else {})))) for m, b in (("tasks", None), ("tasks", 2), ("tasks", 3), ("tasks", 8), ("disk", None))] +
                [("npartitions=%s" % p, (lambda p=p: df.shuffle("k", npartitions=p, shuffle_method="tasks", max_branch=2))) for p in (1, 2, npart + 3)]), False, True),
            "merge": (lambda: df.merge(sm3, on="k"), dict(
                [("broadcast=%s,method=%s" % (b, m), (lambda b=b, m=m: df.merge(sm3, on="k", broadcast=b, shuffle_method=m))) for b in (None, True, False, 0.1, 0.9) for m in ("tasks", "disk")] +
                [("npartitions=%s" % p, (lambda p=p: df.merge(sm3, on="k", npartitions=p, shuffle_method="tasks"))) for p in (1, 2, 7)] +
                [("single-partition-right", (lambda: df.merge(sm1, on="k")))]), False, False),
            "merge-left": (lambda: df.merge(sm3, on="k", how="left"), dict(
                [("broadcast=%s" % b, (lambda b=b: df.merge(sm3, on="k", how="left", broadcast=b, shuffle_method="tasks"))) for b in (True, False, 0.9)] +
                [("broadcast=True,npartitions=%s" % p, (lambda p=p: df.merge(sm3, on="k", how="left", broadcast=True, npartitions=p, shuffle_method="tasks"))) for p in (1, 2, 5)]), False, False),
            "merge-right": (lambda: sm3.merge(df, on="k", how="right"), dict(
                [("broadcast=%s" % b, (lambda b=b: sm3.merge(df, on="k", how="right", broadcast=b, shuffle_method="tasks"))) for b in (True, False)] +
                [("broadcast=True,npartitions=%s" % p, (lambda p=p: sm3.merge(df, on="k", how="right", broadcast=True, npartitions=p, shuffle_method="tasks"))) for p in (1, 2)]), False, False),
            # differently named keys on the two sides
            "merge-left-different-key-names": (lambda: df.merge(sm3r, left_on="k", right_on="id", how="left"), dict(
                [("broadcast=%s,method=%s" % (b, m), (lambda b=b, m=m: df.merge(sm3r, left_on="k", right_on="id", how="left", broadcast=b, shuffle_method=m))) for b in (None, True, False, 0.9) for m in ("tasks", "disk")] +
                [("broadcast=True,npartitions=%s" % p, (lambda p=p: df.merge(sm3r, left_on="k", right_on="id", how="left", broadcast=True, npartitions=p, shuffle_method="tasks"))) for p in (1, 2, 5)]), False, False),
            "merge-right-different-key-names": (lambda: sm3r.merge(df, left_on="id", right_on="k", how="right"), dict(
                [("broadcast=%s" % b, (lambda b=b: sm3r.merge(df, left_on="id", right_on="k", how="right", broadcast=b, shuffle_method="tasks"))) for b in (None, True, False)]), False, False),
            "merge-inner-different-key-names": (lambda: df.merge(sm3r, left_on="k", right_on="id"), dict(
                [("broadcast=%s" % b, (lambda b=b: df.merge(sm3r, left_on="k", right_on="id", broadcast=b, shuffle_method="tasks"))) for b in (None, True, False)]), False, False),
            "merge-leftsemi": (lambda: df.merge(sm3[["k"]], on="k", how="leftsemi"), dict(
                [("broadcast=%s,method=%s" % (b, m), (lambda b=b, m=m: df.merge(sm3[["k"]], on="k", how="leftsemi", broadcast=b, shuffle_method=m))) for b in (None, True, False) for m in ("tasks", "disk")]), False, False),
            "merge-leftsemi-small-left": (lambda: sm3.merge(df[["k"]], on="k", how="leftsemi"), dict(
                [("broadcast=%s" % b, (lambda b=b: sm3.merge(df[["k"]], on="k", how="leftsemi", broadcast=b, shuffle_method="tasks"))) for b in (None, True, False)]), False, False),
            "sort_values": (lambda: df.sort_values(["y", "k", "j", "x"]), dict(
                [("npartitions=%s" % p, (lambda p=p: df.sort_values(["y", "k", "j", "x"], npartitions=p))) for p in (1, 2, 5)] +
                [("upsample=%s" % u, (lambda u=u: df.sort_values(["y", "k", "j", "x"], upsample=u))) for u in (0.5, 2.0)] +
                [("method=%s" % m, (lambda m=m: df.sort_values(["y", "k", "j", "x"], shuffle_method=m))) for m in ("tasks", "disk")]), True, True),
            "set_index": (lambda: df.set_index("y"), dict(
                [("npartitions=%s" % p, (lambda p=p: df.set_index("y", npartitions=p))) for p in (1, 2, 5)] +
                [("upsample=%s" % u, (lambda u=u: df.set_index("y", upsample=u))) for u in (0.5, 2.0)] +
                [("method=%s" % m, (lambda m=m: df.set_index("y", shuffle_method=m))) for m in ("tasks", "disk")]), False, True),
        }
        for qn, (base, variants, ordered, labels) in queries.items():
            b = try_(lambda: base().compute())
            if b[0] == "raise":
                continue
            def cn(x):
                if qn == "sort_values":
                    # rows with completely equal sort keys may come in any order: compare the key sequence and the multiset of rows
                    c1 = canon(x, True, labels)
                    return (c1[0], c1[1], [r[1:] for r in c1[2]], sorted(c1[2], key=repr))
                return canon(x, ordered, labels)
            bc = cn(b[1])
            for vn, thunk in variants.items():
                for fuse in (True, False):
                    if quick and not fuse and hash((qn, vn)) % 3:
                        continue
                    ncase += 1
                    run.count(("knob", npart, qn, vn, fuse))
                    v = try_(lambda: thunk().optimize(fuse=fuse).compute())
                    case = {"kind": "knob", "npartitions": npart, "query": qn, "variant": vn, "fuse": fuse}
                    if v[0] == "raise":
                        run.violation("%s with %s (npartitions=%d, fuse=%s) raises %s; default knobs compute" % (qn, vn, npart, fuse, v[1]), case)
                        continue
                    vc = cn(v[1])
                    if vc != bc:
                        run.violation("%s with %s (npartitions=%d, fuse=%s) differs from the default-knob result: %s vs %s" % (qn, vn, npart, fuse, _short(vc), _short(bc)), case)
    run.section("knob_grid", cases=ncase, partition_counts=list(nparts))
    presorted(run, rt, pdf)
    import minmax
    minmax.presorted_layer(run, rt, quick)
    import c10_counts
    c10_counts.run(run, rt)
    import c10_sorts
    c10_sorts.run(run, rt)


def _ident(p):
    return p


def presorted(run, rt, pdf):
    """set_index / sort_values on input that is already ordered by the key across partitions (unknown divisions), with cuts
    both between and inside runs of equal keys; every knob variant, followed by steps that rely on the reported divisions."""
    import pandas as pd
    quick = run.tier == "quick"
    spdf = pdf.sort_values("y", kind="stable").reset_index(drop=True)
    ys = list(spdf.y)
    inside = [i for i in range(1, len(ys)) if ys[i] == ys[i - 1]]          # a cut here splits a run of equal keys
    between = [i for i in range(1, len(ys)) if ys[i] != ys[i - 1]]
    rng = run.rng
    cutsets = []
    for _ in range(3 if quick else 12):
        k = rng.choice([2, 3, 4])
        cutsets.append(sorted(set(rng.sample(inside, min(len(inside), rng.randint(1, k))) + rng.sample(between, rng.randint(0, 2)))))
    cutsets.append(sorted(rng.sample(between, 3)))
    oracle = spdf.set_index("y")
    ncase = 0
    for cuts in cutsets:
        bounds = [0] + cuts + [len(spdf)]
        pieces = [spdf.iloc[a:b] for a, b in zip(bounds[:-1], bounds[1:])]
        straddle = [ys[c] for c in cuts if ys[c] == ys[c - 1]]
        def src():
            return rt.dx.from_map(_ident, pieces, meta=spdf.iloc[:0])
        np_in = len(pieces)
        variants = dict(
            [("default", lambda: src().set_index("y"))] +
            [("npartitions=%s" % p, (lambda p=p: src().set_index("y", npartitions=p))) for p in (np_in, 1, 2, np_in + 2)] +
            [("upsample=%s" % u, (lambda u=u: src().set_index("y", upsample=u))) for u in (0.5, 2.0)] +
            [("method=%s" % m, (lambda m=m: src().set_index("y", shuffle_method=m))) for m in ("tasks", "disk")] +
            [("sort_values+set_index sorted", lambda: src().sort_values("y").set_index("y", sorted=True))])
        keys = sorted(set(straddle + [ys[0], ys[-1], ys[len(ys) // 2]]))
        lo, hi = keys[0], keys[-1]
        mid = keys[len(keys) // 2]
        steps = dict(
            [("full", (lambda c: c, lambda p: p))] +
            [("loc[%s:%s]" % (k, k), (lambda c, k=k: c.loc[k:k], lambda p, k=k: p.loc[k:k])) for k in keys] +
            [("loc[%s:%s]" % (mid, hi), (lambda c: c.loc[mid:hi], lambda p: p.loc[mid:hi])),
             ("repartition(divisions)", (lambda c: c.repartition(divisions=sorted({ys[0], mid, ys[-1]}), force=True) if c.known_divisions else c, lambda p: p)),   # (unknown divisions are a legitimate layout)
             ("aligned add", (lambda c: (c.x + c.k).to_frame("z"), lambda p: (p.x + p.k).to_frame("z"))),
             ("index", (lambda c: c.index.to_frame(), lambda p: p.index.to_frame()))])
        for vn, thunk in variants.items():
            for sn, (f, g) in steps.items():
                ncase += 1
                run.count(("presorted", tuple(cuts), vn, sn), nontrivial=bool(straddle))
                case = {"kind": "presorted", "cuts": cuts, "variant": vn, "step": sn}
                exp = canon(g(oracle), False, True)
                v = try_(lambda: f(thunk()).compute())
                if v[0] == "raise":
                    run.violation("set_index of presorted pieces (cuts %s, keys straddling %s) with %s then %s raises %s" % (cuts, straddle, vn, sn, v[1]), case)
                    continue
                got = canon(v[1], False, True)
                if got != exp:
                    run.violation("set_index of presorted pieces (cuts %s, keys straddling %s) with %s then %s: %s, pandas gives %s" % (cuts, straddle, vn, sn, _short(got), _short(exp)), case)
    run.section("presorted_set_index", cases=ncase, cutsets=[list(c) for c in cutsets])
