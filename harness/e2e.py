"""End-to-end oracles on the real implementation, shared by the program-level properties
(C01, C02, C04, C06, C07, C09, C14, C19 ...).  Each oracle returns violation records tagged with the
property they belong to; a check only reports its own."""
import math

import numpy as np
import pandas as pd

import gen

STAGES = ["simplified-logical", "tuned-logical", "physical", "simplified-physical", "fused"]


def _norm(v):
    if v is None or v is pd.NA or v is pd.NaT:
        return None
    if isinstance(v, (float, np.floating)):
        if math.isnan(v):
            return None
        if float(v).is_integer():
            return int(v)
        return round(float(v), 9)
    if isinstance(v, (np.integer,)):
        return int(v)
    if isinstance(v, (bool, np.bool_)):
        return int(v)
    if isinstance(v, pd.Timestamp):
        return str(v)
    if isinstance(v, tuple):            # labels of a MultiIndex (a missing level value is NaN != NaN)
        return tuple(_norm(x) for x in v)
    return v


def canon(obj, ordered=True, labels=True):
    """Canonical, comparable form of a pandas result.  labels=False: index labels are undefined (dropped)."""
    if not labels and isinstance(obj, (pd.DataFrame, pd.Series)):
        obj = obj.reset_index(drop=True)
        c = canon(obj, True, True)
        rows = [r[1:] for r in c[2]]
        return (c[0], c[1], sorted(rows, key=repr) if not ordered else rows)
    if isinstance(obj, pd.DataFrame):
        rows = [(_norm(i),) + tuple(_norm(x) for x in r) for i, r in zip(obj.index.tolist(), obj.itertuples(index=False, name=None))]
        if not ordered:
            rows = sorted(rows, key=repr)
        return ("frame", tuple(str(c) for c in obj.columns), rows)
    if isinstance(obj, pd.Series):
        rows = [(_norm(i), _norm(x)) for i, x in zip(obj.index.tolist(), obj.tolist())]
        if not ordered:
            rows = sorted(rows, key=repr)
        return ("series", None if obj.name is None else str(obj.name), rows)
    if isinstance(obj, pd.Index):
        vals = [_norm(x) for x in obj.tolist()]
        return ("index", None if obj.name is None else str(obj.name), vals if ordered else sorted(vals, key=repr))
    return ("scalar", _norm(obj))


def exec_expr(e):
    """Partitions of a (lowered) expression, by executing its graph synchronously.  Like FrameBase.__dask_graph__ the plan is
    lowered completely first (a no-op on a physical plan, except where the last simplify pass of the optimizer left a logical
    node such as an alignment behind: such a plan is valid, the public materialization path lowers it)."""
    import dask
    e = e.lower_completely()
    return list(dask.get(e.__dask_graph__(), e.__dask_keys__()))


def concat_parts(parts):
    if parts and isinstance(parts[0], (pd.DataFrame, pd.Series, pd.Index)):
        if isinstance(parts[0], pd.Index):
            out = parts[0]
            for p in parts[1:]:
                out = out.append(p)
            return out
        if len(parts) == 1:
            return parts[0]
        return pd.concat(parts)
    assert len(parts) == 1, "scalar result with %d partitions" % len(parts)
    return parts[0]


def stage_expr(expr, stage):
    from dask_expr._expr import optimize_until
    e = optimize_until(expr, stage)
    if stage in ("simplified-logical", "tuned-logical"):
        e = e.lower_completely()
    return e


def try_(f):
    try:
        return ("ok", f())
    except Exception as ex:  # noqa
        return ("raise", "%s: %s" % (type(ex).__name__, str(ex)[:200]))


def build_sources(tables, layout, rt):
    """layout: {"t0": ("npartitions", k) | ("cuts", [positions]) | ("unknown", k)}"""
    out = {}
    for t, pdf in tables.items():
        kind, arg = layout.get(t, ("npartitions", 2))
        if kind == "npartitions":
            out[t] = rt.dx.from_pandas(pdf, npartitions=arg, sort=True)
        elif kind == "unknown":
            out[t] = rt.dx.from_pandas(pdf, npartitions=arg, sort=False).clear_divisions()
        elif kind == "cuts":
            # arbitrary cuts (incl. empty partitions) via from_map over explicit pieces: unknown divisions
            pieces = cut_pieces(pdf, arg)
            out[t] = rt.dx.from_map(_piece, list(range(len(pieces))), args=[_Pieces(pieces)], meta=pdf.iloc[:0])
        elif kind == "divisions":
            out[t] = rt.dx.repartition(pdf, list(arg))
        else:
            raise KeyError(kind)
    return out


class _Pieces:
    """Holder with a stable token so that names are deterministic."""

    def __init__(self, pieces):
        self.pieces = pieces

    def __dask_tokenize__(self):
        from dask.base import tokenize
        return ("pieces", [tokenize(p) for p in self.pieces])


def _piece(i, holder):
    return holder.pieces[i]


def cut_pieces(pdf, cuts):
    bounds = [0] + list(cuts) + [len(pdf)]
    return [pdf.iloc[a:b] for a, b in zip(bounds, bounds[1:])]


def check_program(prog, tables, layout, rt, props, widen=None):
    """Run all requested oracles for one (program, data, layout).  Returns (violations, stats)."""
    vio = []
    stats = {}
    src = build_sources(tables, layout, rt)
    ordered = prog["ordered"]
    labels = prog.get("labels", True)
    _canon = canon
    def canon_(o, ord_=True):
        return _canon(o, ord_, labels)
    try:
        env = gen.run_program(prog, src, True)
    except Exception as ex:
        # building the query itself fails: compare with pandas (both must fail)
        pr = try_(lambda: gen.run_program(prog, tables, False)[prog["result"]])
        if pr[0] == "ok":
            vio.append({"prop": "C02", "what": "building the query raises %s: %s but pandas computes it" % (type(ex).__name__, str(ex)[:120])})
        stats["build_failed"] = 1
        return vio, stats
    coll = env[prog["result"]]
    expr = coll.expr
    pref = try_(lambda: gen.run_program(prog, tables, False)[prog["result"]])
    # reference: lowered without any optimization
    un = try_(lambda: exec_expr(expr.lower_completely()))
    if un[0] == "ok":
        un_c = try_(lambda: canon_(concat_parts(un[1]), ordered))
    else:
        un_c = un
    stats["unopt_ok"] = int(un_c[0] == "ok")
    staged = {}
    for st in STAGES:
        r = try_(lambda st=st: stage_expr(expr, st))
        staged[st] = r
    # ---- C01: every stage computes what the unoptimized plan computes
    if "C01" in props or "C19" in props:
        for st in STAGES:
            r = staged[st]
            if r[0] == "raise":
                if un_c[0] == "ok":
                    vio.append({"prop": "C19" if "does not converge" in r[1] else "C01", "stage": st, "what": "optimizer raises at stage %s (%s) but the unoptimized query computes" % (st, r[1])})
                continue
            res = try_(lambda r=r: canon_(concat_parts(exec_expr(r[1])), ordered))
            if un_c[0] == "ok":
                if res[0] == "raise":
                    vio.append({"prop": "C01", "stage": st, "what": "optimized plan (%s) fails: %s; unoptimized succeeds" % (st, res[1])})
                elif res[1] != un_c[1]:
                    vio.append({"prop": "C01", "stage": st, "what": "stage %s result differs from unoptimized: %s vs %s" % (st, _short(res[1]), _short(un_c[1]))})
    # ---- C02: equals pandas
    if "C02" in props:
        if pref[0] == "ok":
            pc = canon_(pref[1], ordered)
            if un_c[0] == "ok" and un_c[1] != pc and not _dtype_only(un_c[1], pc):
                vio.append({"prop": "C02", "what": "result differs from pandas: %s vs pandas %s" % (_short(un_c[1]), _short(pc))})
            fin = staged["fused"]
            if fin[0] == "ok":
                res = try_(lambda: canon_(concat_parts(exec_expr(fin[1])), ordered))
                if res[0] == "ok" and res[1] != pc:
                    vio.append({"prop": "C02", "what": "optimized result differs from pandas: %s vs pandas %s" % (_short(res[1]), _short(pc))})
                elif res[0] == "raise":
                    vio.append({"prop": "C02", "what": "query fails (%s) but pandas computes it" % res[1]})
    # ---- C14: fusion leaves partitions, divisions, meta unchanged
    if "C14" in props:
        a, b = staged["simplified-physical"], staged["fused"]
        if a[0] == "ok" and b[0] == "ok":
            pa, pb = try_(lambda: exec_expr(a[1])), try_(lambda: exec_expr(b[1]))
            if pa[0] == "ok" and pb[0] == "ok":
                if len(pa[1]) != len(pb[1]) or a[1].npartitions != b[1].npartitions:
                    vio.append({"prop": "C14", "what": "fusion changes npartitions %d -> %d" % (len(pa[1]), len(pb[1]))})
                else:
                    for i, (x, y) in enumerate(zip(pa[1], pb[1])):
                        if canon(x, ordered) != canon(y, ordered):
                            vio.append({"prop": "C14", "what": "fusion changes partition %d: %s vs %s" % (i, _short(canon(y, ordered)), _short(canon(x, ordered)))})
                            break
                if tuple(a[1].divisions) != tuple(b[1].divisions):
                    vio.append({"prop": "C14", "what": "fusion changes divisions %s -> %s" % (a[1].divisions, b[1].divisions)})
                if not _meta_equal(a[1]._meta, b[1]._meta):
                    vio.append({"prop": "C14", "what": "fusion changes meta"})
            elif pa[0] == "ok" and pb[0] == "raise":
                vio.append({"prop": "C14", "what": "fused plan fails: %s" % pb[1]})
            stats["fused_nodes"] = sum(1 for n in b[1].walk() if type(n).__name__ == "Fused")
    # ---- C06 / C07 on every program variable and the final plans
    if "C06" in props or "C07" in props:
        for v, c in env.items():
            if not hasattr(c, "expr"):
                continue
            for stage_name, e in (("logical", c.expr),):
                vio += node_truth(v, e, props, stage_name)
        for st in ("simplified-physical", "fused"):
            if staged[st][0] == "ok":
                vio += node_truth(prog["result"], staged[st][1], props, st, lowered=True)
    # ---- C19: deterministic and idempotent
    if "C19" in props:
        from dask_expr._expr import optimize
        o1 = try_(lambda: optimize(expr))
        o2 = try_(lambda: optimize(expr))
        if o1[0] == "ok" and o2[0] == "ok":
            if o1[1]._name != o2[1]._name:
                vio.append({"prop": "C19", "what": "optimize() is not deterministic: %s vs %s" % (o1[1]._name, o2[1]._name)})
            o3 = try_(lambda: optimize(o1[1]))
            if o3[0] == "raise":
                vio.append({"prop": "C19", "what": "optimizing an optimized plan raises %s" % o3[1]})
            elif un_c[0] == "ok":
                r3 = try_(lambda: canon_(concat_parts(exec_expr(o3[1])), ordered))
                if r3[0] == "raise" or r3[1] != un_c[1]:
                    vio.append({"prop": "C19", "what": "optimize(optimize(q)) result differs: %s" % (_short(r3[1]),)})
        elif o1[0] == "raise" and "does not converge" in o1[1]:
            vio.append({"prop": "C19", "what": o1[1]})
    stats["stages_ok"] = sum(1 for s in STAGES if staged[s][0] == "ok")
    stats["staged"] = staged
    stats["expr"] = expr
    return vio, stats


def node_truth(v, e, props, stage, lowered=False):
    """C06: divisions / npartitions truthful;  C07: _meta matches computed data, per partition."""
    out = []
    le = e if lowered else None
    try:
        le = e if lowered else e.lower_completely()
        parts = exec_expr(le)
    except Exception:
        return out
    if "C06" in props:
        nrep = try_(lambda: e.npartitions)
        if nrep[0] == "ok" and nrep[1] != len(parts):
            out.append({"prop": "C06", "what": "%s@%s reports npartitions=%s but computes %d partitions" % (v, stage, nrep[1], len(parts))})
        divs = try_(lambda: tuple(e.divisions))
        if divs[0] == "ok" and len(divs[1]) and divs[1][0] is not None and isinstance(parts[0], (pd.DataFrame, pd.Series, pd.Index)):
            d = divs[1]
            if len(d) != len(parts) + 1:
                out.append({"prop": "C06", "what": "%s@%s has %d divisions for %d partitions" % (v, stage, len(d), len(parts))})
            elif any(d[i] > d[i + 1] for i in range(len(d) - 1)):
                out.append({"prop": "C06", "what": "%s@%s divisions not sorted: %s" % (v, stage, d)})
            else:
                for i, p in enumerate(parts):
                    idx = p if isinstance(p, pd.Index) else p.index
                    if len(idx) == 0:
                        continue
                    lo, hi = idx.min(), idx.max()
                    last = i == len(parts) - 1
                    if lo < d[i] or hi > d[i + 1] or (hi == d[i + 1] and not last):
                        out.append({"prop": "C06", "what": "%s@%s partition %d holds index [%s,%s] outside divisions [%s,%s%s" % (
                            v, stage, i, lo, hi, d[i], d[i + 1], "]" if last else ")")})
                        break
    if "C07" in props:
        meta = try_(lambda: e._meta)
        if meta[0] == "ok":
            m = meta[1]
            for i, p in enumerate(parts):
                msg = meta_mismatch(m, p)
                if msg:
                    out.append({"prop": "C07", "what": "%s@%s partition %d: %s" % (v, stage, i, msg)})
                    break
    return out


def kind_of_dtype(dt):
    s = str(dt)
    if s.startswith(("int", "uint", "Int", "UInt")):
        return "int"
    if s.startswith(("float", "Float")):
        return "float"
    if s.startswith("bool"):
        return "bool"
    if s.startswith("datetime"):
        return "datetime"
    if s.startswith("category"):
        return "category"
    if s in ("object", "string", "str") or s.startswith("string") or "str" in s:
        return "str"
    return s


def _promotes(meta_kind, data_kind):
    """pandas' own promotion of int/bool columns that acquire missing values, or empty-partition defaults."""
    return (meta_kind, data_kind) in {("int", "float"), ("bool", "float"), ("bool", "str"), ("int", "str")}


def meta_mismatch(m, p):
    if isinstance(m, pd.DataFrame):
        if not isinstance(p, pd.DataFrame):
            return "meta is a DataFrame, data is %s" % type(p).__name__
        if list(m.columns) != list(p.columns):
            return "meta columns %s != data columns %s" % (list(m.columns), list(p.columns))
        for c in m.columns:
            km, kp = kind_of_dtype(m[c].dtype), kind_of_dtype(p[c].dtype)
            if km != kp and not _promotes(km, kp) and len(p):
                return "column %r: meta dtype %s, data dtype %s" % (c, m[c].dtype, p[c].dtype)
        if m.index.name != p.index.name:
            return "index name meta %r != data %r" % (m.index.name, p.index.name)
        return None
    if isinstance(m, pd.Series):
        if not isinstance(p, pd.Series):
            return "meta is a Series, data is %s" % type(p).__name__
        if m.name != p.name:
            return "series name meta %r != data %r" % (m.name, p.name)
        km, kp = kind_of_dtype(m.dtype), kind_of_dtype(p.dtype)
        if km != kp and not _promotes(km, kp) and len(p):
            return "series dtype meta %s, data %s" % (m.dtype, p.dtype)
        return None
    if isinstance(m, pd.Index):
        if not isinstance(p, pd.Index):
            return "meta is an Index, data is %s" % type(p).__name__
        if m.name != p.name:
            return "index name meta %r != data %r" % (m.name, p.name)
        return None
    if isinstance(p, (pd.DataFrame, pd.Series, pd.Index)):
        return "meta is a scalar (%s), data is %s" % (type(m).__name__, type(p).__name__)
    return None


def _meta_equal(a, b):
    if type(a) != type(b):
        return False
    if isinstance(a, pd.DataFrame):
        return list(a.columns) == list(b.columns) and [str(x) for x in a.dtypes] == [str(x) for x in b.dtypes] and a.index.name == b.index.name
    if isinstance(a, pd.Series):
        return a.name == b.name and str(a.dtype) == str(b.dtype)
    return True


def _dtype_only(a, b):
    return False


def _short(c):
    s = repr(c)
    return s if len(s) < 220 else s[:220] + "..."
