"""Seeded generator of query programs over the public DataFrame API, with tracked schema.

A program is a list of steps  {"out": v, "op": name, "in": [vars], "args": {...}}  over variables; variable
"t0", "t1" are the source tables.  The same program is interpreted on pandas objects (the meaning) and on
dask-expr collections (the implementation) by `run_program`.  Every random choice derives from one
random.Random so that a case replays exactly from (seed, index)."""
import random

import numpy as np
import pandas as pd

# ----------------------------------------------------------------------------- data


def make_tables(rng, nrows=12, nulls=0.0, n_tables=2, strings=False):
    """Small integer-valued tables (floats only hold integral values, so sums are exact)."""
    tabs = {}
    for t in range(n_tables):
        n = nrows if t == 0 else max(3, nrows - 3)
        d = {}
        names = ["a", "b", "c", "d"] if t == 0 else ["a", "e", "b"]
        for c in names:
            v = np.array([rng.randint(0, 5) for _ in range(n)], dtype="float64" if nulls else "int64")
            if nulls:
                for i in range(n):
                    if rng.random() < nulls:
                        v[i] = np.nan
            d[c] = v
        if strings and t == 0:
            d["s"] = np.array(["w%d" % rng.randint(0, 3) for _ in range(n)], dtype=object)
        tabs["t%d" % t] = pd.DataFrame(d, index=pd.RangeIndex(n))
    return tabs


# ----------------------------------------------------------------------------- program generation

NUMERIC_OPS = ["add", "sub", "mul"]
CMP = ["lt", "le", "gt", "ge", "eq", "ne"]


class Var:  # unique_index: index labels of the rows are defined (False after merge/groupby/concat/...)
    """Static knowledge about a program variable."""

    def __init__(self, kind, cols=None, name=None, base=None, ordered=True, rows="t0", boolean=False, numeric=None, unique_index=True):
        self.kind = kind          # "frame" | "series" | "scalar"
        self.cols = cols          # frame: list of labels
        self.name = name          # series name
        self.base = base          # variable whose rows this one shares (co-aligned, same row set) -- itself if it defines a row set
        self.ordered = ordered    # row order is defined
        self.rows = rows
        self.boolean = boolean
        self.numeric = numeric if numeric is not None else (cols if cols else [])
        self.unique_index = unique_index


class ProgGen:
    def __init__(self, rng, profile="l1", max_steps=6, tables=None):
        self.rng = rng
        self.profile = profile
        self.max_steps = max_steps
        self.steps = []
        self.vars = {}
        self.counter = 0
        self.tables = tables

    def fresh(self):
        self.counter += 1
        return "v%d" % self.counter

    def add(self, op, ins, args, var):
        out = self.fresh()
        if op != "set_index" and var.kind != "scalar" and var.rows != "cols":
            for v in ins:
                if v in self.vars and not self.vars[v].unique_index:
                    var.unique_index = False
        self.steps.append({"out": out, "op": op, "in": ins, "args": args})
        self.vars[out] = var
        if var.base is None:
            var.base = out
        return out

    def frames(self):
        return [v for v, i in self.vars.items() if i.kind == "frame" and len(i.cols) >= 1]

    def pick_frame(self, recent=0.75):
        """Mostly the most recent frame (chains), sometimes any earlier one (shared sub-expressions, diamonds)."""
        fs = self.frames()
        if self.rng.random() < recent:
            return fs[-1]
        return self.rng.choice(fs)

    def pred(self, fv, depth=0):
        """A boolean series over the rows of frame variable fv (built from fv itself)."""
        r = self.rng
        info = self.vars[fv]
        numeric = [c for c in info.cols if c in info.numeric]
        if not numeric:
            return None
        choice = r.random()
        if depth < 2 and choice < 0.35:
            a = self.pred(fv, depth + 1)
            b = self.pred(fv, depth + 1)
            if a is None or b is None:
                return a or b
            return self.add(r.choice(["and", "or"]), [a, b], {}, Var("series", name=None, base=info.base, boolean=True, rows=info.rows))
        if depth < 2 and choice < 0.42:
            a = self.pred(fv, depth + 1)
            if a is None:
                return None
            return self.add("invert", [a], {}, Var("series", name=None, base=info.base, boolean=True, rows=info.rows))
        c = r.choice(numeric)
        s = self.add("getcol", [fv], {"col": c}, Var("series", name=c, base=info.base, rows=info.rows))
        if choice < 0.5:
            return self.add("isna" if r.random() < 0.5 else "notnull", [s], {}, Var("series", name=c, base=info.base, boolean=True, rows=info.rows))
        if choice < 0.65 and len(numeric) > 1:
            c2 = r.choice([x for x in numeric if x != c])
            s2 = self.add("getcol", [fv], {"col": c2}, Var("series", name=c2, base=info.base, rows=info.rows))
            return self.add(r.choice(CMP), [s, s2], {}, Var("series", name=None, base=info.base, boolean=True, rows=info.rows))
        return self.add(r.choice(CMP) + "_lit", [s], {"lit": r.randint(0, 4)}, Var("series", name=c, base=info.base, boolean=True, rows=info.rows))

    def series_of(self, fv):
        """A numeric series over the rows of frame fv."""
        r = self.rng
        info = self.vars[fv]
        numeric = [c for c in info.cols if c in info.numeric]
        if not numeric:
            return None
        c = r.choice(numeric)
        s = self.add("getcol", [fv], {"col": c}, Var("series", name=c, base=info.base, rows=info.rows))
        k = r.random()
        if k < 0.3:
            s = self.add(r.choice(NUMERIC_OPS) + "_lit", [s], {"lit": r.randint(1, 3)}, Var("series", name=c, base=info.base, rows=info.rows))
        elif k < 0.5 and len(numeric) > 1:
            c2 = r.choice(numeric)
            s2 = self.add("getcol", [fv], {"col": c2}, Var("series", name=c2, base=info.base, rows=info.rows))
            s = self.add(r.choice(NUMERIC_OPS), [s, s2], {}, Var("series", name=(c if c == c2 else None), base=info.base, rows=info.rows))
        return s

    def step_frame(self):
        """One frame -> frame production."""
        r = self.rng
        fv = self.pick_frame()
        info = self.vars[fv]
        ops = ["proj", "filter", "binlit", "assign", "fillna", "rename", "drop", "abs", "filter"]
        if self.profile in ("l2", "l3"):
            ops += ["repartition", "shuffle", "sort_values", "astype"]
        if self.profile == "l3":
            ops += ["cumsum", "shift", "merge", "groupby_sum", "concat_self", "drop_duplicates", "set_index", "reset_index"]
        op = r.choice(ops)
        if op == "proj":
            k = r.randint(1, len(info.cols))
            cs = r.sample(info.cols, k)
            return self.add("proj", [fv], {"cols": cs}, Var("frame", cols=cs, base=info.base, ordered=info.ordered, rows=info.rows,
                                                           numeric=[c for c in cs if c in info.numeric]))
        if op == "filter":
            p = self.pred(fv)
            if p is None:
                return None
            v = Var("frame", cols=list(info.cols), base=None, ordered=info.ordered, rows=info.rows, numeric=list(info.numeric))
            return self.add("filter", [fv, p], {}, v)
        if op == "binlit":
            if set(info.cols) - set(info.numeric):
                return None
            return self.add(r.choice(NUMERIC_OPS) + "_lit", [fv], {"lit": r.randint(1, 3)},
                            Var("frame", cols=list(info.cols), base=info.base, ordered=info.ordered, rows=info.rows, numeric=list(info.numeric)))
        if op == "assign":
            s = self.series_of(fv)
            if s is None:
                return None
            key = r.choice(["z", "y"] + info.cols[:1])
            cols = list(info.cols) + ([key] if key not in info.cols else [])
            return self.add("assign", [fv, s], {"key": key}, Var("frame", cols=cols, base=info.base, ordered=info.ordered, rows=info.rows,
                                                                numeric=list(dict.fromkeys(info.numeric + [key]))))
        if op == "fillna":
            if set(info.cols) - set(info.numeric):
                return None
            return self.add("fillna", [fv], {"value": r.randint(0, 3)}, Var("frame", cols=list(info.cols), base=info.base, ordered=info.ordered,
                                                                          rows=info.rows, numeric=list(info.numeric)))
        if op == "abs":
            if set(info.cols) - set(info.numeric):
                return None
            return self.add("abs", [fv], {}, Var("frame", cols=list(info.cols), base=info.base, ordered=info.ordered, rows=info.rows, numeric=list(info.numeric)))
        if op == "rename":
            c = r.choice(info.cols)
            new = c + "_r"
            if new in info.cols:
                return None
            cols = [new if x == c else x for x in info.cols]
            return self.add("rename", [fv], {"map": {c: new}}, Var("frame", cols=cols, base=info.base, ordered=info.ordered, rows=info.rows,
                                                                  numeric=[new if x == c else x for x in info.numeric]))
        if op == "drop":
            if len(info.cols) < 2:
                return None
            c = r.choice(info.cols)
            cols = [x for x in info.cols if x != c]
            return self.add("drop", [fv], {"cols": [c]}, Var("frame", cols=cols, base=info.base, ordered=info.ordered, rows=info.rows,
                                                            numeric=[x for x in info.numeric if x != c]))
        if op == "repartition":
            return self.add("repartition", [fv], {"npartitions": r.randint(1, 5)}, Var("frame", cols=list(info.cols), base=None, ordered=info.ordered,
                                                                                      rows=info.rows, numeric=list(info.numeric)))
        if op == "shuffle":
            c = r.choice(info.cols)
            return self.add("shuffle", [fv], {"on": c, "npartitions": r.choice([None, 2, 4]), "method": r.choice(["tasks", "disk"])},
                            Var("frame", cols=list(info.cols), base=None, ordered=False, rows=info.rows, numeric=list(info.numeric)))
        if op == "sort_values":
            c = r.choice(info.cols)
            return self.add("sort_values", [fv], {"by": c}, Var("frame", cols=list(info.cols), base=None, ordered=False, rows=info.rows, numeric=list(info.numeric)))
        if op in ("cumsum", "shift"):
            if not info.ordered or set(info.cols) - set(info.numeric):
                return None
            return self.add(op, [fv], {"periods": r.choice([1, 2])} if op == "shift" else {}, Var("frame", cols=list(info.cols), base=info.base, ordered=True, rows=info.rows, numeric=list(info.numeric)))
        if op == "merge":
            if "t1" not in self.vars or "a" not in info.cols:
                return None
            how = r.choice(["inner", "left", "outer", "right"])
            o = self.vars["t1"]
            cols = []
            for c in info.cols:
                cols.append(c if (c == "a" or c not in o.cols) else c + "_x")
            for c in o.cols:
                if c != "a":
                    cols.append(c if c not in info.cols else c + "_y")
            return self.add("merge", [fv, "t1"], {"on": "a", "how": how}, Var("frame", cols=cols, base=None, ordered=False, rows="m", numeric=list(cols), unique_index=False))
        if op == "groupby_sum":
            if len(info.cols) < 2 or set(info.cols) - set(info.numeric):
                return None
            k = r.choice(info.cols)
            rest = [c for c in info.cols if c != k]
            return self.add("groupby_sum", [fv], {"by": k, "split_out": r.choice([1, 1, 2])}, Var("frame", cols=[k] + rest, base=None, ordered=False, rows="g", numeric=[k] + rest, unique_index=False))
        if op == "concat_self":
            return self.add("concat_self", [fv], {}, Var("frame", cols=list(info.cols), base=None, ordered=False, rows="c", numeric=list(info.numeric), unique_index=False))
        if op == "drop_duplicates":
            c = r.choice(info.cols)
            return self.add("drop_duplicates", [fv], {"subset": [c]}, Var("frame", cols=[c], base=None, ordered=False, rows="d", numeric=[x for x in [c] if x in info.numeric], unique_index=False))
        if op == "set_index":
            if not info.numeric or len(info.cols) < 2:
                return None
            c = r.choice(info.numeric)
            cols = [x for x in info.cols if x != c]
            return self.add("set_index", [fv], {"col": c}, Var("frame", cols=cols, base=None, ordered=False, rows=info.rows, numeric=[x for x in info.numeric if x != c], unique_index=True))
        if op == "reset_index":
            return None
        if op == "astype":
            c = r.choice(info.numeric) if info.numeric else None
            if c is None:
                return None
            return self.add("astype", [fv], {"map": {c: "float64"}}, Var("frame", cols=list(info.cols), base=info.base, ordered=info.ordered, rows=info.rows,
                                                                        numeric=list(info.numeric)))
        return None

    def final(self):
        """Optionally end with a reduction / single column."""
        r = self.rng
        fv = self.pick_frame(0.9)
        info = self.vars[fv]
        k = r.random()
        if k < 0.35:
            return fv
        if k < 0.5:
            c = r.choice(info.cols)
            return self.add("getcol", [fv], {"col": c}, Var("series", name=c, base=info.base, ordered=info.ordered, rows=info.rows))
        numeric_only = not (set(info.cols) - set(info.numeric))
        if k < 0.9 and numeric_only:
            red = r.choice(["sum", "count", "max", "min", "mean"])
            return self.add(red, [fv], {}, Var("series", name=None, ordered=True, rows="cols"))
        if k < 0.95:
            return self.add("len", [fv], {}, Var("scalar"))
        s = self.series_of(fv)
        if s is None:
            return fv
        return self.add(r.choice(["sum", "count", "max", "min"]), [s], {}, Var("scalar"))

    def generate(self, table_cols):
        for t, cols in table_cols.items():
            self.vars[t] = Var("frame", cols=list(cols), base=t, rows=t, numeric=[c for c in cols if c != "s"])
        n = self.rng.randint(1, self.max_steps)
        tries = 0
        made = 0
        while made < n and tries < 4 * n:
            tries += 1
            if self.step_frame() is not None:
                made += 1
        res = self.final()
        return {"steps": self.steps, "result": res, "ordered": self.vars[res].ordered, "kind": self.vars[res].kind,
                "labels": self.vars[res].unique_index}


# ----------------------------------------------------------------------------- interpretation

_PYOP = {"add": "__add__", "sub": "__sub__", "mul": "__mul__", "lt": "__lt__", "le": "__le__", "gt": "__gt__", "ge": "__ge__",
         "eq": "__eq__", "ne": "__ne__", "and": "__and__", "or": "__or__"}


def apply_step(step, env, is_dask):
    op, a = step["op"], step["args"]
    x = [env[v] for v in step["in"]]
    if op == "proj":
        return x[0][list(a["cols"])]
    if op == "getcol":
        return x[0][a["col"]]
    if op == "filter":
        return x[0][x[1]]
    if op.endswith("_lit"):
        return getattr(x[0], _PYOP[op[:-4]])(a["lit"])
    if op in _PYOP:
        return getattr(x[0], _PYOP[op])(x[1])
    if op == "invert":
        return ~x[0]
    if op == "isna":
        return x[0].isna()
    if op == "notnull":
        return x[0].notnull()
    if op == "assign":
        return x[0].assign(**{a["key"]: x[1]})
    if op == "fillna":
        return x[0].fillna(a["value"])
    if op == "abs":
        return x[0].abs()
    if op == "rename":
        return x[0].rename(columns=a["map"])
    if op == "drop":
        return x[0].drop(columns=a["cols"])
    if op == "astype":
        return x[0].astype(a["map"])
    if op in ("sum", "count", "max", "min", "mean"):
        return getattr(x[0], op)()
    if op == "len":
        return len(x[0]) if not is_dask else x[0].size // max(1, len(x[0].columns)) if False else _dask_len(x[0])
    if op == "repartition":
        return x[0].repartition(npartitions=a["npartitions"]) if is_dask else x[0]
    if op == "shuffle":
        return x[0].shuffle(a["on"], npartitions=a["npartitions"], shuffle_method=a["method"]) if is_dask else x[0]
    if op == "sort_values":
        return x[0].sort_values(a["by"])
    if op == "cumsum":
        return x[0].cumsum()
    if op == "shift":
        return x[0].shift(a["periods"])
    if op == "merge":
        return x[0].merge(x[1], on=a["on"], how=a["how"])
    if op == "groupby_sum":
        if is_dask:
            return x[0].groupby(a["by"]).sum(split_out=a["split_out"]).reset_index()
        return x[0].groupby(a["by"]).sum().reset_index()
    if op == "concat_self":
        if is_dask:
            import dask_expr as dx
            return dx.concat([x[0], x[0]])
        return pd.concat([x[0], x[0]])
    if op == "drop_duplicates":
        return x[0][a["subset"]].drop_duplicates()
    if op == "set_index":
        return x[0].set_index(a["col"]) if is_dask else x[0].set_index(a["col"]).sort_index(kind="stable")
    raise KeyError(op)


class _LenMarker:
    """len() is eager in the public API; keep the lazy expression instead."""

    def __init__(self, coll):
        self.coll = coll


def _dask_len(coll):
    import dask_expr as dx
    from dask_expr._reductions import Len
    return dx.new_collection(Len(coll.expr))


def run_program(prog, sources, is_dask):
    """Interpret the program; returns the environment of all variables."""
    env = dict(sources)
    for st in prog["steps"]:
        env[st["out"]] = apply_step(st, env, is_dask)
    return env


def describe(prog):
    out = []
    for st in prog["steps"]:
        out.append("%s=%s(%s%s)" % (st["out"], st["op"], ",".join(st["in"]), ("," + repr(st["args"])) if st["args"] else ""))
    return "; ".join(out) + " -> " + prog["result"]
