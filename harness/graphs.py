"""Real task graphs: export to coq/Graph.v (keys numbered, candidate topological order), structural
validation (closed / acyclic / unambiguous / no planner objects), schedule-randomised execution with
input-mutation detection."""
import pickle

import numpy as np
import pandas as pd

from common import sx


def ishashable(x):
    try:
        hash(x)
        return True
    except TypeError:
        return False


def refs(task, keyset, out=None):
    """Keys of `keyset` referenced by a task (dask.core semantics: hashable leaves that are keys)."""
    if out is None:
        out = set()
    if ishashable(task) and task in keyset and not isinstance(task, (int, float, bool)):
        out.add(task)
        return out
    if isinstance(task, (tuple, list)):
        for t in task:
            refs(t, keyset, out)
    elif isinstance(task, dict):
        for t in task.values():
            refs(t, keyset, out)
    return out


def keylike(task, names, out=None):
    """Tuples that look like keys of this plan: (name, int, ...) with name among the plan's names."""
    if out is None:
        out = set()
    if isinstance(task, tuple) and task and isinstance(task[0], str) and task[0] in names and len(task) >= 2 and all(isinstance(x, (int, tuple, str)) for x in task[1:]) and ishashable(task) \
            and not (len(task) == 3 and task[1] == "_dep"):      # (fused name, "_dep", i): placeholder bound by Fused._execute_task inside the embedded sub-graph
        out.add(task)
    if isinstance(task, (tuple, list)):
        for t in task:
            keylike(t, names, out)
    elif isinstance(task, dict):
        for t in task.values():
            keylike(t, names, out)
    return out


def planner_objects(task, out=None, depth=0):
    from dask_expr._core import Expr
    from dask_expr._collection import FrameBase
    if out is None:
        out = []
    if isinstance(task, (Expr, FrameBase)):
        out.append(type(task).__name__)
    elif isinstance(task, (tuple, list)) and depth < 12:
        for t in task:
            planner_objects(t, out, depth + 1)
    elif isinstance(task, dict) and depth < 12:
        for k, t in task.items():
            planner_objects(t, out, depth + 1)
    return out


def analyse(expr):
    """Structural analysis of the graph of `expr`.  Returns dict with problems (list of strings) and the export."""
    problems = []
    graph = expr.__dask_graph__()
    outs = expr.__dask_keys__()
    keyset = set(graph)
    # (d) no two expressions contribute different tasks under one key
    seen = {}
    names = set()
    for e in expr.walk():
        names.add(e._name)
        layer = e._layer()
        for k, t in layer.items():
            if isinstance(k, tuple) and isinstance(k[0], str):
                names.add(k[0])
            if k in seen and seen[k][0] != e._name:
                if not task_equal(seen[k][1], t):
                    problems.append("key %r defined with different tasks by %s and %s" % (k, seen[k][0], e._name))
            seen[k] = (e._name, t)
    # (a) outputs defined
    for o in outs:
        if o not in keyset:
            problems.append("output key %r is not defined in the graph" % (o,))
    if len(outs) != expr.npartitions:
        problems.append("%d output keys for npartitions=%d" % (len(outs), expr.npartitions))
    # (b) closed: a key-like tuple of this plan that is not defined would be passed as a literal
    deps = {}
    for k, t in graph.items():
        deps[k] = refs(t, keyset)
        deps[k].discard(k) if False else None
        for kl in keylike(t, names):
            if kl not in keyset and kl != k:
                problems.append("task %r references undefined key %r" % (k, kl))
        po = planner_objects(t)
        if po:
            problems.append("task %r embeds planner object(s) %s" % (k, po[:3]))
    # (c) acyclic: candidate topological order for the verified checker
    order, state = [], {}
    cyc = False
    for root in graph:
        if root in state:
            continue
        stack = [(root, iter(deps[root]))]
        state[root] = 1
        while stack:
            node, it = stack[-1]
            adv = False
            for d in it:
                if d == node:
                    cyc = True
                    continue
                if d not in state:
                    state[d] = 1
                    stack.append((d, iter(deps[d])))
                    adv = True
                    break
                if state[d] == 1:
                    cyc = True
            if not adv:
                state[node] = 2
                order.append(node)
                stack.pop()
    if cyc:
        problems.append("dependency cycle")
    num = {k: i for i, k in enumerate(order)}
    export = "(%s) (%s)" % (" ".join("(%d (%s))" % (num[k], " ".join(str(num[d]) for d in sorted(deps[k], key=lambda d: num[d]))) for k in order),
                            " ".join(str(num[o]) for o in outs if o in num))
    return {"problems": problems, "export": export, "nkeys": len(graph), "nedges": sum(len(v) for v in deps.values()), "graph": graph, "deps": deps, "order": order, "outs": outs}


def task_equal(a, b):
    try:
        if a is b:
            return True
        if type(a) != type(b):
            return False
        if isinstance(a, (tuple, list)):
            return len(a) == len(b) and all(task_equal(x, y) for x, y in zip(a, b))
        if isinstance(a, dict):
            return a.keys() == b.keys() and all(task_equal(a[k], b[k]) for k in a)
        if isinstance(a, (pd.DataFrame, pd.Series, pd.Index)):
            return a.equals(b)
        if isinstance(a, np.ndarray):
            return np.array_equal(a, b)
        r = a == b
        if isinstance(r, (bool, np.bool_)) and not r and not isinstance(a, (str, bytes, int, float, bool, type(None))) and type(a).__eq__ is object.__eq__:
            # objects without value equality (function wrappers of the readers ...): compare their content
            from dask.base import tokenize
            return tokenize(a) == tokenize(b)
        return bool(r) if isinstance(r, (bool, np.bool_)) else True
    except Exception:
        return True


def serializable(graph):
    import dask
    with dask.config.set({"dask-expr-no-serialize": True}):
        try:
            pickle.dumps(dict(graph))
            return None
        except RuntimeError as e:
            if "Serializing" in str(e):
                return str(e)
            return None
        except Exception:
            return None   # unpicklable local functions etc. are not planner objects


# ----------------------------------------------------------------------------- execution under schedules


def fingerprint(x):
    """Content hash of a task value (used to detect in-place modification of inputs)."""
    try:
        if isinstance(x, pd.DataFrame):
            return ("df", tuple(map(str, x.columns)), tuple(map(str, x.dtypes)), str(x.index.name), pd.util.hash_pandas_object(x, index=True).values.tobytes())
        if isinstance(x, pd.Series):
            return ("s", str(x.name), str(x.dtype), str(x.index.name), pd.util.hash_pandas_object(x, index=True).values.tobytes())
        if isinstance(x, pd.Index):
            return ("i", str(x.name), pd.util.hash_pandas_object(x).values.tobytes())
        if isinstance(x, dict):
            return ("d", tuple((str(k), fingerprint(v)) for k, v in x.items()))
        if isinstance(x, (list, tuple)):
            return ("l", tuple(fingerprint(v) for v in x))
        if isinstance(x, np.ndarray):
            return ("a", x.tobytes())
        return ("o", repr(x)[:200])
    except Exception:
        return ("?", type(x).__name__)


def run_schedule(info, rng, policy="random", check_mutation=True):
    """Execute the graph sequentially, choosing among ready tasks by `policy`.  Returns (values of outs, mutation reports)."""
    from dask.core import _execute_task
    graph, deps, outs = info["graph"], info["deps"], info["outs"]
    dependents = {k: set() for k in graph}
    for k, ds in deps.items():
        for d in ds:
            dependents[d].add(k)
    waiting = {k: set(ds) - {k} for k, ds in deps.items()}
    ready = [k for k, ds in waiting.items() if not ds]
    cache = {}
    muts = []
    prio = {k: i for i, k in enumerate(info["order"])}
    # mutable literals (dicts, lists, frames) embedded BY REFERENCE in the tasks of several keys: an object shared by several
    # consumers just like a computed intermediate; fingerprinted around every task that holds it
    holders = {}

    def literals(t, acc, depth=0):
        if isinstance(t, (dict, list, pd.DataFrame, pd.Series, np.ndarray)) and not (isinstance(t, list) and all(ishashable(x) and x in graph for x in t if not isinstance(x, (list, dict)))):
            acc.setdefault(id(t), t)
        if depth < 6:
            if isinstance(t, (tuple, list)):
                for x in t:
                    literals(x, acc, depth + 1)
            elif isinstance(t, dict):
                for x in t.values():
                    literals(x, acc, depth + 1)
        return acc
    if check_mutation:
        per_key = {k: literals(t, {}) for k, t in graph.items() if isinstance(t, tuple)}
        count = {}
        for k, acc in per_key.items():
            for i in acc:
                count[i] = count.get(i, 0) + 1
        for k, acc in per_key.items():
            shared = {i: o for i, o in acc.items() if count[i] >= 2}
            if shared:
                holders[k] = shared

    def run_one(k):
        before = {d: fingerprint(cache[d]) for d in deps[k] if d != k} if check_mutation else {}
        lit_before = {i: fingerprint(o) for i, o in holders.get(k, {}).items()}
        cache[k] = _execute_task(graph[k], cache)
        if check_mutation:
            for d, fp in before.items():
                if fingerprint(cache[d]) != fp:
                    muts.append("task %r modified its input %r" % (k, d))
            for i, fp in lit_before.items():
                if fingerprint(holders[k][i]) != fp:
                    muts.append("task %r modified an object embedded in the tasks of several keys (%s)" % (k, type(holders[k][i]).__name__))
    if policy == "demand":
        # demand-driven: depth-first from the output keys (what a culling scheduler does); tasks nothing depends on run last
        seq, seen = [], set()
        for root in list(outs) + [k for k in graph]:
            stack = [(root, iter(sorted(waiting.get(root, ()), key=lambda d: prio[d])))]
            if root in seen:
                continue
            seen.add(root)
            while stack:
                node, it = stack[-1]
                nxt = next((d for d in it if d not in seen), None)
                if nxt is None:
                    seq.append(node)
                    stack.pop()
                else:
                    seen.add(nxt)
                    stack.append((nxt, iter(sorted(waiting.get(nxt, ()), key=lambda d: prio[d]))))
        for k in seq:
            run_one(k)
        return [cache.get(o) for o in outs], muts
    while ready:
        if policy == "random":
            i = rng.randrange(len(ready))
        elif policy == "reverse":
            i = max(range(len(ready)), key=lambda j: prio[ready[j]])
        elif policy == "lifo":
            i = len(ready) - 1
        else:
            i = 0
        k = ready.pop(i)
        run_one(k)
        for dep in dependents[k]:
            waiting[dep].discard(k)
            if not waiting[dep] and dep not in cache and dep not in ready:
                ready.append(dep)
    return [cache.get(o) for o in outs], muts
