"""C08, history dimension "shared argument objects".

A query is described by a JSON spec; mutable arguments (keyword dictionaries, column lists, aggregation specs ...)
are written as {"$ref": name} and resolved against the objects of the case.  A *case* is a short history: its queries
Q1..Qk are built one after the other and every occurrence of one name is THE SAME Python object (the ordinary
``common = {...}`` pattern of user code: one dict for two calls, one dict for two stages of one call).

What C08 demands of such a history, and what is checked (see check_cases):
  * every Qi, looked at after the whole history was built, has the names (logical and optimized), the task keys, the
    tasks and the result of the same query built alone, from fresh literals, in another interpreter under another
    PYTHONHASHSEED (the record produced by `records`), and the result pandas gives for it;
  * the name of every node still is the name of its operands (recomputed from the operands as they are now);
  * building Qi once more from fresh literals gives the same name and the right result;
  * queries of the history that differ in an operation or a parameter value have different names, and a task key
    that two of them share stands for the same task.

The functions handed to reduction()/map_partitions()/apply() are module-level so that they tokenize by reference and
are the same functions in the parent and in the child interpreter.
"""
import copy
import gc
import json
import os
import random
import subprocess

# ----------------------------------------------------------------------------- user functions


def c_sum(x, offset=0, scale=1, mod=None):
    r = x.sum() * scale + offset
    return r if mod is None else r % mod


def c_max(x, offset=0, scale=1, mod=None):
    r = x.max() * scale + offset
    return r if mod is None else r % mod


def c_min(x, offset=0, scale=1, mod=None):
    r = x.min() * scale + offset
    return r if mod is None else r % mod


def c_count(x, offset=0, scale=1, mod=None):
    r = x.count() * scale + offset
    return r if mod is None else r % mod


def a_sum(x, offset=0, scale=1, mod=None):
    r = x.sum() * scale + offset
    return r if mod is None else r % mod


def a_max(x, offset=0, scale=1, mod=None):
    r = x.max() * scale + offset
    return r if mod is None else r % mod


def a_min(x, offset=0, scale=1, mod=None):
    r = x.min() * scale + offset
    return r if mod is None else r % mod


def k_sum(x, offset=0, scale=1, mod=None):
    r = x.sum() * scale + offset
    return r if mod is None else r % mod


def k_max(x, offset=0, scale=1, mod=None):
    r = x.max() * scale + offset
    return r if mod is None else r % mod


def mp_add(df, cols, k=1, opts=None):
    out = df[list(cols)] + k
    if opts:
        out = out * opts.get("scale", 1)
    return out


def mp_sub(df, cols, k=1, opts=None):
    out = df[list(cols)] - k
    if opts:
        out = out * opts.get("scale", 1)
    return out


def row_add(row, cols, k=0):
    return sum(row[c] for c in cols) + k


def row_mul(row, cols, k=0):
    out = 1
    for c in cols:
        out = out * row[c]
    return out + k


def g_span(g, cols, k=0):
    return g[list(cols)].max() - g[list(cols)].min() + k


def g_total(g, cols, k=0):
    return g[list(cols)].sum() + k


FUNCS = {f.__name__: f for f in (c_sum, c_max, c_min, c_count, a_sum, a_max, a_min, k_sum, k_max, mp_add, mp_sub, row_add, row_mul, g_span, g_total)}

# ----------------------------------------------------------------------------- data


def table(t):
    """The pandas frame of a table spec {"rows", "seed", "nulls", "dtype"} (small integer-valued numbers: every sum is exact)."""
    import numpy as np
    import pandas as pd
    rng = np.random.RandomState(1000 + t["seed"])
    n = t["rows"]
    d = {}
    for c in ("x", "y", "z"):
        v = rng.randint(1, 50, size=n)
        if t["dtype"] == "float64" or t["nulls"]:
            v = v.astype("float64")
            if t["nulls"]:
                v[rng.rand(n) < 0.25] = np.nan
        elif t["dtype"] == "int32":
            v = v.astype("int32")
        d[c] = v
    d["g"] = rng.randint(0, 4, size=n)
    d["h"] = rng.randint(0, 2, size=n)
    return pd.DataFrame(d)


# ----------------------------------------------------------------------------- resolving the arguments


class Env:
    """shared=True: one Python object per object name for the whole history; shared=False: a fresh copy at every use."""

    def __init__(self, objects, shared):
        self.spec = objects
        self.shared = shared
        self.objs = {k: copy.deepcopy(v) for k, v in objects.items()} if shared else {}

    def get(self, v):
        if isinstance(v, dict) and set(v) == {"$ref"}:
            return self.objs[v["$ref"]] if self.shared else copy.deepcopy(self.spec[v["$ref"]])
        return copy.deepcopy(v)

    def modified(self):
        """Names of the shared objects whose content is no longer what the caller wrote (diagnostic only)."""
        out = []
        for k, v in self.objs.items():
            try:
                if v != self.spec[k]:
                    out.append(k)
            except Exception:
                out.append(k)
        return out


def _fn(name):
    return None if name is None else FUNCS[name]


def _partitions(dx, pdf, q):
    """The partitions of the source (only the partition-wise operations need them)."""
    if q["op"] not in ("reduction", "map_partitions"):
        return None
    import e2e
    return e2e.exec_expr(_src(dx, pdf, q).optimize().expr)


def _src(dx, pdf, q):
    d = dx.from_pandas(pdf, npartitions=q.get("npartitions", 3), sort=q.get("sort", True))
    return d


def build(dx, pdf, q, env):
    """The collection of query spec `q`."""
    d = _src(dx, pdf, q)
    op = q["op"]
    if op == "reduction":
        tgt = d[q["column"]] if q.get("column") else d[["x", "y", "z"]]
        kw = {}
        for k in ("chunk_kwargs", "aggregate_kwargs", "combine_kwargs"):
            if q.get(k) is not None:
                kw[k] = env.get(q[k])
        if q.get("split_every") is not None:
            kw["split_every"] = q["split_every"]
        if q.get("token"):
            kw["token"] = q["token"]
        kw.update(q.get("kwargs") or {})
        return tgt.reduction(_fn(q["chunk"]), aggregate=_fn(q.get("aggregate")), combine=_fn(q.get("combine")), **kw)
    if op == "map_partitions":
        return d.map_partitions(_fn(q["func"]), env.get(q["cols"]), k=q.get("k", 1), opts=env.get(q.get("opts")))
    if op == "apply":
        return d.apply(_fn(q["func"]), axis=1, args=(env.get(q["cols"]),), k=q.get("k", 0), meta=("r", "float64"))
    if op == "groupby_apply":
        return d.groupby(env.get(q["by"])).apply(_fn(q["func"]), env.get(q["cols"]), k=q.get("k", 0))
    if op == "groupby_agg":
        return d.groupby(env.get(q["by"])).agg(env.get(q["spec"]), **(q.get("extra") or {}))
    if op == "rename":
        return d[q["pre"]].rename(columns=env.get(q["mapping"]))
    if op == "astype":
        return d[q["pre"]].astype(env.get(q["mapping"]))
    if op == "fillna":
        return d[q["pre"]].fillna(env.get(q["mapping"]))
    if op == "replace":
        return d[q["pre"]].replace(env.get(q["mapping"]))
    if op == "isin":
        return d[q["column"]].isin(env.get(q["values"]))
    if op == "getitem":
        return d[env.get(q["cols"])] + q.get("k", 0)
    if op == "drop":
        return d[q["pre"]].drop(columns=env.get(q["cols"]))
    if op == "drop_duplicates":
        return d[q["pre"]].drop_duplicates(subset=env.get(q["cols"]), split_out=q.get("split_out", 1))
    if op == "sort_values":
        return d.sort_values(env.get(q["cols"]), ascending=env.get(q["ascending"]))
    if op == "merge":
        o = dx.from_pandas(pdf[["g", "h", "x"]].drop_duplicates(["g", "h"]).rename(columns={"x": "w"}), npartitions=2)
        return d.merge(o, on=env.get(q["cols"]), how=q.get("how", "inner"), shuffle_method="tasks")
    if op == "assign":
        return d.assign(**{k: d[c] + q.get("k", 0) for k, c in env.get(q["mapping"]).items()})
    if op == "series_map":
        return d[q["column"]].map(env.get(q["mapping"]), meta=(q["column"], "float64"))
    if op == "agg_list":
        return d.groupby("g")[q["column"]].agg(env.get(q["spec"]), **(q.get("extra") or {}))
    raise ValueError(op)


# ----------------------------------------------------------------------------- the pandas oracle


def _as_row(out):
    import pandas as pd
    return out.to_frame().T if isinstance(out, pd.Series) else out


def _concat(parts):
    import pandas as pd
    if isinstance(parts[0], (pd.Series, pd.DataFrame)):
        return pd.concat(parts)
    return pd.Series(parts)


def expected(pdf, parts, q, env):
    """the pandas result computed without dask-expr operators (`parts`: the partitions of the source, for the
    operations whose value is defined partition-wise) or None when there is no pandas oracle for `q`."""
    import pandas as pd
    op = q["op"]
    if op == "reduction":
        # the documented semantics: chunk on every partition, combine on groups of split_every intermediates while there are
        # more than split_every of them (combine defaults to aggregate, then to chunk, and sees **kwargs only), aggregate last
        sel = (lambda p: p[q["column"]]) if q.get("column") else (lambda p: p[["x", "y", "z"]])
        g = q.get("kwargs") or {}
        ck = dict(env.get(q.get("chunk_kwargs")) or {}, **g)
        ak = dict(env.get(q.get("aggregate_kwargs")) or {}, **g)
        kk = dict(env.get(q.get("combine_kwargs")) or {}, **g)
        chunk = _fn(q["chunk"])
        agg = _fn(q.get("aggregate")) or chunk
        comb = _fn(q.get("combine")) or agg
        items = [_as_row(chunk(sel(p), **ck)) for p in parts]
        se = q.get("split_every")
        se = 8 if se is None else se
        while se is not False and len(items) > se:
            items = [_as_row(comb(_concat(items[i:i + se]), **kk)) for i in range(0, len(items), se)]
        return agg(_concat(items), **ak)
    if op == "map_partitions":
        return pd.concat([_fn(q["func"])(p, env.get(q["cols"]), k=q.get("k", 1), opts=env.get(q.get("opts"))) for p in parts])
    if op == "apply":
        return pdf.apply(_fn(q["func"]), axis=1, args=(env.get(q["cols"]),), k=q.get("k", 0))
    if op == "groupby_apply":
        return pdf.groupby(env.get(q["by"])).apply(_fn(q["func"]), env.get(q["cols"]), k=q.get("k", 0))
    if op == "groupby_agg":
        return pdf.groupby(env.get(q["by"])).agg(env.get(q["spec"]))
    if op == "agg_list":
        return pdf.groupby("g")[q["column"]].agg(env.get(q["spec"]))
    if op == "rename":
        return pdf[q["pre"]].rename(columns=env.get(q["mapping"]))
    if op == "astype":
        return pdf[q["pre"]].astype(env.get(q["mapping"]))
    if op == "fillna":
        return pdf[q["pre"]].fillna(env.get(q["mapping"]))
    if op == "replace":
        return pdf[q["pre"]].replace(env.get(q["mapping"]))
    if op == "isin":
        return pdf[q["column"]].isin(env.get(q["values"]))
    if op == "getitem":
        return pdf[env.get(q["cols"])] + q.get("k", 0)
    if op == "drop":
        return pdf[q["pre"]].drop(columns=env.get(q["cols"]))
    if op == "drop_duplicates":
        if set(env.get(q["cols"])) != set(q["pre"]):
            return None                                                            # which duplicate survives is not defined
        return pdf[q["pre"]].drop_duplicates(subset=env.get(q["cols"]))          # compared as a row multiset without labels
    if op == "sort_values":
        return None                                                                # ties: order not defined; covered by the fresh-interpreter oracle
    if op == "merge":
        o = pdf[["g", "h", "x"]].drop_duplicates(["g", "h"]).rename(columns={"x": "w"})
        return pdf.merge(o, on=env.get(q["cols"]), how=q.get("how", "inner"))
    if op == "assign":
        return pdf.assign(**{k: pdf[c] + q.get("k", 0) for k, c in env.get(q["mapping"]).items()})
    if op == "series_map":
        return pdf[q["column"]].map(env.get(q["mapping"]))
    return None


# ----------------------------------------------------------------------------- observation of one query

_VOLATILE = ("zpartd-", "shuffle-partition-", "barrier-", "shuffle-transfer-")      # DiskShuffle keys (known finding D14)


def canon_str(obj, ordered=True):
    import e2e
    if ordered is None:
        c = e2e.canon(obj, ordered=False, labels=False)
    else:
        c = e2e.canon(obj, ordered=ordered)
    return json.dumps(c, default=str)


def task_fp(x, depth=0):
    """Structural fingerprint of a task.  (dask.base.tokenize is not usable on whole tasks: for containers it encodes which equal
    sub-objects are the SAME Python object, which differs between two builds of one graph.)"""
    import functools
    import hashlib

    import numpy as np
    import pandas as pd
    from dask.base import tokenize
    if depth > 40:
        return "deep"
    if x is None or isinstance(x, (str, bytes, bool, int, float, complex)):
        return "%s:%r" % (type(x).__name__, x)
    if isinstance(x, (tuple, list)):
        return (type(x).__name__, [task_fp(y, depth + 1) for y in x])
    if isinstance(x, (set, frozenset)):
        return (type(x).__name__, sorted(repr(task_fp(y, depth + 1)) for y in x))
    if isinstance(x, dict):
        return ("dict", sorted(([repr(task_fp(k, depth + 1)), task_fp(v, depth + 1)] for k, v in x.items()), key=lambda kv: kv[0]))
    if isinstance(x, (pd.DataFrame, pd.Series, pd.Index)):
        try:
            h = hashlib.sha1(pd.util.hash_pandas_object(x, index=True).values.tobytes()).hexdigest()
        except Exception:
            h = tokenize(x)
        cols = [str(c) for c in x.columns] if isinstance(x, pd.DataFrame) else [str(getattr(x, "name", None))]
        dts = [str(d) for d in x.dtypes] if isinstance(x, pd.DataFrame) else [str(x.dtype)]
        return ("pandas", type(x).__name__, cols, dts, len(x), h)
    if isinstance(x, np.ndarray):
        return ("ndarray", str(x.dtype), list(x.shape), hashlib.sha1(x.tobytes()).hexdigest() if x.dtype != object else tokenize(x))
    if isinstance(x, functools.partial):
        return ("partial", task_fp(x.func, depth + 1), task_fp(x.args, depth + 1), task_fp(x.keywords, depth + 1))
    if getattr(x, "__self__", None) is not None and hasattr(x, "__func__"):       # bound method / classmethod
        return ("method", task_fp(x.__self__, depth + 1), getattr(x.__func__, "__qualname__", repr(x.__func__)))
    if isinstance(x, type) or (callable(x) and hasattr(x, "__qualname__") and hasattr(x, "__module__")):
        return ("callable", "%s.%s" % (x.__module__, x.__qualname__))
    try:
        return ("object", type(x).__name__, tokenize(x))
    except Exception:
        return ("object", type(x).__name__, "?")


def task_hash(t):
    import hashlib
    return hashlib.sha1(json.dumps(task_fp(t), default=str).encode()).hexdigest()[:20]


def observe(coll, with_result=True, ordered=True):
    """Everything C08 says a name stands for: node names before/after optimization, task keys, a fingerprint of every task, the result."""
    o = coll.optimize()
    g = dict(o.__dask_graph__())
    keys = sorted(str(k) for k in g if not any(p in str(k) for p in _VOLATILE))
    toks = {}
    for k, t in g.items():
        if any(p in str(k) for p in _VOLATILE):
            continue
        try:
            toks[str(k)] = task_hash(t)
        except Exception:
            toks[str(k)] = "?"
    out = {"name": coll._name, "logical": sorted(e._name for e in coll.expr.walk()), "optimized": sorted(e._name for e in o.expr.walk()),
           "keys": keys, "tasks": toks}
    if with_result:
        out["result"] = canon_str(coll.compute(), ordered)
    return out


def stale_names(expr):
    """Nodes whose (cached) name is not the name of their operands as they are now."""
    bad = []
    for e in expr.walk():
        try:
            clone = object.__new__(type(e))
            clone.operands = list(e.operands)
            n = clone._name
        except Exception:
            continue
        if n != e._name:
            bad.append((type(e).__name__, e._name, n))
    return bad


# ----------------------------------------------------------------------------- the family


def _table_specs(rng, n):
    out = []
    for i in range(n):
        nulls = i % 2 == 1
        out.append({"rows": rng.choice([24, 37, 60]), "seed": rng.randrange(50), "nulls": nulls,
                    "dtype": "float64" if nulls else rng.choice(["int64", "int32", "float64"])})
    return out


def _ref(n):
    return {"$ref": n}


def reduction_cases(rng, n):
    """Histories of 1-3 custom reductions over one frame whose keyword dictionaries are shared objects."""
    chunks, aggs, combs = ["c_sum", "c_max", "c_min", "c_count"], ["a_sum", "a_max", "a_min"], ["k_sum", "k_max"]
    kwvals = [{"offset": 100}, {"scale": 3}, {"offset": 7, "scale": 2}, {"mod": 11}, {"offset": 1}, {"scale": 2, "mod": 13}]
    cases = []
    shapes = ["two-calls-chunk_kwargs", "two-calls-aggregate_kwargs", "two-calls-combine_kwargs", "two-calls-all-three", "one-call-two-stages",
              "one-call-three-stages", "two-calls-global-kwargs", "vary-one-item", "three-calls", "cross-stage"]
    for i in range(n):
        shape = shapes[i % len(shapes)] if i < 2 * len(shapes) else rng.choice(shapes)
        t = _table_specs(rng, 2)[i % 2]
        npart = rng.choice([1, 2, 3, 4, 5, 7, 10])
        base = {"op": "reduction", "npartitions": npart, "column": rng.choice(["x", "y", None]), "chunk": rng.choice(chunks),
                "aggregate": rng.choice(aggs), "combine": None, "split_every": rng.choice([None, None, 2, 3, False])}
        objs = {"o1": dict(rng.choice(kwvals))}
        q1, q2 = dict(base), dict(base)

        def other(lst, cur):
            return rng.choice([v for v in lst if v != cur])
        if shape == "two-calls-chunk_kwargs":
            q1["chunk_kwargs"] = q2["chunk_kwargs"] = _ref("o1")
            q2["chunk"] = other(chunks, q1["chunk"])
            qs = [q1, q2]
        elif shape == "two-calls-aggregate_kwargs":
            q1["aggregate_kwargs"] = q2["aggregate_kwargs"] = _ref("o1")
            q2["aggregate"] = other(aggs, q1["aggregate"])
            qs = [q1, q2]
        elif shape == "two-calls-combine_kwargs":
            q1["combine"] = rng.choice(combs)
            q2["combine"] = other(combs, q1["combine"])
            q1["combine_kwargs"] = q2["combine_kwargs"] = _ref("o1")
            q1["split_every"] = q2["split_every"] = rng.choice([2, 3])
            qs = [q1, q2]
        elif shape == "two-calls-all-three":
            objs["o2"], objs["o3"] = dict(rng.choice(kwvals)), dict(rng.choice(kwvals))
            for q in (q1, q2):
                q["combine"] = "k_sum"
                q["chunk_kwargs"], q["aggregate_kwargs"], q["combine_kwargs"] = _ref("o1"), _ref("o2"), _ref("o3")
            which = rng.choice(["chunk", "aggregate", "combine"])
            q2[which] = other({"chunk": chunks, "aggregate": aggs, "combine": combs}[which], q1[which])
            qs = [q1, q2]
        elif shape == "one-call-two-stages":
            a, b = rng.sample(["chunk_kwargs", "aggregate_kwargs", "combine_kwargs"], 2)
            q1[a] = q1[b] = _ref("o1")
            if "combine_kwargs" in (a, b):
                q1["combine"] = rng.choice(combs)
            qs = [q1]
        elif shape == "one-call-three-stages":
            q1["combine"] = rng.choice(combs)
            q1["chunk_kwargs"] = q1["aggregate_kwargs"] = q1["combine_kwargs"] = _ref("o1")
            q1["split_every"] = rng.choice([None, 2])
            qs = [q1]
        elif shape == "two-calls-global-kwargs":
            # **kwargs go to every stage; the second call has none / others
            k = rng.choice(["chunk_kwargs", "aggregate_kwargs"])
            q1[k] = q2[k] = _ref("o1")
            free = [x for x in ("offset", "scale", "mod") if x not in objs["o1"]]
            q1["kwargs"] = {free[0]: rng.choice([2, 5, 9])}
            q2["kwargs"] = rng.choice([None, {free[0]: 4}])
            qs = [q1, q2] if rng.random() < 0.5 else [q2, q1]
        elif shape == "vary-one-item":
            # the two calls differ in exactly one parameter; everything else is the same (shared) object
            objs["o2"] = dict(rng.choice(kwvals))
            for q in (q1, q2):
                q["chunk_kwargs"], q["aggregate_kwargs"] = _ref("o1"), _ref("o2")
            which = rng.choice(["chunk", "aggregate", "split_every", "token", "npartitions", "column", "kwargs"])
            if which == "chunk":
                q2["chunk"] = other(chunks, q1["chunk"])
            elif which == "aggregate":
                q2["aggregate"] = other(aggs, q1["aggregate"])
            elif which == "split_every":
                q2["split_every"] = other([None, 2, 3, False], q1["split_every"])
            elif which == "token":
                q2["token"] = "mytoken"
            elif which == "npartitions":
                q2["npartitions"] = other([1, 2, 3, 4, 5], q1["npartitions"])
            elif which == "column":
                q2["column"] = other(["x", "y", "z"], q1["column"])
            else:
                free = [x for x in ("offset", "scale", "mod") if x not in objs["o1"] and x not in objs["o2"]]
                if free:
                    q2["kwargs"] = {free[0]: 3}
                else:
                    q2["chunk"] = other(chunks, q1["chunk"])
            qs = [q1, q2]
        elif shape == "three-calls":
            q3 = dict(base)
            q1["chunk_kwargs"] = q2["chunk_kwargs"] = q3["aggregate_kwargs"] = _ref("o1")
            q2["chunk"] = other(chunks, q1["chunk"])
            q3["aggregate"] = other(aggs, q1["aggregate"])
            qs = [q1, q2, q3]
        else:   # cross-stage: the dict is the chunk_kwargs of one call and the aggregate_kwargs of the next
            q1["chunk_kwargs"] = _ref("o1")
            q2["aggregate_kwargs"] = _ref("o1")
            qs = [q1, q2]
        cases.append({"family": "reduction", "shape": shape, "table": t, "objects": objs, "queries": qs})
    return cases


def generic_cases(rng, n):
    """Histories of two queries of other operators that take a mutable argument (list / dict) which the caller reuses."""
    makers = []

    def mk(f):
        makers.append(f)
        return f

    @mk
    def _mp():
        q1 = {"op": "map_partitions", "func": "mp_add", "cols": _ref("o1"), "k": rng.choice([1, 2]), "opts": _ref("o2")}
        q2 = dict(q1)
        if rng.random() < 0.5:
            q2["func"] = "mp_sub"
        else:
            q2["k"] = q1["k"] + 1
        return {"o1": rng.choice([["x"], ["x", "y"], ["z", "x"]]), "o2": {"scale": rng.choice([2, 3])}}, [q1, q2]

    @mk
    def _apply():
        q1 = {"op": "apply", "func": "row_add", "cols": _ref("o1"), "k": rng.choice([0, 5])}
        q2 = dict(q1, func="row_mul") if rng.random() < 0.5 else dict(q1, k=q1["k"] + 1)
        return {"o1": rng.choice([["x", "y"], ["x", "z"]])}, [q1, q2]

    @mk
    def _gapply():
        q1 = {"op": "groupby_apply", "func": "g_span", "by": _ref("o2"), "cols": _ref("o1"), "k": rng.choice([0, 2])}
        q2 = dict(q1, func="g_total") if rng.random() < 0.5 else dict(q1, k=q1["k"] + 1)
        return {"o1": rng.choice([["x"], ["x", "y"]]), "o2": rng.choice([["g"], ["g", "h"]])}, [q1, q2]

    @mk
    def _gagg():
        q1 = {"op": "groupby_agg", "by": _ref("o2"), "spec": _ref("o1")}
        q2 = dict(q1, extra={"split_every": 2}) if rng.random() < 0.5 else dict(q1, by=["h"])
        return {"o1": rng.choice([{"x": "sum", "y": "max"}, {"x": ["sum", "min"], "z": "count"}, {"y": "mean"}]), "o2": rng.choice([["g"], ["g", "h"]])}, [q1, q2]

    @mk
    def _agglist():
        q1 = {"op": "agg_list", "column": "x", "spec": _ref("o1")}
        q2 = dict(q1, column="y") if rng.random() < 0.5 else dict(q1, extra={"split_every": 2})
        return {"o1": rng.choice([["sum", "max"], ["min", "count", "sum"]])}, [q1, q2]

    @mk
    def _rename():
        q1 = {"op": "rename", "pre": ["x", "y", "z"], "mapping": _ref("o1")}
        return {"o1": rng.choice([{"x": "xx"}, {"x": "y2", "y": "x2"}])}, [q1, dict(q1, pre=["x", "y"])]

    @mk
    def _astype():
        q1 = {"op": "astype", "pre": ["x", "y", "g"], "mapping": _ref("o1")}
        return {"o1": rng.choice([{"x": "float32"}, {"g": "float64", "y": "float64"}])}, [q1, dict(q1, pre=["x", "g", "y", "h"])]

    @mk
    def _fillna():
        q1 = {"op": "fillna", "pre": ["x", "y", "z"], "mapping": _ref("o1")}
        return {"o1": rng.choice([{"x": 0}, {"x": -1, "y": -2}])}, [q1, dict(q1, pre=["y", "x"])]

    @mk
    def _replace():
        q1 = {"op": "replace", "pre": ["g", "h"], "mapping": _ref("o1")}
        return {"o1": rng.choice([{0: 10}, {1: 7, 2: 9}])}, [q1, dict(q1, pre=["h", "g"])]

    @mk
    def _isin():
        q1 = {"op": "isin", "column": "g", "values": _ref("o1")}
        return {"o1": rng.choice([[0, 1], [1, 3], [2]])}, [q1, dict(q1, column="h")]

    @mk
    def _getitem():
        q1 = {"op": "getitem", "cols": _ref("o1"), "k": 0}
        return {"o1": rng.choice([["x", "y"], ["z"], ["y", "g"]])}, [q1, dict(q1, k=1)]

    @mk
    def _drop():
        q1 = {"op": "drop", "pre": ["x", "y", "z", "g"], "cols": _ref("o1")}
        return {"o1": rng.choice([["x"], ["y", "z"]])}, [q1, dict(q1, pre=["x", "y", "z"])]

    @mk
    def _dd():
        q1 = {"op": "drop_duplicates", "pre": ["g", "h"], "cols": _ref("o1")}
        return {"o1": rng.choice([["g"], ["g", "h"], ["h"]])}, [q1, dict(q1, split_out=2)]

    @mk
    def _sort():
        q1 = {"op": "sort_values", "cols": _ref("o1"), "ascending": _ref("o2")}
        q2 = {"op": "sort_values", "cols": _ref("o1"), "ascending": True}
        return {"o1": rng.choice([["x", "y"], ["g", "x"]]), "o2": rng.choice([[True, False], [False, False]])}, [q1, q2]

    @mk
    def _merge():
        q1 = {"op": "merge", "cols": _ref("o1"), "how": "inner"}
        return {"o1": rng.choice([["g"], ["g", "h"]])}, [q1, dict(q1, how="left")]

    @mk
    def _assign():
        q1 = {"op": "assign", "mapping": _ref("o1"), "k": 0}
        return {"o1": rng.choice([{"n1": "x"}, {"n1": "y", "n2": "x"}])}, [q1, dict(q1, k=2)]

    @mk
    def _smap():
        q1 = {"op": "series_map", "column": "g", "mapping": _ref("o1")}
        return {"o1": rng.choice([{0: 1.5, 1: 2.5}, {0: 9.0, 1: 8.0, 2: 7.0, 3: 6.0}])}, [q1, dict(q1, column="h")]

    cases = []
    order = list(range(len(makers)))
    rng.shuffle(order)
    for i in range(n):
        m = makers[order[i % len(makers)]]
        objs, qs = m()
        npart = rng.choice([1, 2, 3, 5])
        t = _table_specs(rng, 2)[i % 2]
        qs = [dict(q, npartitions=q.get("npartitions", npart)) for q in qs]
        if rng.random() < 0.3:
            qs = qs[::-1]
        cases.append({"family": "generic", "shape": qs[0]["op"], "table": t, "objects": objs, "queries": qs})
    return cases


def make_cases(seed, tier):
    rng = random.Random("c08-alias-%d" % seed)
    n_red, n_gen = (20, 12) if tier == "quick" else (150, 85)
    return reduction_cases(rng, n_red) + generic_cases(rng, n_gen)


# ----------------------------------------------------------------------------- the reference interpreter


def records(dx, cases):
    """Every query of every case built ALONE from fresh literals (no object is shared with anything)."""
    import dask
    with dask.config.set({"dataframe.shuffle.method": "tasks"}):       # not the disk shuffle: its tasks carry a uuid (known finding D14)
        return _records(dx, cases)


def _records(dx, cases):
    out = []
    for c in cases:
        pdf = table(c["table"])
        rec = []
        for q in c["queries"]:
            env = Env(c["objects"], shared=False)
            try:
                coll = build(dx, pdf, q, env)
                rec.append(observe(coll, ordered=_ordered(q)))
                del coll
            except Exception as ex:
                rec.append({"error": "%s: %s" % (type(ex).__name__, str(ex)[:200])})
        out.append(rec)
    return out


def _ordered(q):
    return {"groupby_apply": False, "groupby_agg": False, "agg_list": False, "drop_duplicates": None, "merge": None}.get(q["op"], True)


def records_in_subprocess(common, seed, tier, hashseed):
    code = r'''
import sys, json
sys.path.insert(0, %r)
import rt, c08_alias
cases = c08_alias.make_cases(%d, %r)
print("@@" + json.dumps(c08_alias.records(rt.dx, cases)))
''' % (os.path.join(common.VERIF, "harness"), seed, tier)
    env = dict(os.environ)
    env["PYTHONHASHSEED"] = str(hashseed)
    env["PYTHONPATH"] = common.REPO
    p = subprocess.run([common.PY, "-c", code], env=env, stdout=subprocess.PIPE, stderr=subprocess.PIPE, text=True, timeout=1800)
    if p.returncode != 0:
        raise RuntimeError(p.stderr[-800:])
    line = [l for l in p.stdout.split("\n") if l.startswith("@@")][-1]
    return json.loads(line[2:])


# ----------------------------------------------------------------------------- the check


def _diff(a, b):
    return sorted(set(a) ^ set(b))[:4]


def compare(now, ref):
    """Differences between two observations of one query: None, or (first differing aspect, description of all of them)."""
    out = []
    if now["name"] != ref["name"]:
        out.append(("name", "%s vs %s" % (now["name"], ref["name"])))
    for what in ("logical", "optimized", "keys"):
        if now[what] != ref[what]:
            out.append((what, "%s" % _diff(now[what], ref[what])))
    bad = sorted(k for k in ref["tasks"] if k in now["tasks"] and now["tasks"][k] != ref["tasks"][k] and "?" not in (now["tasks"][k], ref["tasks"][k]))
    if bad:
        out.append(("tasks", "the tasks under the keys %s differ" % bad[:3]))
    if "result" in now and "result" in ref and now["result"] != ref["result"]:
        out.append(("result", "%s vs %s" % (now["result"][:160], ref["result"][:160])))
    if not out:
        return None
    return "/".join(a for a, _ in out), "; ".join("%s: %s" % x for x in out)


def check_cases(run, rt, cases, refs):
    import dask
    with dask.config.set({"dataframe.shuffle.method": "tasks"}):
        return _check_cases(run, rt, cases, refs)


def _check_cases(run, rt, cases, refs):
    import e2e
    import graphs
    stats = {"cases": 0, "queries": 0, "with_pandas_oracle": 0, "skipped": 0, "violations": 0}
    for ci, (c, ref) in enumerate(zip(cases, refs)):
        run.count(("alias", c["family"], c["shape"], json.dumps(c, sort_keys=True, default=str)))
        stats["cases"] += 1
        pdf = table(c["table"])
        env = Env(c["objects"], shared=True)
        case = {"kind": "shared-argument-history", "case": c, "how": "c08_alias.build(rt.dx, c08_alias.table(case['table']), q, c08_alias.Env(case['objects'], shared=True)) for q in case['queries'], in this order"}
        nviol = len(run.violations)

        def bad(what):
            mod = env.modified()
            run.violation("history of %d %s queries sharing argument objects %s: %s%s" % (len(c["queries"]), c["shape"], sorted(c["objects"]), what,
                                                                                           ("; shared objects rewritten by the library: %s" % mod) if mod else ""), case)
        # the history
        colls, first = [], []
        for qi, q in enumerate(c["queries"]):
            r = e2e.try_(lambda: build(rt.dx, pdf, q, env))
            colls.append(r)
            # what the query is at the moment it was built (before the rest of the history)
            first.append(e2e.try_(lambda: observe(r[1], with_result=False)) if r[0] == "ok" else None)
        for qi, q in enumerate(c["queries"]):
            stats["queries"] += 1
            r, rf = colls[qi], ref[qi]
            label = "query %d (%s)" % (qi + 1, _label(q))
            if r[0] != "ok" or "error" in rf:
                if (r[0] != "ok") != ("error" in rf):
                    bad("%s builds alone in a fresh interpreter but not inside the history, or vice versa: %s / %s" % (label, r[1] if r[0] != "ok" else "ok", rf.get("error", "ok")))
                else:
                    stats["skipped"] += 1
                continue
            coll = r[1]
            # 1. against the query built alone in another interpreter
            now = e2e.try_(lambda: observe(coll, ordered=_ordered(q)))
            if now[0] != "ok":
                bad("%s evaluates alone in a fresh interpreter but not after the history was built: %s" % (label, now[1]))
                continue
            d = compare(now[1], rf)
            if d is not None:
                bad("%s, after the other queries of the history were built, differs from the same query built alone in a fresh interpreter in its %s: %s" % (label, d[0], d[1]))
                continue
            # 2. against itself at the moment it was built
            if first[qi] is not None and first[qi][0] == "ok":
                d = compare(now[1], first[qi][1])
                if d is not None:
                    bad("%s changed its %s when later queries were built: %s" % (label, d[0], d[1]))
                    continue
            # 3. names are the names of the operands
            st = e2e.try_(lambda: stale_names(coll.expr) + stale_names(coll.optimize().expr))
            if st[0] == "ok" and st[1]:
                bad("%s: node %s is called %s but its operands now tokenize to %s (an equal query built from fresh arguments is a different expression under the same name)" % ((label,) + st[1][0]))
                continue
            # 4. against pandas
            fresh = Env(c["objects"], shared=False)
            parts = e2e.try_(lambda: _partitions(rt.dx, pdf, q))
            ex = e2e.try_(lambda: expected(pdf, parts[1], q, fresh)) if parts[0] == "ok" else ("raise", parts[1])
            if ex[0] == "ok" and ex[1] is not None:
                stats["with_pandas_oracle"] += 1
                want = e2e.try_(lambda: canon_str(ex[1], _ordered(q)))
                if want[0] == "ok" and want[1] != now[1]["result"]:
                    bad("%s returns %s, pandas gives %s" % (label, now[1]["result"][:160], want[1][:160]))
                    continue
            # 5. once more from fresh literals: same name, same result
            again = e2e.try_(lambda: observe(build(rt.dx, pdf, q, Env(c["objects"], shared=False)), ordered=_ordered(q)))
            if again[0] == "ok":
                d = compare(again[1], rf)
                if d is not None:
                    bad("%s built once more from fresh arguments after the history differs from the same query in a fresh interpreter in its %s: %s" % (label, d[0], d[1]))
                    continue
        # 6. distinct queries of the history: distinct names; shared keys = same tasks
        ok = [(qi, colls[qi][1]) for qi in range(len(colls)) if colls[qi][0] == "ok"]
        graphs_ = {}
        for qi, coll in ok:
            g = e2e.try_(lambda: dict(coll.optimize().__dask_graph__()))
            if g[0] == "ok":
                graphs_[qi] = g[1]
        for i, (qa, ca) in enumerate(ok):
            for qb, cb in ok[i + 1:]:
                if c["queries"][qa] == c["queries"][qb]:
                    continue
                if ca._name == cb._name:
                    bad("queries %d and %d differ (%s / %s) but share the name %s" % (qa + 1, qb + 1, _label(c["queries"][qa]), _label(c["queries"][qb]), ca._name))
                    continue
                # two queries may legitimately optimize to one plan (token= only labels the logical node; two spellings of one
                # computation) -- but one plan cannot stand for two queries whose results differ
                on = e2e.try_(lambda: (ca.optimize()._name, cb.optimize()._name))
                ra, rb = ref[qa].get("result"), ref[qb].get("result")
                if on[0] == "ok" and on[1][0] == on[1][1] and ra is not None and rb is not None and ra != rb:
                    bad("queries %d and %d (%s / %s) have different results (%s / %s in a fresh interpreter) but optimize to the same name %s" % (
                        qa + 1, qb + 1, _label(c["queries"][qa]), _label(c["queries"][qb]), ra[:80], rb[:80], on[1][0]))
                    continue
                if qa in graphs_ and qb in graphs_:
                    for k in graphs_[qa]:
                        if k in graphs_[qb] and not any(p in str(k) for p in _VOLATILE) and not graphs.task_equal(graphs_[qa][k], graphs_[qb][k]):
                            bad("queries %d and %d define the task key %r with different tasks" % (qa + 1, qb + 1, k))
                            break
        if len(run.violations) > nviol:
            stats["violations"] += 1
        del colls, first, ok, graphs_
        if ci % 8 == 7:
            gc.collect()
    return stats


def _label(q):
    skip = ("op", "npartitions")
    return q["op"] + "(" + ", ".join("%s=%s" % (k, json.dumps(v, default=str)) for k, v in q.items() if k not in skip and v is not None) + ")"


def run_family(run, rt, common):
    cases = make_cases(run.seed, run.tier)
    hs = run.rng.choice([1, 7, 12345, 424242])
    refs = records_in_subprocess(common, run.seed, run.tier, hs)
    assert len(refs) == len(cases)
    stats = check_cases(run, rt, cases, refs)
    stats["reference_interpreter_hashseed"] = hs
    run.section("shared-argument-histories", **stats)
