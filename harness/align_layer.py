"""T-LAYER for Align.v: alignment of collections with known divisions before an index-aligned operation.
   The real calc_divisions_for_align / MaybeAlignPartitions._divisions (and the divisions of the lowered, optimized plan) vs the
   extracted align_divisions / align_single on generated division vectors (nested, disjoint, touching, point-like ranges,
   repeated last value); on a subset the operation is computed: every partition must hold exactly the index values of its own
   range (truthfulb of the model) and the result must equal the pandas result."""
import itertools

import common
from e2e import try_, canon, _short


def _division_vectors(vals, quick):
    out = []
    for n in (2, 3, 4):
        for c in itertools.combinations(vals, n):
            out.append(list(c))
            if n >= 2:
                out.append(list(c) + [c[-1]])     # last value repeated (a last partition holding a single index value)
    out += [[v, v] for v in vals[:3]]
    return out


def _frame(pd, divs, col, offset):
    lo, hi = divs[0], divs[-1]
    idx = list(range(lo, hi + 1))
    # every value of the range present; in the FIRST operand the interior boundaries are duplicated index values (duplicates
    # in both operands are left to known finding D118: pandas itself then depends on whether the two indexes are identical)
    if col == "x":
        idx = sorted(idx + [d for d in divs[1:-1]])
    return pd.DataFrame({col: [offset + 3 * i for i in range(len(idx))]}, index=pd.Index(idx, name="i"))


def align_layer(run, rt, quick):
    import pandas as pd
    from dask_expr._expr import calc_divisions_for_align
    sx, m = common.sx, common.Model()
    rng = run.rng
    vecs = _division_vectors(list(range(0, 7)), quick)
    cases = []
    pairs = [(a, b) for a in vecs for b in vecs]
    rng.shuffle(pairs)
    cases += [list(p) for p in pairs[:250 if quick else 1500]]
    triples = [[rng.choice(vecs) for _ in range(3)] for _ in range(80 if quick else 600)]
    cases += triples
    ans = m.batch(["(align_divisions %s)" % sx(c) for c in cases] + ["(align_single %s)" % sx([[c[0][0], c[0][-1]], [c[1][0], c[1][-1]]]) for c in cases[:60]])

    def fold_requests(pairs):
        # the collection-level operation is binary: operands with ONE partition each take the (min, max) branch; operands with
        # EQUAL divisions are not repartitioned at all and keep their own divisions, a repeated last value included (D204):
        # for those the request is the identity `(align_divisions (x))` only when x is strict, else answered here
        out = m.batch(["(%s %s)" % ("align_single" if len(x) == 2 and len(y) == 2 else "align_divisions", sx([x, y])) for x, y in pairs])
        return [sx(list(x)) if (list(x) == list(y) and not (len(x) == 2 and len(y) == 2)) else o for (x, y), o in zip(pairs, out)]
    step1 = [[int(v) for v in common.parse_sx(a)] for a in fold_requests([(c[0], c[1]) for c in cases])]
    tri = [i for i, c in enumerate(cases) if len(c) == 3]
    step2 = [[int(v) for v in common.parse_sx(a)] for a in fold_requests([(step1[i], cases[i][2]) for i in tri])]
    folded = list(step1)
    for i, v in zip(tri, step2):
        folded[i] = v
    model_single = ans[len(cases):]
    bad = computed = 0
    frames = {}

    def coll(divs, col, off):
        key = (tuple(divs), col)
        if key not in frames:
            pdf = _frame(pd, divs, col, off)
            frames[key] = (pdf, rt.dx.from_pandas(pdf, npartitions=1).repartition(divisions=list(divs), force=True))
        return frames[key]

    for ci, (c, a) in enumerate(zip(cases, ans)):
        model = [int(v) for v in common.parse_sx(a)]
        cols = ["x", "y", "z"][:len(c)]
        ops = [coll(d, col, 100 * k) for k, (d, col) in enumerate(zip(c, cols))]
        run.count(("align", tuple(map(tuple, c))), nontrivial=len({tuple(d) for d in c}) > 1)
        if any(tuple(o[1].divisions) != tuple(d) for o, d in zip(ops, c)):
            run.broken_tie("T-LAYER align: operand does not report the requested divisions", {"divisions": c, "reported": [list(o[1].divisions) for o in ops]})
            continue
        r = try_(lambda: list(calc_divisions_for_align(*[o[1].expr for o in ops])))
        q = ops[0][1][cols[0]]
        exp = ops[0][0][cols[0]]
        for o, col in zip(ops[1:], cols[1:]):
            q = q + o[1][col]
            exp = exp + o[0][col]
        rq = try_(lambda: list(q.divisions))
        real = None if r[0] == "raise" else [int(v) for v in r[1]]
        realq = None if rq[0] == "raise" else [None if v is None else int(v) for v in rq[1]]
        differs = real != model or realq != folded[ci]
        do_compute = differs or ci % (6 if quick else 3) == 0
        if do_compute:
            computed += 1
            o = try_(lambda: q.optimize(fuse=False))
            parts = try_(lambda: [o[1].partitions[i].compute() for i in range(o[1].npartitions)]) if o[0] == "ok" else o
            case = {"kind": "align-layer", "divisions": c}
            if parts[0] == "raise":
                run.violation("aligned sum of operands with divisions %s raises %s" % (c, parts[1]), case)
                continue
            od = list(o[1].divisions)
            whole = pd.concat(parts[1])
            if canon(whole) != canon(exp):
                run.violation("aligned sum of operands with divisions %s differs from pandas: %s vs %s" % (c, _short(canon(whole)), _short(canon(exp))), case)
                continue
            if od[0] is not None:
                tb = m.batch(["(truthfulb %s %s)" % (sx([int(d) for d in od]), sx([[int(v) for v in p.index] for p in parts[1]]))])[0]
                if tb != "true":
                    run.violation("aligned sum of operands with divisions %s reports divisions %s but its partitions hold index values %s" % (c, od, [[int(v) for v in p.index] for p in parts[1]]), case)
                    continue
            if [None if v is None else int(v) for v in od] != folded[ci]:
                differs = True
        if differs:
            bad += 1
            run.broken_tie("T-LAYER calc_divisions_for_align / MaybeAlignPartitions._divisions vs Align.align_divisions",
                           {"divisions": c, "real": real if r[0] == "ok" else "raises " + str(r[1])[:200], "collection": realq if rq[0] == "ok" else "raises " + str(rq[1])[:200], "model": model, "model_collection": folded[ci]})
    # the branch taken when every operand has one partition
    for c, a in zip(cases[:60], model_single):
        model = [int(v) for v in common.parse_sx(a)]
        ds = [[c[0][0], c[0][-1]], [c[1][0], c[1][-1]]]
        run.count(("align-single", tuple(map(tuple, ds))))
        pa, pb = _frame(pd, ds[0], "x", 0), _frame(pd, ds[1], "y", 100)
        q = rt.dx.from_pandas(pa, npartitions=1, sort=True).x + rt.dx.from_pandas(pb, npartitions=1, sort=True).y
        rq = try_(lambda: [int(v) for v in q.divisions])
        if rq[0] == "raise" or rq[1] != model:
            got = try_(lambda: q.compute())
            case = {"kind": "align-single", "divisions": ds}
            if got[0] == "ok" and rq[0] == "ok" and len(rq[1]) == 2 and len(got[1]) and not (rq[1][0] <= int(got[1].index.min()) and int(got[1].index.max()) <= rq[1][1]):
                run.violation("sum of single-partition operands with divisions %s reports divisions %s but holds index values %d..%d" % (ds, rq[1], got[1].index.min(), got[1].index.max()), case)
            else:
                bad += 1
                run.broken_tie("T-LAYER MaybeAlignPartitions._divisions (single partitions) vs Align.align_single", {"divisions": ds, "real": rq[1] if rq[0] == "ok" else "raises " + str(rq[1])[:200], "model": model})
    run.section("align_layer", cases=len(cases), computed=computed, single_partition_cases=60, differing=bad)
