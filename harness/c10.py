"""C10 -- execution knobs change performance only (DESIGN.md section 6, C10)."""
import common
from common import sx, opt


def real_tree_layers(n_max, ses):
    """Real TreeReduce._layer for every (n, split_every): canonical index structure."""
    import rt
    import pandas as pd
    out = {}
    pdf = pd.DataFrame({"x": range(n_max)})
    for n in range(1, n_max + 1):
        df = rt.dx.from_pandas(pdf, npartitions=n, sort=False)
        if df.npartitions != n:
            continue
        for se in ses:
            q = df.x.sum(split_every=se)
            e = q.expr.lower_completely()
            trs = rt.find(e, "TreeReduce")
            assert len(trs) == 1, trs
            tr = trs[0]
            layer = tr._layer()
            inner = tr.frame._name
            name = tr._name
            levels = {}
            final = None
            for k, t in layer.items():
                assert k[0] == name, ("key not derived from own name", k)
                if len(k) == 2:
                    assert k[1] == 0 and final is None
                    # (apply, aggregate, [keys], kwargs)
                    assert t[1] is tr.aggregate and len(t[2]) == 1, t
                    final = t[2][0]
                else:
                    _, j, i = k
                    if tr.combine_kwargs:
                        assert t[1] is tr.combine
                        batch = t[2][0]
                    else:
                        assert t[0] is tr.combine
                        batch = t[1]
                    levels.setdefault(j, {})[i] = batch
            def pos(key, j):
                if j == 0:
                    assert key[0] == inner and len(key) == 2, key
                    return key[1]
                assert key[0] == name and key[1] == j, (key, j)
                return key[2]
            lv = []
            for j in sorted(levels):
                assert j == len(lv) + 1
                row = [levels[j][i] for i in range(len(levels[j]))]
                lv.append([[pos(k, j - 1) for k in b] for b in row])
            last = len(lv)
            nlast = len(lv[-1]) if lv else n
            fin = [pos(k, last) for k in final]
            assert fin == list(range(nlast)), ("final task does not read every key of the last level", fin)
            out[(n, se)] = lv
    return out


def run(run):
    import rt
    run.trusted = common.COMMON_TRUSTED + [
        "pandas reductions inside chunk/combine/aggregate are Section hypotheses (agg_combine) discharged for sum/count/min/max/len over Z with NA",
    ]
    run.rule = ("T-LAYER: every (npartitions n, split_every) with n<=N, split_every in {False,2..16}: real TreeReduce._layer vs model tree_layer, structurally; "
                "non-trivial = at least one combine level; E2E knob grid on real queries vs knob-free baseline")
    ps = run.proofs("PropC10.v")
    quick = run.tier == "quick"
    N = 64 if quick else 300
    ses = [False, 2, 3, 4, 5, 7, 8, 16] if quick else [False] + list(range(2, 17)) + [32]
    real = real_tree_layers(N, ses)
    m = common.Model()
    keys = sorted(real, key=lambda k: (k[0], str(k[1])))
    reqs = ["(tree_layer %s %d)" % (sx(None if se is False else common.Some(se)), n) for n, se in keys]
    ans = m.batch(reqs)
    bad = 0
    for k, a in zip(keys, ans):
        exp = "(some %s)" % sx(real[k])
        run.count(("tree", k), nontrivial=len(real[k]) > 0)
        if a != exp:
            bad += 1
            if bad <= 5:
                run.broken_tie("T-LAYER TreeReduce._layer", {"n": k[0], "split_every": k[1], "model": a[:300], "real": exp[:300]})
        if k == (11, 3):
            run.sample({"TreeReduce._layer": {"n": 11, "split_every": 3, "levels": real[k]}})
    run.section("tree_layer", compared=len(keys), disagreements=bad, n_max=N, split_every=[str(s) for s in ses], exhaustive=True)
    # split_every validation: values < 2 are rejected
    import pandas as pd
    df = rt.dx.from_pandas(pd.DataFrame({"x": range(8)}), npartitions=4)
    for se in (1, 0, -3):
        try:
            df.x.sum(split_every=se).compute()
            run.violation("split_every=%r accepted" % se, {"kind": "split_every", "value": se})
        except ValueError:
            pass
        run.count(("se-invalid", se), nontrivial=False)
    import c10_e2e
    c10_e2e.run(run, bad > 0)
    # routing of sort_values / set_index on divisions (SetIndex.v: C10_sort_any_divisions_ordered); last, so that the random
    # draws of the families above are unchanged
    import setindex_layer
    setindex_layer.function_layer(run, quick)
    setindex_layer.sort_order_layer(run, rt, quick)
