"""C01 family: column selections (and what is pushed below them) over concats whose inputs are differently derived views
of the same source or of different sources.

A concat joins its inputs on the union of their index labels (axis=1) or stacks their rows (axis=0); the projection
push-down into a concat narrows every input and may remove inputs altogether.  Whether that is legal depends on the
HISTORY of every input: label-keeping elementwise operations, operations that relabel the rows (reset_index, rename_axis,
Series.rename(index=f), add_prefix on a Series, to_timestamp, set_index), reorder them (sort_values, shuffle), drop rows
(filters, dropna, loc slices, head) or come from another source.  The family enumerates histories x sources (index kind,
sortedness, duplicates, unnamed index) x layouts (1-3 partitions, known / unknown divisions) x selections (columns of one
input only, of several inputs, as a list / a single column / reordered) x consumers (frame, index, reductions, elementwise,
filter) and compares every optimized plan (both fuse modes; every stage in the thorough tier) with the same query lowered
without optimization: values, index labels, row order, column labels and the names of the index levels.
"""
import numpy as np
import pandas as pd

from e2e import STAGES, _short, canon, concat_parts, exec_expr, stage_expr, try_

# ------------------------------------------------------------------------------------------------ sources


def _table(index):
    n = len(index)
    return pd.DataFrame({
        "x": [float(i) * 1.5 for i in range(n)],
        "z": [("s%d" % (i % 5)) for i in range(n)],
        "y": [(i * 7) % 11 for i in range(n)],
        "w": [np.nan if i % 4 == 1 else float(i % 3) for i in range(n)],
        "v": [i % 3 for i in range(n)],
        "b": [i % 2 == 0 for i in range(n)],
    }, index=index)


N = 12


def sources():
    perm = [3, 1, 2, 0, 5, 4, 10, 7, 11, 6, 9, 8]
    return {
        "int index, unsorted": _table(pd.Index(perm, name="i")),
        "int index, sorted": _table(pd.Index(range(N), name="i")),
        "int index, unnamed": _table(pd.Index([p * 2 for p in perm])),
        "int index, duplicates": _table(pd.Index([p // 2 for p in sorted(perm)], name="i")),
        "int index, unsorted duplicates": _table(pd.Index([p // 3 for p in perm], name="i")),
        "str index": _table(pd.Index(["k%02d" % p for p in perm], name="key")),
        "float index with NaN": _table(pd.Index([float(p) if p != 4 else np.nan for p in perm], name="i")),
        "datetime index": _table(pd.DatetimeIndex(pd.Timestamp("2021-01-01") + pd.to_timedelta(sorted(perm), unit="D"), name="t")),
        "period index": _table(pd.period_range("2021-01", periods=N, freq="M", name="p")),
        "range index": _table(pd.RangeIndex(N)),
    }


LAYOUTS = [(1, True), (2, True), (3, True), (1, False), (2, False), (3, False)]

# the columns every input of a concat is built from (disjoint: the columns of a column-wise concat are then unique)
INPUT_COLS = [["x", "z"], ["y", "w"], ["v", "b"]]

# ------------------------------------------------------------------------------------------------ histories
# name -> (kind, f(frame with two columns [c0, c1], c0 numeric)) ; kinds:
#   keep     the index labels of the input are those of the source
#   relabel  as many rows as the source, other labels / other index name / other order
#   subset   fewer rows
#   layout   same rows, other partitioning


def _shift_labels(p):
    p = p.copy()
    if len(p) and not isinstance(p.index, (pd.DatetimeIndex, pd.PeriodIndex)) and p.index.dtype != object and str(p.index.dtype) not in ("str", "string"):
        p.index = p.index + 1
    else:
        p.index = p.index[::-1]
    return p


def histories():
    h = {}
    h["identity"] = ("keep", lambda f, c: f)
    h["+ 1"] = ("keep", lambda f, c: f[[c[0]]] + 1)
    h["fillna"] = ("keep", lambda f, c: f.fillna(0))
    h["astype float"] = ("keep", lambda f, c: f[[c[0]]].astype("float64"))
    h["abs of series"] = ("keep", lambda f, c: f[c[0]].abs())
    h["series"] = ("keep", lambda f, c: f[c[1]])
    h["series to_frame"] = ("keep", lambda f, c: f[c[0]].to_frame())
    h["rename columns"] = ("keep", lambda f, c: f.rename(columns={c[0]: c[0] + "_r"}))
    h["add_suffix"] = ("keep", lambda f, c: f.add_suffix("_s"))
    h["add_prefix frame"] = ("keep", lambda f, c: f.add_prefix("p_"))
    h["assign"] = ("keep", lambda f, c: f.assign(**{c[0] + "_n": f[c[0]] * 2}))
    h["isna"] = ("keep", lambda f, c: f.isna())
    h["where"] = ("keep", lambda f, c: f[[c[0]]].where(f[c[0]] > 2))
    h["cumsum"] = ("keep", lambda f, c: f[[c[0]]].cumsum())
    h["shift"] = ("keep", lambda f, c: f[[c[0]]].shift(1))
    h["map_partitions keeping labels"] = ("keep", lambda f, c: f.map_partitions(lambda p: p * 1, meta=f._meta))
    h["series rename name"] = ("keep", lambda f, c: f[c[0]].rename(c[0] + "_q"))
    h["two column elemwise"] = ("keep", lambda f, c: (f[c[0]] + f[c[0]] * 2).to_frame(c[0] + "_e"))
    # --- relabelling, length preserving
    h["reset_index(drop)"] = ("relabel", lambda f, c: f.reset_index(drop=True))
    h["reset_index(drop) of + 1"] = ("relabel", lambda f, c: (f[[c[0]]] + 1).reset_index(drop=True))
    h["+ 1 of reset_index(drop)"] = ("relabel", lambda f, c: f[[c[0]]].reset_index(drop=True) + 1)
    h["series reset_index(drop)"] = ("relabel", lambda f, c: f[c[0]].reset_index(drop=True))
    h["reset_index"] = ("relabel", lambda f, c: f.reset_index().rename(columns=lambda n: "%s_of_%s" % (n, c[0]) if n not in c else n))
    h["rename_axis(k)"] = ("relabel", lambda f, c: f.rename_axis("k"))
    h["rename_axis(None)"] = ("relabel", lambda f, c: f.rename_axis(None))
    h["rename_axis(k) of series"] = ("relabel", lambda f, c: f[c[0]].rename_axis("k"))
    h["series rename(index=f)"] = ("relabel", lambda f, c: f[c[0]].rename(index=_Relabel()))
    h["series add_prefix"] = ("relabel", lambda f, c: f[c[0]].add_prefix("r"))
    h["series add_suffix"] = ("relabel", lambda f, c: f[c[0]].add_suffix("r"))
    h["to_timestamp"] = ("relabel", lambda f, c: f.to_timestamp())
    h["set_index(column)"] = ("relabel", lambda f, c: f.set_index(c[0]))
    h["set_index(column, sorted)"] = ("relabel", lambda f, c: f.assign(**{c[0]: f[c[0]].cumsum()}).set_index(c[0], sorted=True))
    h["sort_values"] = ("relabel", lambda f, c: f.sort_values(c[0], ascending=False))
    h["shuffle"] = ("relabel", lambda f, c: f.shuffle(c[0]))
    h["map_partitions relabelling"] = ("relabel", lambda f, c: f.map_partitions(_shift_labels, meta=f._meta))
    h["index to_series"] = ("relabel", lambda f, c: f[c[0]].index.to_series().rename(c[0] + "_i"))
    h["index to_frame"] = ("relabel", lambda f, c: f.index.to_frame(name=c[0] + "_i"))
    # --- fewer rows
    h["filter"] = ("subset", lambda f, c: f[f[c[0]] > 3])
    h["filter on other column"] = ("subset", lambda f, c: f[f[c[1]].isna() | (f[c[0]] < 4)][[c[0]]])
    h["dropna"] = ("subset", lambda f, c: f.dropna())
    h["filter all rows away"] = ("subset", lambda f, c: f[f[c[0]] > 1000])
    h["filter nothing away"] = ("subset", lambda f, c: f[f[c[0]] > -1000])
    h["head"] = ("subset", lambda f, c: f.head(2, npartitions=-1, compute=False))
    h["tail"] = ("subset", lambda f, c: f.tail(2, compute=False))
    h["first partition"] = ("subset", lambda f, c: f.partitions[0])
    h["partitions reversed"] = ("relabel", lambda f, c: f.partitions[list(range(f.npartitions))[::-1]])
    h["drop_duplicates"] = ("subset", lambda f, c: f.drop_duplicates(subset=[c[0]]))
    h["isin filter of series"] = ("subset", lambda f, c: f[c[0]][f[c[0]].isin([0, 1, 3, 4.5])])
    # --- other partitioning
    h["repartition(1)"] = ("layout", lambda f, c: f.repartition(npartitions=1))
    h["repartition(4)"] = ("layout", lambda f, c: f.repartition(npartitions=4))
    h["clear_divisions"] = ("layout", lambda f, c: f.clear_divisions())
    return h


class _Relabel:
    """index label -> other label, with a stable token"""

    def __call__(self, label):
        return "L%s" % (label,)

    def __dask_tokenize__(self):
        return "c01-concat-relabel"


# ------------------------------------------------------------------------------------------------ selections / consumers

def _labels(obj):
    return list(obj.columns) if obj.ndim == 2 else [obj.name]


def selections(outcols, rng=None):
    """outcols: the column labels contributed by every input.  Yields (name, selector function)."""
    out = []
    k = len(outcols)
    for i in range(k):
        if not outcols[i] or None in outcols[i]:
            continue
        cols = list(outcols[i])
        out.append(("all columns of input %d" % i, cols, lambda q, cols=cols: q[cols]))
        out.append(("first column of input %d as a Series" % i, cols[:1], lambda q, cols=cols: q[cols[0]]))
        if len(cols) > 1:
            out.append(("last column of input %d" % i, cols[-1:], lambda q, cols=cols: q[cols[-1:]]))
    named = [[c for c in oc if c is not None] for oc in outcols]
    if k >= 2 and all(named):
        mixed = [oc[0] for oc in named]
        out.append(("first column of every input, reversed", mixed[::-1], lambda q, cols=mixed[::-1]: q[cols]))
        for i in range(k):
            rest = [c for j, oc in enumerate(named) if j != i for c in oc]
            if k > 2:
                out.append(("everything but input %d" % i, rest, lambda q, cols=rest: q[cols]))
    return out


CONSUMERS = {
    "frame": lambda s: s,
    "index": lambda s: s.index,
    "count": lambda s: s.count(),
    "size": lambda s: s.size,
    "+ 1 of numeric": lambda s: s.select_dtypes("number") + 1 if s.ndim == 2 else s,
    "isna": lambda s: s.isna(),
    "reset_index": lambda s: s.reset_index(),
    "dropna": lambda s: s.dropna(),
    "head": lambda s: s.head(5, npartitions=-1, compute=False),
    "nunique of index": lambda s: s.index.nunique(),
}

# ------------------------------------------------------------------------------------------------ comparison


def observe(obj, ordered=True, names=True):
    """Everything the query defines about its result: values, labels, row order, column labels, names of the index levels."""
    c = canon(obj, ordered, True)
    if names and isinstance(obj, (pd.DataFrame, pd.Series)):
        return (c, ("index names", tuple(None if n is None else str(n) for n in obj.index.names)))
    return (c,)


def result_of(expr, ordered=True, names=True):
    return observe(concat_parts(exec_expr(expr)), ordered, names)


def plans(coll, every_stage):
    """every_stage: True = the five optimizer stages, False = the two final plans, "fused" = the fused final plan only"""
    out = []
    if every_stage is True:
        for st in STAGES:
            out.append(("stage " + st, lambda st=st: stage_expr(coll.expr, st)))
    else:
        if every_stage != "fused":
            out.append(("optimize(fuse=False)", lambda: coll.optimize(fuse=False).expr))
        out.append(("optimize(fuse=True)", lambda: coll.optimize(fuse=True).expr))
    return out


def build(rt, srcs, case):
    """The query of a case dict (everything needed to rebuild it is in the dict)."""
    hs = histories()
    frames = []
    outcols = []
    made = {}
    for inp in case["inputs"]:
        skey = (inp["source"], inp["npartitions"], inp["sort"])
        if skey not in made:
            made[skey] = rt.dx.from_pandas(srcs[inp["source"]], npartitions=inp["npartitions"], sort=inp["sort"])
        cols = inp["cols"]
        f = hs[inp["history"]][1](made[skey][cols], cols)
        frames.append(f)
        outcols.append(_labels(f))
    kw = {"axis": case["axis"], "join": case["join"]}
    if case.get("interleave"):
        kw["interleave_partitions"] = True
    q = rt.dx.concat(frames, **kw)
    return q, outcols, frames


# Inputs of the family on which the UNMODIFIED tree differs between the optimized and the unoptimized plan (found by this family, reported as
# findings, left out here so that a violation always is news):
#  P1  a concat whose single-partition inputs have known and unknown divisions: Concat.divisions raises (min() over None and labels); the
#      unoptimized lowering never asks, Len / Size / Index rewrites and the fusion do                              -> _divisions_ok
#  P2  the projection push-down narrows an input that contributes no selected column to ZERO columns; a partition of it without rows is a
#      0 x 0 frame, which pandas refuses next to a Series ("unaligned mixed dimensional") and leaves out when it names the index of the
#      result (the 0 x k partition of the unoptimized plan takes part)                                               -> _empty_risk
#  P3  dropping / narrowing an input changes the ORDER of the union of unequal indexes (pandas: labels of the first input, then the new
#      labels of the following ones)                                                                                  -> ordered only over equal indexes
#  P4  axis=0 over inputs with different index names: the name of the result's index differs between the plans        -> names not compared
#  P5  from_pandas(sort=True) over an index with NaN puts NaN into the divisions; alignment then loses rows in one plan only -> layout left out
ORDER_SENSITIVE = ("head", "reset_index")


def _divisions_ok(q, frames):
    return try_(lambda: tuple(q.divisions))[0] == "ok" and all(try_(lambda f=f: tuple(f.divisions))[0] == "ok" for f in frames)


def _same_divisions(frames):
    d = [tuple(f.divisions) for f in frames]
    return all(repr(x) == repr(d[0]) for x in d)


class _Lengths:
    """partition lengths of the inputs, computed on demand with the unoptimized plan"""

    def __init__(self, frames):
        self.frames = frames
        self.memo = {}

    def has_empty(self, i):
        if i not in self.memo:
            r = try_(lambda: [len(p) for p in exec_expr(self.frames[i].expr.lower_completely())])
            self.memo[i] = r[0] == "raise" or any(n == 0 for n in r[1])
        return self.memo[i]


def check_case(run, rt, srcs, case, sel_filter=None, consumers=("frame",), every_stage=False):
    """All selections x consumers over the concat of a case.  Returns the number of evaluated cases."""
    import warnings
    n = 0
    if any(i["source"] == "float index with NaN" and i["sort"] for i in case["inputs"]):
        return 0        # P5
    with warnings.catch_warnings():
        warnings.simplefilter("ignore")
        b = try_(lambda: build(rt, srcs, case))
    if b[0] == "raise":
        return 0
    q, outcols, frames = b[1]
    flat = [c for oc in outcols for c in oc]
    if len(set(map(repr, flat))) != len(flat) and case["axis"] == 1:
        return 0        # duplicated column labels: a selection by label is another query family
    if not _divisions_ok(q, frames):
        return 0        # P1
    hs = histories()
    aligned = _same_divisions(frames)
    lengths = _Lengths(frames)
    # the inputs have the same index labels in the same order (then the order of the result is defined whatever happens to the inputs)
    equal_indexes = aligned and all(hs[i["history"]][0] == "keep" for i in case["inputs"]) and len({(i["source"], i["npartitions"], i["sort"]) for i in case["inputs"]}) == 1
    names = case["axis"] == 1 or len({tuple(f._meta.index.names) for f in frames}) == 1      # P4
    sels = selections(outcols) if case["axis"] == 1 else selections([sorted({c for oc in outcols for c in oc if c is not None}, key=str)])
    sels.append(("no selection", flat, lambda q: q))
    for sname, scols, sel in sels:
        if sel_filter is not None and not sel_filter(sname):
            continue
        for cname in consumers:
            if cname in ORDER_SENSITIVE and not equal_indexes:
                continue        # P3
            if case["axis"] == 1:
                used = scols    # the columns the consumer really reads
                if cname == "+ 1 of numeric":
                    m = try_(lambda: sel(q)._meta)
                    if m[0] == "ok" and getattr(m[1], "ndim", 1) == 2:
                        used = list(m[1].select_dtypes("number").columns)
                unselected = [i for i, oc in enumerate(outcols) if frames[i].ndim == 2 and not any(c in used for c in oc)]
                if any((not aligned) or lengths.has_empty(i) for i in unselected):
                    continue        # P2
            full = dict(case, selection=sname, columns=[str(c) for c in scols], consumer=cname)
            coll = try_(lambda: CONSUMERS[cname](sel(q)))
            if coll[0] == "raise" or not hasattr(coll[1], "expr"):
                continue
            coll = coll[1]
            ref = try_(lambda: result_of(coll.expr.lower_completely(), equal_indexes, names))
            if ref[0] == "raise":
                continue        # the query itself does not compute: nothing is promised
            for pname, plan in plans(coll, every_stage):
                n += 1
                run.count(("concat-history", repr(sorted(full.items(), key=lambda kv: kv[0])), pname))
                got = try_(lambda: result_of(plan(), equal_indexes, names))
                full_p = dict(full, plan=pname)
                desc = describe(full)
                if got[0] == "raise":
                    run.violation("%s: %s fails (%s), the unoptimized query computes %s" % (desc, pname, got[1], _short(ref[1])), full_p)
                elif got[1] != ref[1]:
                    run.violation("%s: %s gives %s, the unoptimized query %s" % (desc, pname, _short(_diff(got[1], ref[1])), _short(_diff(ref[1], got[1]))), full_p)
    return n


def _diff(a, b):
    """a, reduced to what differs from b when both have the same shape (keeps messages readable)."""
    if len(a) == 2 and len(b) == 2 and a[0] == b[0]:
        return a[1]
    c, d = a[0], b[0]
    if c[0] in ("frame", "series") and d[0] == c[0] and c[1] == d[1]:
        extra = [r for r in c[2] if r not in d[2]]
        return (c[0], c[1], "%d rows" % len(c[2]), "rows not in the other result:", extra[:4]) + tuple(a[1:])
    return a


def describe(case):
    ins = ", ".join("%s(src[%s] of %s, npartitions=%d, sort=%s)" % (i["history"], ",".join(i["cols"]), i["source"], i["npartitions"], i["sort"]) for i in case["inputs"])
    return "concat([%s], axis=%d, join=%s)%s -> %s %s -> %s" % (ins, case["axis"], case["join"], " interleaved" if case.get("interleave") else "",
                                                              case.get("selection"), case.get("columns"), case.get("consumer"))


# ------------------------------------------------------------------------------------------------ driver

def _inp(source, npart, sort, history, cols):
    return {"source": source, "npartitions": npart, "sort": sort, "history": history, "cols": list(cols)}


def run_family(run, rt):
    import time
    t0, c0 = time.time(), time.process_time()
    rng = run.rng
    quick = run.tier == "quick"
    srcs = sources()
    hs = histories()
    names = list(hs)
    stats = {"systematic": 0, "random": 0, "axis0": 0, "histories": len(hs), "sources": len(srcs)}
    # (1) systematic: every history as the second input next to an untouched first input of the same source; the selection
    #     takes nothing from / only from / something from the input with the history
    core_sources = [("int index, unsorted", 2, False), ("int index, sorted", 3, True), ("int index, unnamed", 1, False)]
    every = [(s, k, so) for s in srcs for (k, so) in LAYOUTS]
    for hname in names:
        lay = core_sources if quick else core_sources + rng.sample(every, 8)
        if hname == "to_timestamp":
            lay = [("period index", k, so) for (k, so) in ([(2, True), (1, True)] if quick else LAYOUTS)]
        # next to a relabelled input (unknown divisions) an input with known divisions does not compute at all: clear them
        lay = [(s, k, so, "identity") for (s, k, so) in lay] + [(s, k, so, "clear_divisions") for (s, k, so) in lay if so and k > 1 and hs[hname][0] == "relabel"]
        for li, (s, k, so, first) in enumerate(lay):
            case = {"kind": "concat-history", "inputs": [_inp(s, k, so, first, INPUT_COLS[0]), _inp(s, k, so, hname, INPUT_COLS[1])], "axis": 1, "join": "outer"}
            if quick:
                wanted = ("all columns of input 0", "all columns of input 1") + (("first column of input 0 as a Series",) if li == 0 else ())
                stats["systematic"] += check_case(run, rt, srcs, case, consumers=("frame",), every_stage=False if li == 0 else "fused", sel_filter=lambda sn: sn in wanted)
            else:
                stats["systematic"] += check_case(run, rt, srcs, case, consumers=("frame", rng.choice(list(CONSUMERS)[1:])), every_stage=True)
    # (2) random: 2-3 inputs, any history per input, same or different sources / layouts, both joins, one random selection and consumer
    n_random = 50 if quick else 2500
    src_names = list(srcs)
    for _ in range(n_random):
        k_in = rng.choice([2, 2, 3])
        s = rng.choice(src_names)
        k, so = rng.choice(LAYOUTS)
        inputs = []
        for j in range(k_in):
            if rng.random() < 0.15:       # an input of another source / another layout of the same source
                s2, (k2, so2) = rng.choice([s, rng.choice(src_names)]), rng.choice(LAYOUTS)
            else:
                s2, k2, so2 = s, k, so
            kinds = rng.choice([("keep",), ("relabel",), ("relabel",), ("subset",), ("keep", "relabel", "subset", "layout")])
            hname = rng.choice([h for h in names if hs[h][0] in kinds and (h != "to_timestamp" or s2 == "period index")])
            inputs.append(_inp(s2, k2, so2, hname, INPUT_COLS[j]))
        rng.shuffle(inputs)
        case = {"kind": "concat-history", "inputs": inputs, "axis": 1, "join": rng.choice(["outer", "outer", "inner"])}
        pick = rng.randrange(1 << 30)
        cons = rng.choice(list(CONSUMERS))
        stats["random"] += check_case(run, rt, srcs, case, consumers=(cons,), every_stage=not quick, sel_filter=_Pick(pick))
    # (3) row-wise concats of the same histories (the inputs share their columns): selections of a part of the columns
    n_axis0 = 16 if quick else 800
    for _ in range(n_axis0):
        s = rng.choice(src_names)
        k, so = rng.choice(LAYOUTS)
        inputs = []
        for j in range(rng.choice([2, 2, 3])):
            hname = rng.choice([h for h in names if (h != "to_timestamp" or s == "period index")])
            inputs.append(_inp(s, k, so, hname, rng.choice([["x", "z"], ["y", "w"], ["x", "w"], ["y", "z"]])))
        case = {"kind": "concat-history", "inputs": inputs, "axis": 0, "join": rng.choice(["outer", "outer", "inner"]), "interleave": True}
        cons = rng.choice(["frame", "frame", "count", "index", "isna"])
        stats["axis0"] += check_case(run, rt, srcs, case, consumers=(cons,), every_stage=not quick, sel_filter=_Pick(rng.randrange(1 << 30)))
    run.section("concat_histories", wall_s=round(time.time() - t0, 1), cpu_s=round(time.process_time() - c0, 1), **stats)


class _Pick:
    """Selects one of the offered selections, deterministically (hash of the name with a drawn number)."""

    def __init__(self, salt):
        self.salt = salt

    def __call__(self, name):
        import hashlib
        return (int(hashlib.sha1(name.encode()).hexdigest()[:8], 16) ^ self.salt) % 3 == 0


def replay_case(run, rt, case):
    srcs = sources()
    c = {k: v for k, v in case.items() if k not in ("selection", "columns", "consumer", "plan")}
    return check_case(run, rt, srcs, c, consumers=(case["consumer"],), sel_filter=lambda sn: sn == case["selection"], every_stage=True if case.get("plan", "").startswith("stage") else False)
