"""C16 family "grouped aggregations and other option-carrying operators".

A collection is rebuilt by the receiving process from (type, operands) alone, and its name is the token of those
operands.  The operators of this family carry *option containers* among their operands (the chunk / combine /
aggregate keyword dicts of the groupby reductions, aggregation specs, column lists, user keyword arguments of
apply / map_partitions, replacement dicts ...), and derive further state (sort, levels, ddof, numeric_only,
index_levels ...) from the operands on every access.  Whatever the originating process does with a collection --
looking at its schema, its divisions, planning it, computing it -- has to leave (type, operands) the value the name
was computed from; otherwise the two processes disagree about the keys / schema / result of the same collection.

Every case is built from a JSON-serialisable description (`build`), pickled twice in the originating process --
immediately after it was built ("fresh") and after the originating process has used it (schema, divisions, optimize,
lower, compute: "used") -- in the as-built, the optimized and the lowered form, and loaded by a fresh interpreter.
Oracle = the originating process itself (`c16_ambient.describe`, the same code on both sides): name, schema,
npartitions, divisions, result dtypes, rows as a multiset and -- for the plans without a shuffle -- rows in order.
"""
import numpy as np
import pandas as pd

KEYS = ("k", "s", "f", "c", "ks", "kf", "expr")
NPARTS = (1, 2, 3, 4, 7)
SPLIT_EVERY = (None, 2, 3, False)
SPLIT_OUT = (None, 2, 3)
SORTS = (None, True, False)


# ----------------------------------------------------------------------------------------------------------
# data
# ----------------------------------------------------------------------------------------------------------

def tables(rng):
    """60 rows; keys: k int, s string, f float with NaN, c categorical (one unobserved category); measures x, y float, z int.
    "holes": the same with missing values in x / y and a nullable integer measure q."""
    n = 60
    mult, off = rng.choice([7, 11, 13, 17]), rng.randrange(5)
    k = np.array([(mult * i + off) % 5 for i in range(n)], dtype="int64")
    f = (k % 3).astype("float64")
    f[[i for i in range(n) if (i * 7 + off) % 9 == 0]] = np.nan
    g = np.random.RandomState(rng.randrange(10 ** 6))
    plain = pd.DataFrame({
        "k": k,
        "s": ["g%d" % (x % 4) for x in k + np.arange(n) // 20],
        "f": f,
        "c": pd.Categorical(["c%d" % (x % 3) for x in k], categories=["c0", "c1", "c2", "c9"]),
        "x": np.round(g.normal(size=n), 3),
        "y": np.round(g.normal(size=n) * 10, 2),
        "z": g.randint(0, 50, size=n).astype("int64"),
    }, index=pd.Index(np.arange(n), name="i"))
    holes = plain.copy()
    holes.loc[holes.index % 6 == 1, "x"] = np.nan
    holes.loc[holes.index % 11 == 3, "y"] = np.nan
    holes["q"] = pd.array([None if i % 7 == 3 else int(i % 4) for i in range(n)], dtype="Int64")
    return {"plain": plain, "holes": holes}


# ----------------------------------------------------------------------------------------------------------
# user functions (module level: the receiver imports them from here)
# ----------------------------------------------------------------------------------------------------------

def head_n(g, n=1):
    return g.head(n)


def demean(g, scale=1.0):
    return (g - g.mean()) * scale


def span(g, col="x"):
    return g[col].max() - g[col].min()


def add_cols(df, a=0, b="x", cols=()):
    out = df.copy()
    out[b] = out[b] + a
    for c in cols:
        out[c] = out[c] * 2
    return out


def agg_chunk(s):
    return s.sum()


def agg_agg(s):
    return s.sum()


def agg_final(s):
    return s * 2


AGG_SPECS = {
    "dict-str": {"x": "sum", "y": "mean"},
    "dict-list": {"x": ["min", "max"], "y": "var"},
    "dict-std-nunique": {"x": "std", "z": "nunique"},
    "dict-first-last": {"x": "first", "y": "last", "z": "count"},
    "dict-median": {"x": "median", "z": "sum"},
    "list": ["sum", "count"],
    "list-var-std": ["var", "std", "mean"],
    "str": "mean",
    "dict-prod-size": {"z": ["prod", "size"]},
    # {"z": "list"} is NOT part of the family: on the unmodified tree its optimized / lowered forms cannot be pickled by `pickle` at all (the
    # aggregate arguments hold a lambda local to dask's _build_agg_args_list) -- reported as a pristine finding, see the hs_C16 report.
    "custom": "custom",
}


def _spec(dx, name):
    if name == "custom":
        import dask.dataframe as dd
        return {"x": dd.Aggregation("twice_sum", agg_chunk, agg_agg, agg_final), "y": "sum"}
    s = AGG_SPECS[name]
    # a fresh container per query (the user's own dict is not shared between the cases)
    return {k: (list(v) if isinstance(v, list) else v) for k, v in s.items()} if isinstance(s, dict) else (list(s) if isinstance(s, list) else s)


# ----------------------------------------------------------------------------------------------------------
# the operators
# ----------------------------------------------------------------------------------------------------------

def _kw_tree(rng, split_out=True):
    kw = {}
    se = rng.choice(SPLIT_EVERY)
    if se is not None:
        kw["split_every"] = se
    if split_out:
        so = rng.choice(SPLIT_OUT)
        if so is not None:
            kw["split_out"] = so
    return kw


def _p_numeric(rng):
    kw = _kw_tree(rng)
    if rng.random() < 0.5:
        kw["numeric_only"] = rng.choice([True, False])
    return kw


def _p_sum(rng):
    kw = _p_numeric(rng)
    if rng.random() < 0.4:
        kw["min_count"] = rng.choice([1, 3, 20])
    return kw


def _p_ddof(rng):
    kw = _kw_tree(rng)
    if rng.random() < 0.7:
        kw["ddof"] = rng.choice([0, 1, 2])
    if rng.random() < 0.3:
        kw["numeric_only"] = rng.choice([True, False])
    return kw


def _p_corr(rng):
    kw = _kw_tree(rng)
    if rng.random() < 0.3:
        kw["numeric_only"] = rng.choice([True, False])
    return kw


def _p_idx(rng):
    kw = _kw_tree(rng)
    if rng.random() < 0.5:
        kw["skipna"] = True
    return kw


def _p_n(rng):
    kw = _kw_tree(rng)
    kw["n"] = rng.choice([1, 2, 5])
    return kw


def _p_agg(rng):
    kw = _kw_tree(rng)
    kw.pop("split_every", None) if kw.get("split_every") is False else None
    kw["spec"] = rng.choice(sorted(AGG_SPECS))
    return kw


def _p_median(rng):
    kw = {}
    if rng.random() < 0.5:
        kw["split_out"] = rng.choice([2, 3])
    if rng.random() < 0.3:
        kw["split_every"] = rng.choice([2, 3])
    return kw


def _p_series_shuffle(rng):
    kw = {}
    if rng.random() < 0.6:
        kw["split_out"] = rng.choice([True, 2, 3])
    if rng.random() < 0.4:
        kw["split_every"] = rng.choice([2, 3])
    return kw


def _p_none(rng):
    return {}


def _p_fill(rng):
    return {"limit": rng.choice([1, 2])} if rng.random() < 0.5 else {}


def _p_shift(rng):
    return {"periods": rng.choice([1, 2, -1])}


def _p_apply(rng):
    return {"fn": rng.choice(["head_n", "head_n-kw", "span", "span-kw"])}


def _p_transform(rng):
    return {"fn": rng.choice(["demean", "demean-kw"])}


def _p_group(rng):
    return {"key": rng.choice([0, 1, 3])}


# aggregation -> (parameter sampler, what it applies to: "frame" (all measures), "cols" (a list of measures), "series" (one measure), shuffles?)
AGGS = {
    "count": (_kw_tree, ("frame", "cols", "series"), False),
    "size": (_kw_tree, ("frame", "series"), False),
    "sum": (_p_sum, ("frame", "cols", "series"), False),
    "prod": (_p_sum, ("cols", "series"), False),
    "min": (_p_numeric, ("frame", "cols", "series"), False),
    "max": (_p_numeric, ("frame", "cols", "series"), False),
    "first": (_p_numeric, ("frame", "cols", "series"), False),
    "last": (_p_numeric, ("frame", "cols", "series"), False),
    "mean": (_p_numeric, ("frame", "cols", "series"), False),
    "var": (_p_ddof, ("frame", "cols", "series"), False),
    "std": (_p_ddof, ("frame", "cols", "series"), False),
    "cov": (_p_ddof, ("frame", "cols"), False),
    "corr": (_p_corr, ("frame", "cols"), False),
    "idxmin": (_p_idx, ("frame", "cols", "series"), False),
    "idxmax": (_p_idx, ("frame", "cols", "series"), False),
    "head": (_p_n, ("frame", "cols", "series"), False),
    "tail": (_p_n, ("frame", "cols", "series"), False),
    "agg": (_p_agg, ("frame",), False),
    "median": (_p_median, ("frame", "cols", "series"), True),
    "nunique": (_p_series_shuffle, ("series",), True),
    "value_counts": (_kw_tree, ("series",), False),
    "unique": (_kw_tree, ("series",), False),
    "cumsum": (_p_none, ("frame", "cols", "series"), False),
    "cumprod": (_p_none, ("cols", "series"), False),
    "cumcount": (_p_none, ("frame", "series"), False),
    "ffill": (_p_fill, ("frame", "cols"), True),
    "bfill": (_p_fill, ("frame", "cols"), True),
    "shift": (_p_shift, ("cols",), True),
    "apply": (_p_apply, ("cols",), True),
    "transform": (_p_transform, ("cols",), True),
    "get_group": (_p_group, ("frame", "cols"), False),
}

# the aggregations whose expression classes assemble their keyword dicts from operands (every quick run draws each of them at least once)
CORE = ("cov", "corr", "var", "std", "mean", "sum", "count", "first", "last", "min", "max", "idxmin", "idxmax", "head", "tail", "agg",
        "nunique", "value_counts", "unique", "median", "size", "prod")


def _by(by, df):
    if by == "ks":
        return ["k", "s"]
    if by == "kf":
        return ["k", "f"]
    if by == "expr":
        return df.k % 3
    return by


def _bycols(by):
    return {"ks": ["k", "s"], "kf": ["k", "f"], "expr": ["k"]}.get(by, [by])


def build_groupby(dx, T, case):
    pdf = T["holes" if case["holes"] else "plain"]
    measures = ["x", "y", "z"] + (["q"] if case["holes"] and case.get("q") else [])
    pdf = pdf[_bycols(case["by"]) + measures]
    df = dx.from_pandas(pdf, npartitions=case["n"], sort=True)
    g = df.groupby(_by(case["by"], df), **case["gb"])
    sel = case["select"]
    if sel is not None:
        g = g[sel]
    agg, kw = case["agg"], dict(case["kw"])
    if agg == "agg":
        return g.agg(_spec(dx, kw.pop("spec")), **kw)
    if agg == "apply":
        fn = kw.pop("fn")
        if fn.startswith("head_n"):
            meta = pdf[sel].iloc[:0]
            return g.apply(head_n, meta=meta, **({"n": 2} if fn.endswith("kw") else {}))
        return g.apply(span, meta=("span", "float64"), **({"col": sel[-1]} if fn.endswith("kw") else {"col": sel[0]}))
    if agg == "transform":
        fn = kw.pop("fn")
        meta = pdf[sel].iloc[:0].astype("float64")
        return g.transform(demean, meta=meta, **({"scale": 2.0} if fn.endswith("kw") else {}))
    if agg == "shift":
        return g.shift(kw["periods"], meta=pdf[sel].iloc[:0].astype("float64"))
    if agg == "get_group":
        return g.get_group(kw["key"])
    return getattr(g, agg)(**kw)


def other_ops():
    """Operators outside groupby that carry option containers (dicts / lists / user keyword arguments) among their operands:
    name -> f(dx, df, rng-free parameters)"""
    return {
        "frame-cov": lambda dx, d, p: d[["x", "y", "z"]].cov(**p),
        "frame-corr": lambda dx, d, p: d[["x", "y", "z"]].corr(**p),
        "series-cov": lambda dx, d, p: d.x.cov(d.y, **p),
        "series-corr": lambda dx, d, p: d.x.corr(d.y, **p),
        "frame-var": lambda dx, d, p: d[["x", "y"]].var(**p),
        "frame-std-skipna": lambda dx, d, p: d[["x", "y"]].std(skipna=False, **p),
        "frame-sum-min_count": lambda dx, d, p: d[["x", "y", "z"]].sum(min_count=3, **p),
        "frame-mean-numeric_only": lambda dx, d, p: d[["s", "x", "z"]].mean(numeric_only=True, **p),
        "frame-nunique": lambda dx, d, p: d[["k", "s"]].nunique(**p),
        "series-quantile-list": lambda dx, d, p: d.y.quantile([0.25, 0.5, 0.75]),
        "frame-quantile": lambda dx, d, p: d[["x", "z"]].quantile(0.3),
        "frame-describe": lambda dx, d, p: d[["x", "z"]].describe(),
        "frame-mode": lambda dx, d, p: d.k.mode(),
        "series-value_counts": lambda dx, d, p: d.s.value_counts(**p),
        "series-value_counts-normalize": lambda dx, d, p: d.k.value_counts(normalize=True, sort=False),
        "drop_duplicates-subset": lambda dx, d, p: d[["k", "s", "z"]].drop_duplicates(subset=["k", "s"], **p),
        "fillna-dict": lambda dx, d, p: d[["x", "y", "z"]].fillna({"x": 0.0, "y": -1.0}),
        "replace-dict": lambda dx, d, p: d[["k", "z"]].replace({0: 100, 1: 101}),
        "rename-dict": lambda dx, d, p: d[["k", "x"]].rename(columns={"x": "xx", "k": "kk"}),
        "astype-dict": lambda dx, d, p: d[["k", "z", "x"]].astype({"k": "float64", "z": "int32"}),
        "assign-many": lambda dx, d, p: d[["x", "z"]].assign(a=d.x + 1, b=d.z * 2, c=7),
        "isin-list": lambda dx, d, p: d[d.k.isin([1, 3])][["k", "x"]],
        "isin-dict-frame": lambda dx, d, p: d[["k", "z"]].isin([0, 1, 2]),
        "clip": lambda dx, d, p: d[["x", "y"]].clip(lower=-0.5, upper=0.5),
        "round-dict": lambda dx, d, p: d[["x", "y"]].round({"x": 1, "y": 0}),
        "map_partitions-kwargs": lambda dx, d, p: d[["x", "z"]].map_partitions(add_cols, a=3, b="z", cols=["x"]),
        "map_partitions-args": lambda dx, d, p: d[["x", "z"]].map_partitions(add_cols, 2, "x"),
        "apply-rows-kwargs": lambda dx, d, p: d[["x", "z"]].apply(_row_sum, axis=1, w=2.0, meta=("r", "float64")),
        "series-map-dict": lambda dx, d, p: d.k.map({0: 10, 1: 11, 2: 12}, meta=("k", "float64")),
        "nlargest-list": lambda dx, d, p: d[["k", "z", "x"]].nlargest(5, columns=["z", "x"]),
        "nsmallest": lambda dx, d, p: d.z.nsmallest(4),
        "sort_values-list": lambda dx, d, p: d[["k", "z"]].sort_values(["k", "z"], ascending=[True, False]),
        "pivot_table": lambda dx, d, p: d[["k", "c", "x"]].categorize(columns=["c"]).pivot_table(index="k", columns="c", values="x", aggfunc="sum"),
        "explode": lambda dx, d, p: d[["k"]].assign(l=d.k.map(_to_list, meta=("k", "object"))).explode("l"),
        "rolling-agg-kwargs": lambda dx, d, p: d[["x", "z"]].rolling(3, min_periods=1).agg("sum"),
        "rolling-var": lambda dx, d, p: d.x.rolling(4, min_periods=2, center=True).var(),
        "rolling-apply-kwargs": lambda dx, d, p: d.z.rolling(3).apply(_win, raw=True, kwargs={"w": 2}),
        "cumsum-skipna": lambda dx, d, p: d[["x", "y"]].cumsum(skipna=False),
        "reduction-custom": lambda dx, d, p: d.z.reduction(_chunk_sum, aggregate=_agg_sum, chunk_kwargs={"w": 2}, aggregate_kwargs={"w": 3}, meta=("z", "int64")),
        "to_datetime-kwargs": lambda dx, d, p: dx.to_datetime(d.z.astype("str").map(_as_date, meta=("z", "object")), format="%Y-%m-%d"),
        "idxmax-frame": lambda dx, d, p: d[["x", "z"]].idxmax(**p),
        "memory_usage": lambda dx, d, p: d[["k", "x"]].memory_usage(deep=True, index=False),
        "dropna-subset": lambda dx, d, p: d[["x", "y", "z"]].dropna(subset=["x"], how="any"),
        "where-other": lambda dx, d, p: d[["x", "z"]].where(d.x > 0, other=-1),
        "align-merge-list": lambda dx, d, p: d[["k", "s", "x"]].merge(d[["k", "s", "z"]].drop_duplicates(subset=["k", "s"]), on=["k", "s"], how="left", suffixes=("_l", "_r")),
        "repartition-divisions": lambda dx, d, p: d[["x"]].repartition(divisions=[0, 10, 45, 59]),
        "partitions-list": lambda dx, d, p: d[["x", "z"]].partitions[[0, d.npartitions - 1]],
        "loc-slice": lambda dx, d, p: d[["x", "z"]].loc[5:40],
        "set_index-divisions": lambda dx, d, p: d[["z", "x"]].set_index("z", divisions=[0, 20, 40, 50]),
        "str-accessor-kwargs": lambda dx, d, p: d.s.str.replace("g", "G", regex=False),
        "str-split-expand": lambda dx, d, p: d.s.str.split("g", n=1, expand=True),
        "dt-round": lambda dx, d, p: dx.to_datetime(d.z * 10 ** 12).dt.round("h"),
        "cat-set_categories": lambda dx, d, p: d.c.cat.set_categories(["c2", "c1", "c0"], ordered=True),
        "cat-as_known": lambda dx, d, p: d.c.cat.as_unknown().cat.as_known(),
        "get_dummies": lambda dx, d, p: dx.get_dummies(d[["c", "z"]], columns=["c"], prefix={"c": "is"}),
        "concat-kwargs": lambda dx, d, p: dx.concat([d[["x"]], d[["z"]]], axis=1, join="inner"),
        "concat-rows": lambda dx, d, p: dx.concat([d[["x", "z"]], d[["z", "y"]]], join="outer", ignore_order=True),
    }


REDUCTION_PARAMS = {
    "frame-cov": lambda rng: _maybe(rng, min_periods=[2, 5], split_every=[2, 3]),
    "frame-corr": lambda rng: _maybe(rng, min_periods=[2, 5], split_every=[2, 3]),
    "series-cov": lambda rng: _maybe(rng, min_periods=[2, 5], split_every=[2, 3]),
    "series-corr": lambda rng: _maybe(rng, min_periods=[2, 5], split_every=[2, 3]),
    "frame-var": lambda rng: _maybe(rng, ddof=[0, 2], split_every=[2, 3]),
    "frame-std-skipna": lambda rng: _maybe(rng, ddof=[0, 2], split_every=[2, 3]),
    "frame-sum-min_count": lambda rng: _maybe(rng, split_every=[2, 3]),
    "frame-mean-numeric_only": lambda rng: _maybe(rng, split_every=[2, 3]),
    "frame-nunique": lambda rng: _maybe(rng, split_every=[2, 3]),
    "series-value_counts": lambda rng: _maybe(rng, split_every=[2, 3], dropna=[False], ascending=[True]),
    "drop_duplicates-subset": lambda rng: _maybe(rng, split_every=[2, 3], keep=["last"]),
    "idxmax-frame": lambda rng: _maybe(rng, split_every=[2, 3], skipna=[True]),
}


# plans with a (by default disk based) shuffle: the order of the rows inside a partition is not a function of the plan
SHUFFLING = ("sort_values-list", "set_index-divisions", "align-merge-list", "nlargest-list", "nsmallest", "drop_duplicates-subset")


def _maybe(rng, **choices):
    return {k: rng.choice(v) for k, v in sorted(choices.items()) if rng.random() < 0.6}


def _row_sum(r, w=1.0):
    return (r.x + r.z) * w


def _to_list(v):
    return list(range(int(v) % 3))


def _win(a, w=1):
    return float(a.sum() * w)


def _chunk_sum(s, w=1):
    return s.sum() * w


def _agg_sum(s, w=1):
    return s.sum() * w


def _as_date(v):
    return "2021-01-%02d" % (int(v) % 28 + 1)


def build_other(dx, T, case):
    pdf = T["holes" if case["holes"] else "plain"]
    d = dx.from_pandas(pdf, npartitions=case["n"], sort=True)
    return other_ops()[case["op"]](dx, d, dict(case["kw"]))


def build(dx, T, case):
    return (build_groupby if case["family"] == "groupby" else build_other)(dx, T, case)


# ----------------------------------------------------------------------------------------------------------
# the sample of cases
# ----------------------------------------------------------------------------------------------------------

ALL_FORMS = ("built", "optimized", "lowered")


def _select(rng, kind, by):
    if kind == "frame":
        return None
    if kind == "cols":
        return rng.choice([["x", "y"], ["x", "z"], ["y", "z", "x"], ["x", "y", "z"]])
    return rng.choice(["x", "y", "z"])


def _gb(rng, by):
    gb = {}
    s = rng.choice(SORTS)
    if s is not None:
        gb["sort"] = s
    if by in ("f", "kf") and rng.random() < 0.6:
        gb["dropna"] = rng.choice([True, False])
    if by == "c" and rng.random() < 0.6:
        gb["observed"] = rng.choice([True, False])
    return gb


def groupby_case(rng, agg, quick):
    sampler, kinds, shuffles = AGGS[agg]
    by = rng.choice(KEYS)
    kind = rng.choice(kinds)
    case = {"family": "groupby", "agg": agg, "by": by, "select": _select(rng, kind, by), "n": rng.choice(NPARTS), "holes": rng.random() < 0.5,
            "q": rng.random() < 0.3, "gb": _gb(rng, by), "kw": sampler(rng), "ordered": False}
    so = case["kw"].get("split_out")
    case["ordered"] = not shuffles and so in (None, 1) and case["gb"].get("sort") is not False
    case["forms"] = list(ALL_FORMS) if not quick else ["built", rng.choice(ALL_FORMS[1:])]
    return case


def plan_cases(rng, quick):
    cases = []
    reps = 1 if quick else 6
    for agg in AGGS:
        if quick and agg not in CORE and rng.random() < 0.25:
            continue
        for _ in range(2 if (quick and agg in ("cov", "corr", "var", "std", "agg")) else reps):
            cases.append(groupby_case(rng, agg, quick))
    ops = sorted(other_ops())
    if quick:
        ops = [o for o in ops if o in REDUCTION_PARAMS and rng.random() < 0.5] + rng.sample([o for o in ops if o not in REDUCTION_PARAMS], 12)
    for op in ops:
        for _ in range(1 if quick else 3):
            kw = REDUCTION_PARAMS[op](rng) if op in REDUCTION_PARAMS else {}
            cases.append({"family": "options", "op": op, "n": rng.choice(NPARTS[1:]), "holes": rng.random() < 0.5, "kw": kw,
                          "ordered": "split_out" not in kw and op not in SHUFFLING, "forms": list(ALL_FORMS) if not quick else ["built", rng.choice(ALL_FORMS[1:])]})
    return cases


def case_key(case, form, history):
    return "options|%s|%s|%s|%s" % (case["family"], case.get("agg", case.get("op")),
                                    ",".join("%s=%s" % (k, case[k]) for k in sorted(case) if k not in ("family", "agg", "op", "forms", "ordered", "tables")), form) + "|" + history


def use(dx, c):
    """What a session does with a collection before it ships it: look at it, plan it, run it."""
    c._meta
    c.columns if hasattr(c, "columns") else None
    c.divisions
    c.npartitions
    c.optimize()._name
    c.expr.lower_completely()._name
    c.compute()
