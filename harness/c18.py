"""C18 -- parquet reads with pushed-down work equal reading everything into memory."""
import itertools
import os
import random
import shutil
import tempfile

import common
from common import sx
from e2e import canon, concat_parts, exec_expr, try_, _short

OPS = {"==": "EQ", "!=": "NE", "<": "LT", "<=": "LE", ">": "GT", ">=": "GE"}
CMPIDX = {"==": 0, "!=": 1, "<": 2, "<=": 3, ">": 4, ">=": 5}
CMPNAME = {0: "ceq", 1: "cne", 2: "clt", 3: "cle", 4: "cgt", 5: "cge"}


def dnf_layer(run, model, rt, path, quick):
    """T-LAYER: real _DNF.extract_pq_filters on real predicate expressions vs the proved model `extract` (canonical DNF)."""
    from dask_expr.io.parquet import _DNF
    d = rt.dx.read_parquet(path)
    rp = d.expr
    cols = ["a", "b"]
    atoms = []
    for c in cols:
        for op in OPS:
            for v in (1, 3):
                atoms.append((c, op, v))
    def build(t):
        if t[0] == "cmp":
            c, op, v = t[1]
            s = d[c]
            return {"==": s == v, "!=": s != v, "<": s < v, "<=": s <= v, ">": s > v, ">=": s >= v}[op]
        if t[0] == "flip":
            c, op, v = t[1]
            s = d[c]
            return {"<": v < s, ">": v > s, "<=": v <= s, ">=": v >= s, "==": v == s, "!=": v != s}[op]
        if t[0] == "other":
            return d.a.isna()
        l, r = build(t[1]), build(t[2])
        return (l & r) if t[0] == "and" else (l | r)
    def tosx(t):
        if t[0] in ("cmp", "flip"):
            c, op, v = t[1]
            return "(%s %d %d %d)" % ("cmp" if t[0] == "cmp" else "cmp", cols.index(c), CMPIDX[op], v) if t[0] == "cmp" else "(cmp %d %d %d)" % (cols.index(c), CMPIDX[_flip(op)], v)
        if t[0] == "other":
            return "other"
        return "(%s %s %s)" % (t[0], tosx(t[1]), tosx(t[2]))
    rng = run.rng
    leaves = [("cmp", a) for a in atoms]
    trees = list(leaves)
    for _ in range(250 if quick else 2500):
        def rand(depth):
            if depth == 0 or rng.random() < 0.3:
                k = rng.random()
                if k < 0.08:
                    return ("other",)
                if k < 0.2:
                    return ("flip", rng.choice(atoms))
                return ("cmp", rng.choice(atoms))
            return (rng.choice(["and", "or"]), rand(depth - 1), rand(depth - 1))
        trees.append(rand(3))
    reqs, reals = [], []
    for t in trees:
        pred = build(t).expr
        f = _DNF.extract_pq_filters(rp, pred)._filters
        if f is None:
            real = "none"
        else:
            conj = sorted({tuple(sorted({(cols.index(c), CMPIDX[op], v) for (c, op, v) in cj})) for cj in f})
            real = "(some %s)" % sx([[list(a) for a in cj] for cj in conj])
        reqs.append("(dnf_extract %s)" % tosx(t))
        reals.append(real)
    ans = model.batch(reqs)
    bad = 0
    for t, a, r in zip(trees, ans, reals):
        run.count(("dnf", tosx(t)), nontrivial=t[0] in ("and", "or"))
        if a != r:
            bad += 1
            if bad <= 3:
                run.broken_tie("T-LAYER _DNF.extract_pq_filters", {"tree": tosx(t), "model": a[:300], "real": r[:300]})
    run.section("dnf_extract", trees=len(trees), disagreements=bad)
    run.sample({"dnf_extract": reqs[-1], "answer": ans[-1][:200]})


def _flip(op):
    # Python reflects `3 < s` into `s > 3`: the expression the optimizer sees has the column on the left
    return {"<": ">", ">": "<", "<=": ">=", ">=": "<=", "==": "==", "!=": "!="}[op]


def datasets(rng):
    import numpy as np
    import pandas as pd
    n = 24
    base = pd.DataFrame({
        "a": [float(rng.randint(0, 5)) if rng.random() > 0.2 else np.nan for _ in range(n)],
        "b": [rng.randint(0, 5) for _ in range(n)],
        "s": [rng.choice(["x", "y", "z", None]) for _ in range(n)],
        "t": pd.date_range("2021-01-01", periods=n, freq="D"),
        "g": [i % 3 for i in range(n)],
    })
    out = {"range-index": base, "named-index": base.set_index(pd.Index(range(100, 100 + n), name="idx")),
           "str-index": base.set_index(pd.Index(["k%02d" % i for i in range(n)], name="key"))}
    return out


def filters_grid():
    """predicate builders on a frame d with columns a (float with nulls), b (int), g"""
    P = {
        "a>2": lambda d: d.a > 2, "a<=1": lambda d: d.a <= 1, "a==3": lambda d: d.a == 3, "a!=3": lambda d: d.a != 3, "b!=2": lambda d: d.b != 2,
        "b>=2": lambda d: d.b >= 2, "(a>1)&(b<4)": lambda d: (d.a > 1) & (d.b < 4), "(a>3)|(b==0)": lambda d: (d.a > 3) | (d.b == 0),
        "((a>1)&(b<4))|((a>1)&(g==1))": lambda d: ((d.a > 1) & (d.b < 4)) | ((d.a > 1) & (d.g == 1)),
        "(a!=3)&(b>1)": lambda d: (d.a != 3) & (d.b > 1), "(a<2)|(a!=4)": lambda d: (d.a < 2) | (d.a != 4),
        "(a>1)&(a<b)": lambda d: (d.a > 1) & (d.a < d.b), "(b>=2)&s.isin": lambda d: (d.b >= 2) & d.s.isin(["x", "y"]), "(b>1)&(a!=3)": lambda d: (d.b > 1) & (d.a != 3),
        "((a>1)&(b!=2))|(g==1)": lambda d: ((d.a > 1) & (d.b != 2)) | (d.g == 1), "(a>=1)&a.isna|b": lambda d: ((d.a >= 1) & d.a.isna()) | (d.b == 0),
        "3<a": lambda d: 3 < d.a, "a.isna": lambda d: d.a.isna(), "(a>1)&a.notnull": lambda d: (d.a > 1) & d.a.notnull(), "s==x": lambda d: d.s == "x", "s!=x": lambda d: d.s != "x",
    }
    return P


def classify_ne(pname, reader):
    """Known finding D7: a `!=` comparison handed to the reader drops rows whose value is missing."""
    return "D7" if "!=" in pname else None


def e2e(run, rt, tmp, quick):
    import pandas as pd
    n = 0
    P = filters_grid()
    for dsname, pdf in datasets(run.rng).items():
        for nfiles in ((1, 4) if quick else (1, 3, 4, 6)):
            path = os.path.join(tmp, "%s_%d" % (dsname, nfiles))
            src = rt.dx.from_pandas(pdf, npartitions=nfiles)
            w = try_(lambda: src.to_parquet(path, overwrite=True))
            if w[0] == "raise":
                run.violation("to_parquet fails: %s" % w[1], {"kind": "write", "dataset": dsname})
                continue
            for reader, kw in (("fsspec", {}), ("arrow", {"filesystem": "arrow"})):
                for cd in (False, True):
                    if reader == "arrow" and cd and False:
                        continue
                    tag = "%s files=%d reader=%s calculate_divisions=%s" % (dsname, nfiles, reader, cd)
                    r = try_(lambda: rt.dx.read_parquet(path, calculate_divisions=cd, **kw))
                    if r[0] == "raise":
                        run.violation("%s: read_parquet raises %s" % (tag, r[1]), {"kind": "read", "tag": tag})
                        continue
                    d = r[1]
                    # round trip
                    n += 1
                    run.count(("roundtrip", tag))
                    back = try_(lambda: d.compute())
                    if back[0] == "raise":
                        run.violation("%s: reading back raises %s" % (tag, back[1]), {"kind": "roundtrip", "tag": tag})
                        continue
                    if canon(back[1]) != canon(pdf):
                        run.violation("%s: data read back differs from the data written: %s vs %s" % (tag, _short(canon(back[1])), _short(canon(pdf))), {"kind": "roundtrip", "tag": tag})
                    if back[1].index.name != pdf.index.name:
                        run.violation("%s: index name %r read back as %r" % (tag, pdf.index.name, back[1].index.name), {"kind": "roundtrip", "tag": tag})
                    # reference for everything below: the data read in full into memory (in the column dtypes dask-expr itself uses)
                    mem = back[1]
                    if cd and d.known_divisions:
                        parts = try_(lambda: exec_expr(d.optimize(fuse=False).expr))
                        od = d.optimize(fuse=False)
                        if parts[0] == "ok":
                            divs = od.divisions
                            for i, p in enumerate(parts[1]):
                                if len(p) and (p.index.min() < divs[i] or p.index.max() > divs[i + 1] or (p.index.max() == divs[i + 1] and i != len(parts[1]) - 1)):
                                    run.violation("%s: partition %d outside reported divisions %s" % (tag, i, divs), {"kind": "divisions", "tag": tag})
                                    break
                    elif cd and dsname != "range-index" and nfiles > 1 and not d.known_divisions:
                        pass
                    # multi-file fused reads (a narrow projection makes the reader fuse files): divisions / npartitions truthful
                    if cd:
                        from e2e import node_truth
                        for cols in (["b"], "g"):
                            o = try_(lambda: d[cols].optimize(fuse=True).expr)
                            if o[0] == "ok":
                                n += 1
                                run.count(("fused-read", tag, str(cols)))
                                for v in node_truth("%s[%s]" % (tag, cols), o[1], {"C06"}, "optimized", lowered=True):
                                    run.violation(v["what"], {"kind": "fused-divisions", "tag": tag, "cols": cols})
                    # lengths
                    ln = try_(lambda: len(d))
                    if ln[0] == "raise" or ln[1] != len(pdf):
                        run.violation("%s: len() = %s, %d rows written" % (tag, ln[1], len(pdf)), {"kind": "len", "tag": tag})
                    # projections
                    for cols in (["b"], ["s", "a"], "a", ["t", "g", "b"]):
                        n += 1
                        run.count(("projection", tag, str(cols)))
                        got = try_(lambda: d[cols].compute())
                        exp = mem[cols]
                        if got[0] == "raise" or canon(got[1]) != canon(exp):
                            run.violation("%s: column selection %s differs from in-memory selection (%s)" % (tag, cols, got[1] if got[0] == "raise" else "values"), {"kind": "projection", "tag": tag, "cols": cols})
                    # filters, alone and combined with user filters and projections
                    items = list(P.items())
                    if quick:
                        mixed = [it for it in items if any(t in it[0] for t in ("!=", "isin", "a<b", "isna", "notnull")) and "&" in it[0]]
                        items = (items[: 9] + items[-3:] if nfiles == 4 else items[::2])
                        items = items + [it for it in mixed if it not in items]
                    for pname, pf in items:
                        for ufilter in (None, [("b", "<=", 4)]):
                            for proj in (None, ["b", "a"]):
                                if quick and ufilter and proj:
                                    continue
                                n += 1
                                run.count(("filter", tag, pname, str(ufilter), str(proj)))
                                dd = d if ufilter is None else rt.dx.read_parquet(path, calculate_divisions=cd, filters=ufilter, **kw)
                                base = mem if ufilter is None else mem[mem.b <= 4]
                                def q(x):
                                    y = x[pf(x)]
                                    return y if proj is None else y[proj]
                                exp = try_(lambda: q(base))
                                if exp[0] == "raise":
                                    continue
                                got = try_(lambda: q(dd).compute())
                                case = {"kind": "filter", "tag": tag, "pred": pname, "user_filter": str(ufilter), "proj": proj}
                                if got[0] == "raise":
                                    run.violation("%s: filter %s raises %s" % (tag, pname, got[1]), case)
                                elif canon(got[1]) != canon(exp[1]):
                                    run.violation("%s: rows after filter %s (user filters %s, columns %s) differ from filtering in memory: %d rows vs %d" % (
                                        tag, pname, ufilter, proj, len(got[1]), len(exp[1])), case)
                    # partition subsets
                    if d.npartitions >= 2:
                        full = try_(lambda: exec_expr(d.expr.lower_completely()))
                        sub = try_(lambda: exec_expr(d.partitions[[d.npartitions - 1, 0]].optimize().expr))
                        n += 1
                        run.count(("partitions", tag))
                        if full[0] == "ok" and (sub[0] == "raise" or canon(concat_parts(sub[1])) != canon(concat_parts([full[1][-1], full[1][0]]))):
                            run.violation("%s: partitions[[last, 0]] differs from the corresponding partitions" % tag, {"kind": "partitions", "tag": tag})
            # overwrite of a dataset the same query still reads
            rd = rt.dx.read_parquet(path)
            ov = try_(lambda: (rd + 0 if False else rd[["b", "g"]]).to_parquet(path, overwrite=True))
            n += 1
            run.count(("overwrite", dsname, nfiles))
            if ov[0] == "ok":
                run.violation("overwriting a dataset that the same query still reads was not refused (%s, %d files)" % (dsname, nfiles), {"kind": "overwrite", "dataset": dsname})
            else:
                chk = try_(lambda: rt.dx.read_parquet(path).compute())
                if chk[0] == "raise" or len(chk[1]) != len(pdf):
                    run.violation("refused overwrite damaged the dataset (%s)" % dsname, {"kind": "overwrite", "dataset": dsname})
    # files whose index ranges overlap: divisions must not be reported (or must be truthful), loc must find every row
    from e2e import _Pieces, _piece, node_truth
    pieces = [pd.DataFrame({"v": range(10)}, index=pd.Index(range(0, 10), name="i")), pd.DataFrame({"v": range(10, 21)}, index=pd.Index(range(5, 16), name="i")),
              pd.DataFrame({"v": range(21, 26)}, index=pd.Index(range(15, 20), name="i"))]
    allp = pd.concat(pieces)
    path = os.path.join(tmp, "overlap")
    rt.dx.from_map(_piece, [0, 1, 2], args=[_Pieces(pieces)], meta=pieces[0].iloc[:0]).to_parquet(path, overwrite=True)
    for kw in ({}, {"filesystem": "arrow"}):
        d = rt.dx.read_parquet(path, calculate_divisions=True, **kw)
        n += 1
        run.count(("overlap-stats", str(kw)))
        for v in node_truth("overlapping files %s" % (kw or "fsspec"), d.optimize(fuse=False).expr, {"C06"}, "optimized", lowered=True):
            run.violation(v["what"], {"kind": "stats-overlap", "reader": str(kw)})
        got = try_(lambda: d.loc[5:9].compute())
        if got[0] == "raise" or sorted(got[1].v.tolist()) != sorted(allp[(allp.index >= 5) & (allp.index <= 9)].v.tolist()):
            run.violation("loc[5:9] on a dataset with overlapping file ranges (%s) returns %s, expected %s" % (kw or "fsspec", got[1].v.tolist() if got[0] == "ok" else got[1], sorted(allp[(allp.index >= 5) & (allp.index <= 9)].v.tolist())),
                          {"kind": "stats-overlap", "reader": str(kw)})
    # lengths of partition-selected, column-selected reads
    pl = pd.DataFrame({"a": range(43), "b": [i % 5 for i in range(43)], "c": [float(i) for i in range(43)]})
    path = os.path.join(tmp, "lens")
    rt.dx.from_pandas(pl, npartitions=4).to_parquet(path, overwrite=True)
    for kw in ({}, {"filesystem": "arrow"}, {"calculate_divisions": True}, {"filesystem": "arrow", "calculate_divisions": True}):
        r = rt.dx.read_parquet(path, **kw)
        for sel in ([1, 2], [0], [3, 0], [2, 2], [0, 1, 2, 3]):
            for cols in (None, ["a"], "b"):
                n += 1
                run.count(("sel-len", str(kw), str(sel), str(cols)))
                q = r.partitions[sel] if cols is None else r.partitions[sel][cols]
                a, b = try_(lambda: len(q)), try_(lambda: len(q.compute()))
                if a[0] == "raise" or b[0] == "raise" or a[1] != b[1]:
                    run.violation("len(read_parquet(%s).partitions[%s][%s]) = %s but %s rows are computed" % (kw, sel, cols, a[1], b[1]), {"kind": "sel-len", "reader": str(kw), "sel": sel, "cols": cols})
    # unsorted file statistics: divisions must not be reported (or must be truthful)
    import numpy as np
    un = pd.DataFrame({"v": range(18)}, index=pd.Index([12, 13, 14, 15, 16, 17, 0, 1, 2, 3, 4, 5, 6, 7, 8, 9, 10, 11], name="i"))
    path = os.path.join(tmp, "unsorted")
    rt.dx.from_pandas(un, npartitions=3, sort=False).to_parquet(path, overwrite=True)
    for kw in ({}, {"filesystem": "arrow"}):
        d = rt.dx.read_parquet(path, calculate_divisions=True, **kw)
        n += 1
        run.count(("unsorted-stats", str(kw)))
        if d.known_divisions:
            parts = exec_expr(d.optimize(fuse=False).expr)
            divs = d.optimize(fuse=False).divisions
            ok = list(divs) == sorted(divs) and all(len(p) == 0 or (p.index.min() >= divs[i] and p.index.max() <= divs[i + 1]) for i, p in enumerate(parts))
            if not ok:
                run.violation("unsorted file statistics give untruthful divisions %s (%s)" % (divs, kw or "fsspec"), {"kind": "stats", "reader": str(kw)})
        back = d.compute()
        if sorted(back.v.tolist()) != list(range(18)):
            run.violation("unsorted-statistics dataset read back incompletely", {"kind": "stats"})
    run.section("parquet_e2e", cases=n)


def run(run):
    import rt
    run.trusted = common.COMMON_TRUSTED + [
        "pyarrow's reader (null-dropping comparisons, Kleene and/or, column projection) is the assumed table arrow_keep of DNF.v; validated on real files by this sweep",
    ]
    run.rule = ("real _DNF.extract_pq_filters vs the proved model on comparison/and/or trees (depth <= 3, incl. literal-on-the-left and non-convertible leaves); "
                "datasets (float with nulls / int / str with nulls / datetime; range, named int and string index; 1-6 files) x both readers x calculate_divisions x projections x 16 filter trees "
                "x user filters x partition subsets: pushed-down plan vs in-memory pandas on the written frame; round trip; lengths; overwrite refusal; unsorted statistics; "
                "piece layouts: datasets with several row groups per file (row_group_size, equal/unequal files, with/without _metadata, 4 index kinds, nulls) x split_row_groups True/False/int/adaptive/infer "
                "x aggregate_files x blocksize x calculate_divisions x both readers: len/shape/size/Lengths/partition-subset lengths/projections/pushed and user filters/divisions "
                "vs the partitions of the unoptimized plan computed in memory and the written frame; non-trivial = and/or tree / executed case")
    run.proofs("PropC18.v")
    quick = run.tier == "quick"
    import minmax
    minmax.stats_layer(run, quick)
    tmp = tempfile.mkdtemp(prefix="c18_", dir=common.BUILD)
    try:
        import pandas as pd
        m = common.Model()
        p0 = os.path.join(tmp, "layer")
        rt.dx.from_pandas(pd.DataFrame({"a": [1.0, 2.0, 3.0], "b": [1, 2, 3]}), npartitions=1).to_parquet(p0)
        dnf_layer(run, m, rt, p0, quick)
        e2e(run, rt, tmp, quick)
        import c18_layout
        c18_layout.layout_family(run, rt, tmp, quick)
    finally:
        shutil.rmtree(tmp, ignore_errors=True)


def replay(path):
    """./check C18 --replay file: re-run the failing (dataset, read options) of a piece-layout case."""
    import json
    import rt
    with open(path) as f:
        rec = json.load(f)
    case = rec.get("case") or rec.get("replay") or rec.get("input") or rec
    if not isinstance(case, dict) or case.get("kind") != "layout":
        print("replay is implemented for the piece-layout cases (kind=layout) only")
        return 2
    import c18_layout
    tmp = tempfile.mkdtemp(prefix="c18r_", dir=common.BUILD)
    try:
        out = c18_layout.replay_case(rt, case, tmp)
    finally:
        shutil.rmtree(tmp, ignore_errors=True)
    for w in out[:20]:
        print("VIOLATION", w)
    print("replay: %d violation(s)" % len(out))
    return 1 if out else 0
