"""C17 -- materialization boundaries are transparent."""
import random

import common
from e2e import canon, concat_parts, exec_expr, try_, _short, meta_mismatch


def cuts(rt):
    import dask
    def persist(c):
        return c.persist()
    def delayed(c):
        ds = c.to_delayed()
        # (a fused multi-file read has fewer partitions than the logical collection reports: known finding D22's family;
        #  the divisions handed to from_delayed are those of the plan that to_delayed() materialized)
        divs = c.divisions if c.known_divisions else None
        if divs is not None and len(divs) != len(ds) + 1:
            o = c.optimize()
            divs = o.divisions if o.known_divisions and len(o.divisions) == len(ds) + 1 else None
        return rt.dx.from_delayed(ds, meta=c._meta, divisions=divs)
    def delayed_nodiv(c):
        return rt.dx.from_delayed(c.to_delayed(), meta=c._meta)
    def legacy(c):
        return rt.dx.from_legacy_dataframe(c.to_legacy_dataframe())
    def optimized(c):
        return c.optimize()
    return {"persist": persist, "delayed": delayed, "delayed-unknown-divisions": delayed_nodiv, "legacy": legacy, "optimize-then-continue": optimized}


def run(run):
    import rt
    import gen
    import e2e
    run.trusted = common.COMMON_TRUSTED + [
        "persist / delayed / legacy conversion execute real graphs: observed; the proved part is congruence of the plan semantics (a sub-plan may be replaced by anything with the same value)",
    ]
    run.rule = ("generated programs (l1/l2/l3 profiles) x every intermediate frame/series variable as cut point x {persist, to_delayed->from_delayed (with and without divisions), legacy round trip, optimize-then-continue}: "
                "the remaining operations are re-applied to the re-imported collection; final result, schema and (when both known) divisions vs the uncut run; non-trivial = cut strictly inside the program; "
                "two-head queries (source layouts x dtypes x head pairs x index-aligned tails) cut in front of the binary step on the left, the right or both inputs "
                "with equal or mixed kinds of cut, vs the uncut run (harness/c17_multi.py); "
                "cuts in front of an index-aligned step that carries keywords (method operators and comparison methods with axis / level / fill_value, combine with func / fill_value / overwrite, "
                "where / mask with other, fillna, align with join / axis / fill_value, map, combine_first) over the four alignment lowerings "
                "(equal known divisions, single partitions, unknown divisions, different divisions), vs the uncut run (harness/c17_kwargs.py)")
    run.proofs("PropC17.v")
    quick = run.tier == "quick"
    n = 50 if quick else 1000
    C = cuts(rt)
    ncut = 0
    kinds = {}
    for idx in range(n):
        rng = random.Random(run.seed * 1000003 + 1717 + idx)
        tables = gen.make_tables(rng, nrows=9, nulls=rng.choice([0.0, 0.2]))
        g = gen.ProgGen(rng, profile=rng.choice(["l1", "l2", "l2", "l3"]), max_steps=rng.randint(2, 6))
        prog = g.generate({"t0": list(tables["t0"].columns), "t1": list(tables["t1"].columns)})
        src = e2e.build_sources(tables, {"t0": rng.choice([("npartitions", 3), ("unknown", 3), ("npartitions", 1)]), "t1": ("npartitions", 2)}, rt)
        base = try_(lambda: gen.run_program(prog, src, True))
        if base[0] == "raise":
            continue
        env0 = base[1]
        final = env0[prog["result"]]
        ref = try_(lambda: final.compute())
        if ref[0] == "raise":
            continue
        ordered, labels = prog["ordered"], prog.get("labels", True)
        refc = canon(ref[1], ordered, labels)
        steps = prog["steps"]
        cut_points = [i for i, st in enumerate(steps[:-1]) if hasattr(env0[st["out"]], "npartitions")]
        if not cut_points:
            continue
        def mixes(ci):
            """a later multi-input step combines a descendant of the cut variable with a co-aligned sibling built before the cut:
            that is an alignment query (C02), not a continuation of the cut collection"""
            desc = {steps[ci]["out"]}
            for st in steps[ci + 1:]:
                ins = [v for v in st["in"]]
                d = [v in desc for v in ins]
                if any(d) and not all(d) and len(ins) > 1 and st["op"] not in ("merge",):
                    return True
                if any(d):
                    desc.add(st["out"])
            return False
        cut_points = [ci for ci in cut_points if not mixes(ci)]
        for ci in (cut_points if not quick else rng.sample(cut_points, min(2, len(cut_points)))):
            for cname, cut in C.items():
                if quick and rng.random() < 0.4:
                    continue
                ncut += 1
                var = steps[ci]["out"]
                nodekind = type(env0[var]).__name__ + ("/unknown-div" if not env0[var].known_divisions else "") + ("/fused" if cname == "optimize-then-continue" else "")
                kinds[nodekind] = kinds.get(nodekind, 0) + 1
                run.count(("cut", idx, ci, cname), nontrivial=ci > 0)
                def replay():
                    env = dict(src)
                    for j, st in enumerate(steps):
                        env[st["out"]] = gen.apply_step(st, env, True)
                        if j == ci:
                            env[st["out"]] = cut(env[st["out"]])
                    return env[prog["result"]]
                r = try_(replay)
                tag = "cut %s after step %d (%s) of [%s]" % (cname, ci, var, gen.describe(prog))
                if r[0] == "raise":
                    run.violation("%s: continuing on the re-imported collection raises %s" % (tag, r[1]), {"kind": "cut", "program": gen.describe(prog), "cut": cname, "step": ci, "idx": idx})
                    continue
                got = try_(lambda: r[1].compute())
                if got[0] == "raise":
                    run.violation("%s: computing fails: %s" % (tag, got[1]), {"kind": "cut", "program": gen.describe(prog), "cut": cname, "step": ci, "idx": idx})
                    continue
                gc_ = canon(got[1], ordered, labels)
                if gc_ != refc:
                    run.violation("%s: result %s differs from the uncut run %s" % (tag, _short(gc_), _short(refc)), {"kind": "cut", "program": gen.describe(prog), "cut": cname, "step": ci, "idx": idx})
                    continue
                mm = None
                if hasattr(final, "_meta") and hasattr(r[1], "_meta"):
                    mm = meta_mismatch(final._meta, r[1]._meta) if type(final._meta) is type(r[1]._meta) else "container kind differs"
                if mm and "dtype" not in mm:
                    run.violation("%s: schema differs from the uncut run: %s" % (tag, mm), {"kind": "cut-schema", "program": gen.describe(prog), "cut": cname})
                if hasattr(final, "known_divisions") and final.known_divisions and r[1].known_divisions and cname not in ("delayed-unknown-divisions",):
                    if tuple(final.divisions) != tuple(r[1].divisions) and final.npartitions == r[1].npartitions:
                        run.violation("%s: divisions %s differ from the uncut run %s" % (tag, r[1].divisions, final.divisions), {"kind": "cut-divisions", "program": gen.describe(prog), "cut": cname})
    # partition selections / order-sensitive continuations on the re-imported collection
    import pandas as pd
    pdf = pd.DataFrame({"a": range(24), "b": [i % 5 for i in range(24)]})
    nsel = 0
    for npart, unknown in ((4, False), (4, True), (3, False)):
        base = rt.dx.from_pandas(pdf, npartitions=npart)
        base = (base.clear_divisions() if unknown else base) + 1
        for cname, cut in C.items():
            cutc = try_(lambda: cut(base))
            if cutc[0] == "raise":
                run.violation("cut %s of a %d-partition frame raises %s" % (cname, npart, cutc[1]), {"kind": "cut-select", "cut": cname})
                continue
            sels = [[2, 0], list(range(npart))[::-1], [npart - 1, 1, npart - 1], [1], list(range(npart))]
            conts = {"partitions": lambda x, sel: x.partitions[sel], "partitions+cumsum": lambda x, sel: x.partitions[sel].cumsum(),
                     "elemwise+partitions": lambda x, sel: (x * 2).partitions[sel], "partitions.partitions": lambda x, sel: x.partitions[sel].partitions[[0]]}
            for sel in sels:
                for kn, k in conts.items():
                    nsel += 1
                    run.count(("cut-select", npart, unknown, cname, tuple(sel), kn))
                    ref = try_(lambda: k(base, sel).compute())
                    got = try_(lambda: k(cutc[1], sel).compute())
                    if ref[0] == "raise":
                        continue
                    if got[0] == "raise":
                        run.violation("cut %s then %s%s raises %s (uncut computes)" % (cname, kn, sel, got[1]), {"kind": "cut-select", "cut": cname, "sel": sel, "cont": kn})
                    elif canon(got[1]) != canon(ref[1]):
                        run.violation("cut %s then %s%s: %s differs from the uncut run %s" % (cname, kn, sel, _short(canon(got[1])), _short(canon(ref[1]))),
                                      {"kind": "cut-select", "cut": cname, "sel": sel, "cont": kn, "npartitions": npart, "unknown_divisions": unknown})
    # several collections cut TOGETHER (dask.persist / dask.optimize of siblings, from_graph on one shared graph): each
    # re-imported collection must stay its own query
    import dask
    nshare = 0
    sib = rt.dx.from_pandas(pdf, npartitions=3)
    families = {
        "a+1 / a+2": (sib.a + 1, sib.a + 2), "two filters": (sib[sib.a > 3], sib[sib.a > 7]), "sum / max": (sib.a.sum(), sib.a.max()),
        "frame*2 / frame*3": (sib * 2, sib * 3), "two shuffles": (sib.shuffle("b", npartitions=3, shuffle_method="tasks"), sib.shuffle("a", npartitions=3, shuffle_method="tasks")),
        "head / tail": (sib.head(3, compute=False), sib.tail(3, compute=False)), "two partitions": (sib.partitions[[0]], sib.partitions[[1]]),
    }
    for fam, (qa, qb) in families.items():
        exp = try_(lambda: (canon(qa.compute(), False, True), canon(qb.compute(), False, True)))
        if exp[0] == "raise":
            continue
        for how, f in (("dask.persist", lambda: dask.persist(qa, qb)), ("dask.optimize", lambda: dask.optimize(qa, qb)), ("separate persist", lambda: (qa.persist(), qb.persist()))):
            nshare += 1
            run.count(("cut-together", fam, how))
            r = try_(f)
            if r[0] == "raise":
                run.violation("%s of the siblings %s raises %s" % (how, fam, r[1]), {"kind": "cut-together", "family": fam, "how": how})
                continue
            ca, cb = r[1]
            got = try_(lambda: (canon(ca.compute(), False, True), canon(cb.compute(), False, True), canon((cb - ca).sum().compute() if fam in ("a+1 / a+2", "frame*2 / frame*3") else 0, False, True)))
            if got[0] == "raise":
                run.violation("computing the siblings %s after %s fails: %s" % (fam, how, got[1]), {"kind": "cut-together", "family": fam, "how": how})
            elif got[1][:2] != exp[1]:
                run.violation("after %s the siblings %s are no longer their own queries: %s / %s, expected %s / %s" % (how, fam, _short(got[1][0]), _short(got[1][1]), _short(exp[1][0]), _short(exp[1][1])),
                              {"kind": "cut-together", "family": fam, "how": how})
    # cuts of queries over sources whose partitioning the optimizer changes (multi-file parquet reads fused after a column
    # projection): the re-imported collection has to describe the graph it carries
    import os
    import shutil
    import tempfile
    npq = 0
    tmp = tempfile.mkdtemp(prefix="c17_", dir=common.BUILD)
    try:
        wide = pd.DataFrame({c: [100 * j + i for i in range(40)] for j, c in enumerate("abcdefgh")}, index=pd.RangeIndex(100, 140, name="i"))
        rt.dx.from_pandas(wide, npartitions=8).to_parquet(tmp)
        heads = {"projected+1": (lambda rd: rd[["a"]] + 1, lambda p: p[["a"]] + 1), "two columns*2": (lambda rd: rd[["a", "c"]] * 2, lambda p: p[["a", "c"]] * 2),
                 "series": (lambda rd: rd.b + 1, lambda p: p.b + 1), "read only": (lambda rd: rd, lambda p: p), "filter": (lambda rd: rd[rd.a > 110][["a", "b"]], lambda p: p[p.a > 110][["a", "b"]])}
        tails = {"compute": (lambda x: x, lambda p: p), "sum": (lambda x: x.sum(), lambda p: p.sum()), "loc": (lambda x: x.loc[112:113], lambda p: p.loc[112:113]),
                 "partitions[-1]": (lambda x: x.partitions[[x.npartitions - 1]].sum(), None), "+1 then max": (lambda x: (x + 1).max(), lambda p: (p + 1).max()), "len": (lambda x: x.size, lambda p: p.size)}
        for reader in ({}, {"filesystem": "arrow"}):
            for cd in (False, True):
                for hn, (hf, hp) in heads.items():
                    for cname, cut in C.items():
                        rd = rt.dx.read_parquet(tmp, calculate_divisions=cd, **reader)
                        head = hf(rd)
                        cutc = try_(lambda: cut(head))
                        tagc = "parquet(8 files, %s, calculate_divisions=%s) %s cut %s" % (reader.get("filesystem", "fsspec"), cd, hn, cname)
                        if cutc[0] == "raise":
                            run.violation("%s raises %s" % (tagc, cutc[1]), {"kind": "cut-parquet", "cut": cname, "head": hn})
                            continue
                        for tn, (tf, tp) in tails.items():
                            if tn == "loc" and not cd:
                                continue
                            npq += 1
                            run.count(("cut-parquet", str(reader), cd, hn, cname, tn))
                            exp = try_(lambda: tf(head).compute())
                            if exp[0] == "raise":
                                continue
                            got = try_(lambda: tf(cutc[1]).compute())
                            case = {"kind": "cut-parquet", "cut": cname, "head": hn, "tail": tn, "reader": str(reader), "calculate_divisions": cd}
                            if got[0] == "raise":
                                run.violation("%s then %s fails: %s (the uncut query computes)" % (tagc, tn, got[1]), case)
                            elif tn != "partitions[-1]" and canon(got[1], False, True) != canon(exp[1], False, True):
                                run.violation("%s then %s: %s differs from the uncut run %s" % (tagc, tn, _short(canon(got[1], False, True)), _short(canon(exp[1], False, True))), case)
                        # the re-imported collection reports the partitioning of the graph it carries
                        nparts = try_(lambda: len(cutc[1].to_delayed()))
                        if nparts[0] == "ok" and nparts[1] != cutc[1].npartitions:
                            run.violation("%s: the re-imported collection reports %d partitions, its graph has %d" % (tagc, cutc[1].npartitions, nparts[1]), {"kind": "cut-parquet", "cut": cname, "head": hn})
    finally:
        shutil.rmtree(tmp, ignore_errors=True)
    # cuts in front of a multi-input (index-aligned) step: on one input, on the other, on both; same or mixed kinds of cut
    import c17_multi
    c17_multi.run_family(run, rt, C)
    # cuts in front of an aligned step whose keywords are away from their defaults: the re-imported operand turns the
    # element-wise plan of the step into an alignment plan, which has to hand the keywords on
    import c17_kwargs
    c17_kwargs.run_family(run, rt, C)
    run.section("cuts", programs=n, cut_executions=ncut, node_kinds=kinds, cut_kinds=list(C), selection_continuations=nsel, parquet_cut_cases=npq, cut_together_cases=nshare)
    run.sample({"cut": "persist after step 1", "program": "v1=filter(t0,...); v2=assign(v1,...); v3=sum(v2)"})


def replay(path):
    """Replays of the keyword-carrying aligned steps (the other kinds are replayed by a run with the recorded seed)."""
    import json
    import rt
    import c17_kwargs
    with open(path) as f:
        d = json.load(f)
    case = d.get("case") or {}
    if not str(case.get("kind", "")).startswith("cut-keywords"):
        print("C17: replay by `VERIF_SEED=%s ./check C17 --tier %s`" % (d.get("seed"), d.get("tier")))
        return 2
    bad = c17_kwargs.replay_case(rt, cuts(rt), case)
    if not bad:
        print("C17 replay: the cut is transparent for %s" % json.dumps(case["step"]))
        return 0
    print("C17 replay: %s" % bad[0][:1500])
    return 1
