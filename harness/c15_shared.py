"""C15 -- session histories over queries that SHARE sub-expressions.

The history loop of c15.py interleaves queries of the catalogue, each built on its own operands.  Memo tables of the
planner that are keyed by expression name (cached properties on singleton expressions, the weak table of live
expressions, any memo a rewrite keeps between calls) are only read back by a later query when that query contains an
expression an earlier one already contained.  This family plays such sessions:

    source  a pandas frame (index kind x partition count x dtype of the operand column x missing values),
            from_pandas with known or unknown divisions
    view    one derived frame of the source (views that keep / rename / replace / permute / drop the index labels,
            that keep or change the number of rows, blockwise or not, frame or Series)
    session a random interleaving of STEPS (len / size / count / optimize / simplify / compute / divisions of the
            view, of the source, of concats of both; failing computations; gc; discarding and rebuilding the view)
            and of OBSERVATIONS of TARGET queries built from the same source and view objects (projections of
            axis=1 / axis=0 concats, aligned binary operations, assign, lengths, the view itself ...)

Every observation (plan, divisions, npartitions, dtypes, result) is compared with the observation of the same target
built alone in a fresh interpreter.  The data of every session and of every baseline carries its own constant "salt"
column, so that expression names are shared inside one session only; the plan is compared by a fingerprint without
names.  A failing observation is shrunk (with fresh salts) to a short culprit history before it is reported.
"""
import gc
import re

import numpy as np
import pandas as pd

from e2e import canon, try_, _short

# ----------------------------------------------------------------------------- sources

INDEX_KINDS = ["perm", "perm0", "sorted", "dups", "str", "period"]
X_KINDS = ["int", "float", "float-nan", "str"]


def make_cfg(rng, index=None, x=None):
    index = index or rng.choice(INDEX_KINDS)
    return {"n": rng.choice([6, 7, 9, 12]), "index": index, "npartitions": rng.choice([1, 2, 2, 3]), "x": x or rng.choice(X_KINDS),
            "y_nan": rng.random() < 0.3, "sort": index not in ("perm", "perm0") and rng.random() < 0.8, "perm_seed": rng.randrange(1000),
            # divisions of a sorted source: kept, or dropped (clear_divisions) as for data of unknown order
            "clear": index not in ("perm", "perm0") and rng.random() < 0.5}


def make_pdf(cfg, salt):
    n = cfg["n"]
    r = np.random.RandomState(cfg["perm_seed"])
    if cfg["index"] == "perm":            # non-monotonic labels, disjoint from positions 0..n-1
        idx = [int(v) for v in 10 + r.permutation(n)]
    elif cfg["index"] == "perm0":         # non-monotonic labels that overlap with positions 0..n-1
        idx = [int(v) for v in r.permutation(n)]
    elif cfg["index"] == "sorted":
        idx = list(range(20, 20 + n))
    elif cfg["index"] == "dups":
        idx = sorted(int(v) for v in r.randint(0, max(2, n // 2), size=n))
    elif cfg["index"] == "str":
        idx = ["k%02d" % i for i in range(n)]
    elif cfg["index"] == "period":
        idx = pd.period_range("2001-01", periods=n, freq="M")
    else:
        raise ValueError(cfg["index"])
    if cfg["x"] == "int":
        x = [int(v) for v in r.randint(0, 5, size=n)]
    elif cfg["x"] == "float":
        x = [float(v) / 2 for v in r.randint(0, 9, size=n)]
    elif cfg["x"] == "float-nan":
        x = [float(v) / 2 for v in r.randint(0, 9, size=n)]
        for i in range(0, n, 3):
            x[i] = float("nan")
    else:
        x = ["s%d" % v for v in r.randint(0, 4, size=n)]
    y = [float(10 * i) for i in range(n)] if cfg["y_nan"] else [10 * i for i in range(n)]
    if cfg["y_nan"]:
        y[n // 2] = float("nan")
    return pd.DataFrame({"x": x, "y": y, "z": [i * 0.5 for i in range(n)], "s": [int(salt)] * n}, index=idx)


def make_source(dx, cfg, salt):
    df = dx.from_pandas(make_pdf(cfg, salt), npartitions=cfg["npartitions"], sort=cfg["sort"])
    return df.clear_divisions() if cfg.get("clear") else df


# ----------------------------------------------------------------------------- views


def _rev(part):
    return part.iloc[::-1]


def _relabel(part):
    return part.set_axis([str(v) + "'" for v in part.index], axis=0)


def _boom(part):
    raise ZeroDivisionError("injected")


def _thr(cfg):
    return 10 * (cfg["n"] // 2)


VIEWS = {
    # the index labels are replaced / renamed, the rows are kept
    "reset_index_drop": lambda df, cfg: df[["x"]].reset_index(drop=True),
    "reset_index": lambda df, cfg: df[["x"]].reset_index(),
    "rename_axis": lambda df, cfg: df[["x"]].rename_axis(index="k"),
    "index_to_frame": lambda df, cfg: df.index.to_frame(name="i"),
    "to_timestamp": lambda df, cfg: df[["x"]].to_timestamp(),
    "set_index": lambda df, cfg: df[["x", "z"]].set_index("z"),
    "relabel": lambda df, cfg: df[["x"]].map_partitions(_relabel),
    "series_reset": lambda df, cfg: df.x.reset_index(drop=True),
    # index labels and rows are kept
    "add": lambda df, cfg: df[["x"]] + (1 if cfg["x"] != "str" else "!"),
    "fillna": lambda df, cfg: df[["x"]].fillna(0 if cfg["x"] != "str" else "-"),
    "isna": lambda df, cfg: df[["x"]].isna(),
    "rename_cols": lambda df, cfg: df[["x"]].rename(columns={"x": "w"}),
    "assign": lambda df, cfg: df[["x"]].assign(w=df.z * 2),
    "series": lambda df, cfg: df.x,
    "cumsum": lambda df, cfg: df[["z", "x"]].cumsum()[["z"]].rename(columns={"z": "w"}),
    # the rows are kept, their order or their partition is not
    "shuffle": lambda df, cfg: df[["x", "y"]].shuffle("x")[["x"]],
    "sort_values": lambda df, cfg: df[["x", "z"]].sort_values("z", ascending=False)[["x"]],
    "reversed": lambda df, cfg: df[["x"]].map_partitions(_rev),
    "repartition": lambda df, cfg: df[["x"]].repartition(npartitions=cfg["npartitions"] % 3 + 1),
    # other rows
    "filter": lambda df, cfg: df[df.y > _thr(cfg)][["x"]],
    "mixed_rows": lambda df, cfg: (df[["z"]] + df[df.y > _thr(cfg)][["z"]]).rename(columns={"z": "w"}),
    "head": lambda df, cfg: df[["x"]].head(2, compute=False),
    "partitions": lambda df, cfg: df[["x"]].partitions[0],
}

VIEW_NEEDS = {"to_timestamp": {"index": ["period"]}}


def view_ok(view, cfg):
    need = VIEW_NEEDS.get(view, {})
    return all(cfg[k] in v for k, v in need.items())


def _cols(view):
    return list(view.columns) if view.ndim == 2 else [view.name]


def _first(view):
    return view[view.columns[0]] if view.ndim == 2 else view


# ----------------------------------------------------------------------------- steps (history) and targets (observed)


def _concat(dx, env, axis, parts=None, **kw):
    return dx.concat(parts or [env["view"], env["df"][["y"]]], axis=axis, **kw)


STEPS = {
    "len_view": lambda dx, e: len(e["view"]),
    "len_df": lambda dx, e: len(e["df"]),
    "len_df_projected": lambda dx, e: len(e["df"][["y"]]),
    "len_view_index": lambda dx, e: len(e["view"].index),
    "len_view_derived": lambda dx, e: len(e["view"].isna()),
    "size_view": lambda dx, e: e["view"].size.compute(),
    "shape_view": lambda dx, e: e["view"].shape[0].compute(),
    "count_view": lambda dx, e: e["view"].count().compute(),
    "optimize_view": lambda dx, e: e["view"].optimize(),
    "simplify_view": lambda dx, e: e["view"].simplify(),
    "lower_view": lambda dx, e: e["view"].lower_once(),
    "compute_view": lambda dx, e: e["view"].compute(),
    "divisions_view": lambda dx, e: (e["view"].divisions, e["view"].npartitions, e["view"].optimize().divisions),
    "index_view": lambda dx, e: e["view"].index.compute(),
    "len_concat1": lambda dx, e: len(_concat(dx, e, 1)),
    "len_concat0": lambda dx, e: len(_concat(dx, e, 0)),
    "optimize_concat1_df": lambda dx, e: _concat(dx, e, 1)[["y"]].optimize(),
    "optimize_concat1_view": lambda dx, e: _concat(dx, e, 1)[_cols(e["view"])].optimize(),
    "optimize_concat0_df": lambda dx, e: _concat(dx, e, 0)[["y"]].optimize(),
    "optimize_binop": lambda dx, e: (_first(e["view"]).isna() & e["df"].y.isna()).optimize(),
    "sum_df": lambda dx, e: e["df"].y.sum().compute(),
    "fail_view": lambda dx, e: e["view"].map_partitions(_boom, meta=e["view"]._meta).compute(),
    "fail_concat1": lambda dx, e: _concat(dx, e, 1)[["y"]].map_partitions(_boom, meta=e["df"][["y"]]._meta).compute(),
    "gc": lambda dx, e: gc.collect(),
    "rebuild_view": lambda dx, e: _rebuild(dx, e, False),
    "rebuild_all": lambda dx, e: _rebuild(dx, e, True),
}


def _rebuild(dx, env, source_too):
    """Discard the objects (the weak tables forget them) and build them again: same data, same names."""
    env["view"] = None
    if source_too:
        env["df"] = None
    gc.collect()
    if source_too:
        env["df"] = make_source(dx, env["cfg"], env["salt"])
    env["view"] = VIEWS[env["view_name"]](env["df"], env["cfg"])


# a target gives a collection, or ("len", collection)
TARGETS = {
    "concat1_df": lambda dx, e: _concat(dx, e, 1)[["y"]],
    "concat1_df_reversed": lambda dx, e: _concat(dx, e, 1, [e["df"][["y"]], e["view"]])[["y"]],
    "concat1_df_series": lambda dx, e: _concat(dx, e, 1)["y"],
    "concat1_three": lambda dx, e: _concat(dx, e, 1, [e["view"], e["df"][["y"]], e["df"][["z"]] * 2])[["z"]],
    "concat1_view": lambda dx, e: _concat(dx, e, 1)[_cols(e["view"])],
    "concat1_all": lambda dx, e: _concat(dx, e, 1),
    "concat1_inner_df": lambda dx, e: _concat(dx, e, 1, join="inner")[["y"]],
    "concat1_index": lambda dx, e: _concat(dx, e, 1).index,
    "concat1_df_sum": lambda dx, e: _concat(dx, e, 1)[["y"]].sum(),
    "concat1_count": lambda dx, e: _concat(dx, e, 1).count(),
    "concat0_df": lambda dx, e: _concat(dx, e, 0)[["y"]],
    "concat0_view": lambda dx, e: _concat(dx, e, 0)[_cols(e["view"])],
    "binop": lambda dx, e: _first(e["view"]).isna() | e["df"].y.isna(),
    "assign": lambda dx, e: e["df"][["y"]].assign(w=_first(e["view"])),
    "view": lambda dx, e: e["view"],
    "view_index": lambda dx, e: e["view"].index,
    "view_size": lambda dx, e: e["view"].size,
    "len_view": lambda dx, e: ("len", e["view"]),
    "len_view_projected": lambda dx, e: ("len", e["view"][_cols(e["view"])[:1]] if e["view"].ndim == 2 else e["view"]),
    "len_concat1": lambda dx, e: ("len", _concat(dx, e, 1)),
    "len_concat1_df": lambda dx, e: ("len", _concat(dx, e, 1)[["y"]]),
    "len_concat0": lambda dx, e: ("len", _concat(dx, e, 0)),
    "len_binop": lambda dx, e: ("len", _first(e["view"]).isna() | e["df"].y.isna()),
}

_HEX = re.compile(r"\b0x[0-9a-f]+\b|\b[0-9a-f]{5}\b|[0-9a-f]{32}")


def fingerprint(expr):
    """The plan without expression names (they depend on the salt of the data) and without addresses of functions."""
    return _HEX.sub("#", expr.tree_repr())


def _dtypes(res):
    if isinstance(res, pd.DataFrame):
        return [str(t) for t in res.dtypes] + [str(res.index.dtype)]
    if isinstance(res, pd.Series):
        return [str(res.dtype), str(res.index.dtype)]
    if isinstance(res, pd.Index):
        return [str(res.dtype)]
    return [type(res).__name__]


def _strip_salt(res):
    if isinstance(res, pd.DataFrame) and "s" in res.columns:
        return res.drop(columns="s")
    return res


def observe(q):
    if isinstance(q, tuple):
        return {"len": repr(len(q[1]))}
    o = q.optimize()
    res = _strip_salt(q.compute())
    return {"plan": fingerprint(q.optimize(fuse=False).expr), "fused plan": fingerprint(o.expr), "divisions": repr(tuple(o.divisions)), "npartitions": o.npartitions,
            "dtypes": repr(_dtypes(res)), "result": repr(canon(res, False))}


def make_env(dx, cfg, view_name, salt):
    env = {"cfg": cfg, "view_name": view_name, "salt": salt}
    env["df"] = make_source(dx, cfg, salt)
    env["view"] = VIEWS[view_name](env["df"], cfg)
    return env


def play(dx, cfg, view_name, salt, actions):
    """Play a session on fresh objects; returns the observations of its ("observe", target) actions, in order."""
    out = []
    env = try_(lambda: make_env(dx, cfg, view_name, salt))
    if env[0] == "raise":
        return None
    env = env[1]
    for kind, name in actions:
        if kind == "step":
            try_(lambda: STEPS[name](dx, env))
            if env["view"] is None or env["df"] is None:      # a rebuild that failed half-way
                try_(lambda: _rebuild(dx, env, True))
                if env["view"] is None or env["df"] is None:
                    break
        else:
            out.append(try_(lambda: observe(TARGETS[name](dx, env))))
    del env
    gc.collect()
    return out


# ----------------------------------------------------------------------------- baselines: fresh interpreter


def baseline_batch(args):
    """In a freshly spawned interpreter: every (cfg, view, target) alone, on data with a salt of its own
    (no expression name is shared between two of them), objects discarded in between."""
    items, harness_dir = args
    import sys
    if harness_dir not in sys.path:
        sys.path.insert(0, harness_dir)
    import rt
    out = []
    for key, cfg, view_name, target, salt in items:
        obs = play(rt.dx, cfg, view_name, salt, [("observe", target)])
        out.append((key, None if obs is None else obs[0]))
        gc.collect()
    return out


def triple_key(cfg, view_name, target):
    return repr((sorted(cfg.items()), view_name, target))


# ----------------------------------------------------------------------------- session plans


def plan_sessions(rng, tier):
    """Deterministic in rng.  A session: (cfg, view, actions)."""
    quick = tier == "quick"
    sessions = []
    views = list(VIEWS)
    rounds = 1 if quick else 8
    nsteps, ntargets = (9, 8) if quick else (14, 12)
    for rnd in range(rounds):
        order = views[:]
        rng.shuffle(order)
        for v in order:
            need = VIEW_NEEDS.get(v, {})
            if "index" in need:
                cfg = make_cfg(rng, index=rng.choice(need["index"]))
            else:
                cfg = make_cfg(rng)
            steps = [rng.choice(list(STEPS)) for _ in range(nsteps)]
            targets = rng.sample(list(TARGETS), ntargets)
            actions = [("step", s) for s in steps] + [("observe", t) for t in targets]
            rng.shuffle(actions)
            # some targets are observed a second time at the end of the session
            actions += [("observe", t) for t in rng.sample(targets, 2)]
            sessions.append((cfg, v, actions))
    return sessions


def needed_baselines(sessions):
    seen, items = set(), []
    for cfg, v, actions in sessions:
        for kind, name in actions:
            if kind == "observe":
                k = triple_key(cfg, v, name)
                if k not in seen:
                    seen.add(k)
                    items.append((k, cfg, v, name, 500000 + len(items)))
    return items


def chunks(items, n):
    n = max(1, min(n, len(items)))
    return [items[i::n] for i in range(n)]


# ----------------------------------------------------------------------------- comparing, shrinking, reporting

FIELDS = ("len", "result", "dtypes", "divisions", "npartitions", "plan", "fused plan")


def differs(ob, b):
    """None, or (first differing field, session value, baseline value, all differing fields).  ob, b: try_ results of observe."""
    if b is None or b[0] == "raise":
        return None                       # the target does not compute alone: nothing to compare with
    if ob[0] == "raise":
        return ("outcome", ob[1], "a result", ["outcome"])
    bad = [f for f in FIELDS if f in b[1] and ob[1].get(f) != b[1][f]]
    if bad:
        return (bad[0], ob[1].get(bad[0]), b[1][bad[0]], bad)
    return None


class Salts:
    def __init__(self, start):
        self.n = start

    def next(self):
        self.n += 1
        return self.n


def shrink(dx, cfg, view_name, history, target, base, salts, budget=40):
    """Greedy removal of history actions, every trial on data with a fresh salt (no name is shared with earlier trials)."""
    def fails(hist):
        obs = play(dx, cfg, view_name, salts.next(), hist + [("observe", target)])
        return obs is not None and differs(obs[-1], base) is not None

    if not fails(history):
        return history, False             # not reproducible on fresh names: it needs the rest of the process history
    # a single earlier action?
    for a in history[::-1][:budget]:
        if fails([a]):
            return [a], True
    cur = history[:]
    i = 0
    while i < len(cur) and budget > 0:
        budget -= 1
        cand = cur[:i] + cur[i + 1:]
        if fails(cand):
            cur = cand
        else:
            i += 1
    return cur, True


def run_sessions(run, dx, sessions, base, **more_stats):
    import time
    t0 = time.time()
    salts = Salts(100)
    shrunk = 0
    stats = {"sessions": 0, "observations": 0, "compared": 0, "baseline_failed": 0, "source_failed": 0, "differences": 0,
             "views": sorted({v for _, v, _ in sessions}), "steps": len(STEPS), "targets": len(TARGETS)}
    reported, found = set(), []
    for cfg, v, actions in sessions:
        salt = salts.next()
        obs = play(dx, cfg, v, salt, actions)
        stats["sessions"] += 1
        targets = [(i, name) for i, (kind, name) in enumerate(actions) if kind == "observe"]
        if obs is None:
            stats["source_failed"] += 1
            for i, name in targets:
                run.count(("shared", triple_key(cfg, v, name), i), nontrivial=False)
            continue
        for (i, name), ob in zip(targets, obs):
            b = base.get(triple_key(cfg, v, name))
            ok = b is not None and b[0] == "ok"
            run.count(("shared", triple_key(cfg, v, name), tuple(actions[:i])), nontrivial=ok and i > 0)
            stats["observations"] += 1
            if not ok:
                stats["baseline_failed"] += 1
                continue
            stats["compared"] += 1
            d = differs(ob, b)
            if d is None:
                continue
            stats["differences"] += 1
            if (v, name) in reported or len(reported) >= 8:
                continue
            reported.add((v, name))
            history, minimal = actions[:i], False
            if shrunk < 4:
                shrunk += 1
                r = try_(lambda: shrink(dx, cfg, v, history, name, b, salts))
                if r[0] == "ok":
                    history, minimal = r[1]
            case = {"kind": "shared-subexpression", "source": cfg, "view": v, "history": [list(a) for a in history], "target": name, "field": d[0], "differing": d[3],
                    "shrunk": minimal, "session": [list(a) for a in actions[:i]], "seed": run.seed}
            found.append((not minimal, "result" not in d[3] and d[0] not in ("len", "outcome"), len(found), "session on shared sub-expressions (source %s, view %s): after %s the %s of target %s is %s; alone in a fresh interpreter it is %s (differing: %s)" % (
                _short_cfg(cfg), v, [a[1] if a[0] == "step" else "observe " + a[1] for a in history], d[0], name, _short(d[1]), _short(d[2]), ", ".join(d[3])), case))
    # the replay file holds the first one: prefer a shrunk history and a wrong result over a different plan
    for f in sorted(found, key=lambda f: f[:3]):
        run.violation(f[3], f[4])
    stats["wall_s"] = round(time.time() - t0, 1)
    stats.update(more_stats)
    run.section("shared-subexpression sessions", **stats)


def _short_cfg(cfg):
    return "index=%s n=%d npartitions=%d sort=%s%s x=%s%s" % (cfg["index"], cfg["n"], cfg["npartitions"], cfg["sort"], " clear_divisions" if cfg.get("clear") else "", cfg["x"],
                                                              " y-nan" if cfg["y_nan"] else "")


def replay_case(dx, case):
    """Re-run a reported case in this process; the baseline is taken first, on data with another salt."""
    cfg, v, name = case["source"], case["view"], case["target"]
    b = play(dx, cfg, v, 900001, [("observe", name)])
    obs = play(dx, cfg, v, 900002, [tuple(a) for a in case["history"]] + [("observe", name)])
    return None if b is None or obs is None else differs(obs[-1], b[0])
