"""C09 family: graphs of groupby plans -- receiver x grouping-key kind x operation route x options x layout.

The grouping keys of a dask-expr groupby are either column labels or Series *expressions* (operands of the groupby
expression).  Every groupby class hands the keys to its chunk / combine / aggregate tasks through hand-written
``*_kwargs`` dictionaries, ``_args`` lists and ``_layer`` methods, so this is where planner objects can leak into tasks
(only labels / key references may appear there).  The family enumerates

    receiver   frame | frame[col] | frame[[cols]] | series
    key kind   one label | several labels | string / categorical labels | a column of the receiver given as a Series | the same
               column taken from the parent frame | derived expressions (arithmetic, comparison, renamed, unnamed, nullable,
               string, categorical, assigned column, index-derived) | label + expression | expression + label | two
               expressions | three keys
    operation  every reduction method (sum ... idxmax, head/tail, cov/corr, nunique, value_counts, unique, median),
               .agg / .aggregate with decomposable, non-decomposable ('median'), mixed, list, dict and custom
               Aggregation specs, and the non-reducing routes (apply, transform, shift, ffill, bfill, cum*, get_group,
               rolling)
    options    split_out, split_every, shuffle_method, sort, dropna, observed
    layout     1 / 3 / 5 partitions, 12 / 24 / 40 rows, with and without missing values (values and keys)
    pairs      two such groupbys over ONE source frame concatenated into one graph

and yields the lowered plan of every case at the stages {unoptimized, optimize(fuse=False), optimize(fuse=True)} (plus the five
optimizer stages in the thorough tier).  The caller certifies each graph exactly like every other graph of C09 (verified
wf_check, conflicting keys, planner-object scan, pickling under 'dask-expr-no-serialize'); `deep_problems` below adds a scan
and a by-value (cloudpickle) serialization that also look inside partials, sets, dict keys, bound methods and closures.

Queries the library refuses (exception at construction or while lowering) are counted and skipped: C09 speaks about the graphs
of the plans that exist.  A case is a small dict; `build(case, dx)` reconstructs the collection from it (./check C09 --replay).
"""
import functools
import random

import numpy as np
import pandas as pd

from e2e import try_, STAGES
import e2e


# ----------------------------------------------------------------------------- data

def make_pdf(nrows, nulls, seed):
    r = random.Random(seed * 7919 + nrows * 31 + (1 if nulls else 0))
    x = [r.randrange(4) for _ in range(nrows)]
    k = [r.choice("abc") for _ in range(nrows)]
    y = [float(r.randrange(20)) for _ in range(nrows)]
    w = [float(r.randrange(3)) for _ in range(nrows)]
    s = [r.choice(["p", "q", "r", "s"]) for _ in range(nrows)]
    if nulls:
        for i in range(nrows):
            if r.random() < 0.2:
                y[i] = np.nan
            if r.random() < 0.2:
                w[i] = np.nan
    return pd.DataFrame({
        "x": np.array(x, dtype="int64"),
        "k": k,
        "kc": pd.Categorical(k, categories=["a", "b", "c", "d"]),
        "y": y,
        "z": np.arange(nrows, dtype="int64"),
        "w": w,
        "s": s,
    })


# ----------------------------------------------------------------------------- grouping keys

# name -> (function (fr, df) of the receiver frame `fr` (numeric columns + the label columns of the key) and of the full frame
#          `df` giving the `by` argument, usable with a Series receiver, extra label columns the receiver frame needs)
KEYS = {
    "label":          (lambda fr, df: "x", False, []),
    "labels":         (lambda fr, df: ["x", "k"], False, ["k"]),
    "label-str":      (lambda fr, df: "k", False, ["k"]),
    "label-cat":      (lambda fr, df: "kc", False, ["kc"]),
    "labels-cat":     (lambda fr, df: ["kc", "x"], False, ["kc"]),
    "column-series":  (lambda fr, df: fr.x, False, []),            # a column of the receiver itself: dask-expr turns it into the label
    "series-of-parent": (lambda fr, df: df.x, True, []),           # the same column taken from the un-projected frame: an expression
    "expr-mod":       (lambda fr, df: df.x % 2, True, []),
    "expr-other-col": (lambda fr, df: (df.z // 7).rename("q"), True, []),
    "expr-bool":      (lambda fr, df: df.z > 5, True, []),           # named like a value column
    "expr-renamed":   (lambda fr, df: (df.x + 1).rename("g"), True, []),
    "expr-nullable":  (lambda fr, df: df.w * 2, True, []),
    "expr-str":       (lambda fr, df: df.k + df.s, True, []),
    "expr-cat":       (lambda fr, df: df.kc, True, []),
    "expr-assign":    (lambda fr, df: df.assign(q=df.x % 3).q, True, []),
    "expr-unnamed":   (lambda fr, df: (df.x % 3).rename(None), True, []),
    "index-series":   (lambda fr, df: df.index.to_series() // 5, True, []),
    "label+expr":     (lambda fr, df: ["k", df.x % 2], False, ["k"]),
    "expr+label":     (lambda fr, df: [(df.z // 7).rename("q"), "x"], False, []),
    "two-exprs":      (lambda fr, df: [df.x % 2, (df.z // 7).rename("q")], True, []),
    "three-keys":     (lambda fr, df: ["x", df.kc, df.z > 5], False, []),
}
LABEL_KEYS = ["label", "labels", "label-str", "label-cat", "labels-cat", "column-series"]
EXPR_KEYS = [k for k in KEYS if k not in LABEL_KEYS]
MULTI_KEYS = ["labels", "labels-cat", "label+expr", "expr+label", "two-exprs", "three-keys"]

RECEIVERS = ["frame", "frame[y]", "frame[[y,z]]", "series"]
VALUE_COLUMNS = ["y", "z", "w"]


def _custom_agg(dx):
    from dask.dataframe.groupby import Aggregation
    return Aggregation("mysum", lambda s: s.sum(), lambda s0: s0.sum())


def _spread(g):
    return g.max() - g.min()


def _demean(g):
    return g - g.mean()


# name -> (callable(groupby object, options dict, dx) -> collection, receivers it applies to, option names it takes,
#          key kinds it is combined with)
_RED = ("split_every", "split_out", "shuffle_method")
_VAL = ["frame[y]", "frame[[y,z]]", "series"]
_FR = ["frame", "frame[[y,z]]"]
OPS = {}


def _method(name, opts=_RED, recv=RECEIVERS, keys=None, **fixed):
    def f(g, o, dx):
        return getattr(g, name)(**fixed, **o)
    OPS[name + ("" if not fixed else "(" + ",".join("%s=%r" % kv for kv in sorted(fixed.items())) + ")")] = (f, recv, opts, keys)


for _n in ("sum", "prod", "min", "max", "first", "last", "count", "size", "mean"):
    _method(_n)
_method("var", opts=("split_every", "split_out"))
_method("std", opts=("split_every", "split_out"))
_method("var", opts=("split_every", "split_out"), ddof=0)
_method("sum", opts=("split_every", "split_out"), min_count=2)
_method("median", opts=("split_every", "split_out", "shuffle_method"))
_method("idxmin", opts=("split_every", "split_out"))
_method("idxmax", opts=("split_every", "split_out"))
_method("head", opts=("split_every", "split_out"), n=2)
_method("tail", opts=("split_every", "split_out"), n=2)
_method("cov", opts=("split_every", "split_out"), recv=["frame[[y,z]]", "frame"])
_method("corr", opts=("split_every", "split_out"), recv=["frame[[y,z]]", "frame"])
_method("nunique", opts=("split_every", "split_out"), recv=["frame[y]", "series"])
_method("value_counts", opts=("split_every", "split_out"), recv=["frame[y]", "series"])
_method("unique", opts=("split_every", "split_out"), recv=["frame[y]", "series"])
_method("cumsum", opts=(), recv=_VAL)
_method("cumprod", opts=(), recv=_VAL)
_method("cumcount", opts=())
_method("ffill", opts=("shuffle_method",), recv=_VAL)
_method("bfill", opts=("shuffle_method",), recv=_VAL)
_method("shift", opts=("shuffle_method",), recv=_VAL, periods=1)


def _agg(tag, spec, recv, how="agg"):
    def f(g, o, dx):
        sp = spec(dx) if callable(spec) and not isinstance(spec, type) else spec
        return getattr(g, how)(sp, **o)
    OPS["%s(%s)" % (how, tag)] = (f, recv, _RED, None)


# decomposable specs (tree reduction of per-function intermediates), non-decomposable ones (anything with 'median': the groups are
# shuffled whole) and mixtures; string / list / dict forms; .agg and its alias .aggregate
_agg("'sum'", "sum", _VAL)
_agg("'median'", "median", _VAL)
_agg("'mean'", "mean", _VAL, how="aggregate")
_agg("['min','max']", ["min", "max"], _VAL)
_agg("['sum','median']", ["sum", "median"], _VAL)
_agg("['std','var','count']", ["std", "var", "count"], _VAL)
_agg("['first','last','size']", ["first", "last", "size"], ["frame[y]", "series"])
_agg("{'y':'sum'}", {"y": "sum"}, _FR)
_agg("{'y':'median'}", {"y": "median"}, _FR, how="aggregate")
_agg("{'y':['median','sum'],'z':'max'}", {"y": ["median", "sum"], "z": "max"}, _FR)
_agg("{'y':['mean','std'],'z':['count','min']}", {"y": ["mean", "std"], "z": ["count", "min"]}, _FR)
_agg("{'y':'prod','z':'median'}", {"y": "prod", "z": "median"}, _FR)
_agg("{'z':list}", {"z": list}, _FR)
_agg("custom Aggregation", _custom_agg, _VAL)
_agg("{'y':custom,'z':'sum'}", lambda dx: {"y": _custom_agg(dx), "z": "sum"}, _FR)

OPS["apply(func)"] = (lambda g, o, dx: g.apply(_spread, meta=o.pop("_meta"), **o), ["frame[y]", "series"], ("shuffle_method",), None)
OPS["apply(lambda)"] = (lambda g, o, dx: g.apply(lambda v, c=2: v.sum() * c, meta=o.pop("_meta"), **o), ["frame[y]", "series"], ("shuffle_method",), None)
OPS["transform(func)"] = (lambda g, o, dx: g.transform(_demean, meta=o.pop("_meta"), **o), ["frame[y]", "series"], ("shuffle_method",), None)
OPS["get_group"] = (lambda g, o, dx: g.get_group(o.pop("_group")), ["frame", "frame[y]", "frame[[y,z]]"], (), None)
# rolling: label keys only.  PRISTINE FINDING (left out of the family, see the report): with an expression key
# (df.groupby(df.x % 2).rolling(2).sum()) the unmodified library embeds the key expression in every _overlap_chunk task
# (groupby_kwargs={'by': [<expr>]}), the graph cannot be pickled under dask-expr-no-serialize and compute() raises
# TypeError "'Mod' object is not callable".
OPS["rolling.sum"] = (lambda g, o, dx: g.rolling(2).sum(), ["frame[[y,z]]", "frame[y]"], (), LABEL_KEYS)

OPTION_VALUES = {
    "split_every": [None, None, 2, 3],
    "split_out": [None, None, 1, 2, 3, True],
    "shuffle_method": [None, None, "tasks", "disk"],
}
GROUPBY_OPTIONS = {
    "sort": [None, None, None, True, False],
    "dropna": [None, None, True, False],
    "observed": [None, None, True, False],
}
# quick tier: one operation (drawn from run.rng) of each group of operations that share their expression class / code path
QUICK_GROUPS = [["sum", "prod"], ["min", "max"], ["first", "last"], ["count", "size"], ["mean"], ["var", "std", "var(ddof=0)"], ["sum(min_count=2)"],
                ["median"], ["idxmin", "idxmax"], ["head(n=2)", "tail(n=2)"], ["cov", "corr"], ["nunique"], ["value_counts", "unique"],
                ["cumsum", "cumprod", "cumcount"], ["ffill", "bfill"], ["shift(periods=1)"],
                ["agg('sum')", "aggregate('mean')"], ["agg('median')"], ["agg(['min','max'])", "agg(['std','var','count'])", "agg(['first','last','size'])"],
                ["agg(['sum','median'])"], ["agg({'y':'sum'})", "agg({'y':['mean','std'],'z':['count','min']})"], ["aggregate({'y':'median'})"],
                ["agg({'y':['median','sum'],'z':'max'})", "agg({'y':'prod','z':'median'})"], ["agg({'z':list})"],
                ["agg(custom Aggregation)", "agg({'y':custom,'z':'sum'})"],
                ["apply(func)", "apply(lambda)"], ["transform(func)"], ["get_group"], ["rolling.sum"]]
GROUP_VALUE = {"label": 1, "label-str": "a", "label-cat": "a", "column-series": 1, "series-of-parent": 1, "expr-mod": 1, "expr-other-col": 1,
               "expr-bool": True, "expr-renamed": 2, "expr-nullable": 2.0, "expr-str": "ap", "expr-cat": "a", "expr-assign": 1, "expr-unnamed": 1,
               "index-series": 1}


# ----------------------------------------------------------------------------- building a case

def build(case, dx):
    """The collection of a case dict (see module docstring)."""
    if case["kind"] == "groupby-family-pair":
        return build_pair(case, dx)
    pdf = make_pdf(case["nrows"], case["nulls"], case["data_seed"])
    df = dx.from_pandas(pdf, npartitions=case["npartitions"])
    keyf, _, extra = KEYS[case["key"]]
    fr = df[["x"] + extra + VALUE_COLUMNS]
    by = keyf(fr, df)
    gkw = {k: v for k, v in case.get("groupby_kwargs", {}).items() if v is not None}
    recv = case["receiver"]
    if recv == "series":
        g = df.y.groupby(by, **gkw)
    else:
        g = fr.groupby(by, **gkw)
        if recv == "frame[y]":
            g = g["y"]
        elif recv == "frame[[y,z]]":
            g = g[["y", "z"]]
    o = {k: v for k, v in case.get("op_kwargs", {}).items() if v is not None}
    op = case["op"]
    if op.startswith("apply") or op.startswith("transform"):
        o["_meta"] = ("y", "f8")
    if op == "get_group":
        o["_group"] = case["group"]
    return OPS[op][0](g, o, dx)


def _part_len(part):
    return pd.Series([len(part)], dtype="int64")


def build_pair(case, dx):
    """Two groupby plans over ONE source frame in one graph (their chunk / shuffle / aggregate layers must not collide).  The results
    have unrelated shapes, so each partition is reduced to its length before the two are concatenated."""
    parts = []
    for c in (case["a"], case["b"]):
        r = build(c, dx)
        if r.ndim == 0:
            raise ValueError("scalar")
        parts.append(r.map_partitions(_part_len, meta=pd.Series([], dtype="int64"), enforce_metadata=False).clear_divisions())
    return dx.concat(parts)


def make_case(rng, op, key, receiver, idx, like=None):
    f, recvs, optnames, _ = OPS[op]
    case = {
        "kind": "groupby-family", "op": op, "key": key, "receiver": receiver,
        "nrows": rng.choice([12, 24, 40]), "nulls": rng.choice([False, True]), "data_seed": idx,
        "npartitions": rng.choice([1, 3, 3, 5]),
        "op_kwargs": {n: rng.choice(OPTION_VALUES[n]) for n in optnames},
        "groupby_kwargs": {n: rng.choice(vs) for n, vs in GROUPBY_OPTIONS.items()},
    }
    if op in ("cov", "corr"):
        # PRISTINE FINDING (left out of the family, see the report): groupby(...).cov() / .corr() of a ONE-partition frame lowers, but
        # building its graph (and compute()) raises ValueError "Expected iterable of tuples of (name, dtype)"
        case["npartitions"] = rng.choice([2, 3, 5])
    if like is not None and not (op in ("cov", "corr") and like["npartitions"] == 1):
        for k in ("nrows", "nulls", "data_seed", "npartitions"):
            case[k] = like[k]
    # PRISTINE FINDINGS (inputs left out of the family, see the report): on the unmodified library
    #  - groupby(...).median(split_every=k) of a frame with fewer than k partitions lowers (sometimes), then raises ZeroDivisionError while
    #    lowering / building the graph (0 output partitions);
    #  - SeriesGroupBy.value_counts(split_out=2 | 3 | True) raises ValueError "No objects to concatenate" while building the graph.
    if op == "median" and (case["op_kwargs"].get("split_every") or 0) > case["npartitions"]:
        case["op_kwargs"]["split_every"] = None
    if op == "value_counts" and case["op_kwargs"].get("split_out") not in (None, 1):
        case["op_kwargs"]["split_out"] = rng.choice([None, 1])
    #  - SeriesGroupBy.unique(split_out=2 | 3 | True) with two or more grouping keys raises ValueError "Length of new names must be 1, got 2"
    #    as soon as its meta is needed (compute(), sometimes while building the graph).
    if op == "unique" and case["op_kwargs"].get("split_out") not in (None, 1) and key in MULTI_KEYS:
        case["op_kwargs"]["split_out"] = rng.choice([None, 1])
    if op == "get_group":
        case["group"] = GROUP_VALUE[key]
    return case


def keys_for(op):
    ks = OPS[op][3]
    ks = list(KEYS) if ks is None else list(ks)
    if op == "get_group":
        ks = [k for k in ks if k in GROUP_VALUE]
    return ks


def receivers_for(op, key):
    recvs = list(OPS[op][1])
    if not KEYS[key][1]:
        recvs = [r for r in recvs if r != "series"]
    return recvs


def tag_of(case):
    if case["kind"] == "groupby-family-pair":
        return "groupby-pair: {%s} ++ {%s}" % (tag_of(case["a"]), tag_of(case["b"]))

    def kv(d):
        return ",".join("%s=%r" % (k, v) for k, v in sorted(d.items()) if v is not None)
    return "groupby:%s by=%s on %s [%s | %s] rows=%d nulls=%s nparts=%d seed=%d" % (
        case["op"], case["key"], case["receiver"], kv(case["op_kwargs"]), kv(case["groupby_kwargs"]), case["nrows"], case["nulls"], case["npartitions"], case["data_seed"])


def _lowered(case, rt, stats):
    """(collection, unoptimized lowered expression) of a case, or None when the library refuses the query (NotImplementedError,
    pandas errors surfaced at construction, unsupported option combination detected while lowering).  C09 speaks about the
    graphs of the plans that exist; refusals are counted, not judged."""
    c = try_(lambda: build(case, rt.dx))
    if c[0] == "raise":
        stats["refused at construction"] += 1
        return None
    un = try_(lambda: c[1].expr.lower_completely())
    if un[0] == "raise":
        stats["refused while lowering"] += 1
        return None
    # the UNOPTIMIZED plan is the reference: when the library cannot even build its graph, the query is one it cannot run at all
    # (meta computation of an unsupported combination ...) -- counted, reported in the evidence, not judged; a failure to build the
    # graph of an OPTIMIZED stage of a query whose unoptimized graph exists is a violation (reported by the caller)
    g = try_(lambda: un[1].__dask_graph__())
    if g[0] == "raise":
        stats["refused while building the unoptimized graph"] += 1
        return None
    return c[1], un[1]


def enumerate_plans(run, rt, quick, stats):
    """(case, collection, unoptimized expression).
    quick: every operation with 1 label key kind and 2 expression key kinds (drawn from run.rng; a refused combination is
    replaced by another draw, at most 6 draws per slot), plus pairs of operations over one source.
    thorough: the full operation x key kind x receiver product (options / layouts drawn from run.rng), plus more pairs."""
    rng = run.rng
    idx = 0
    productive = []
    if quick:
        for group in QUICK_GROUPS:
            op = rng.choice(group)
            allowed = keys_for(op)
            slots = [[k for k in allowed if k in LABEL_KEYS]] + [[k for k in allowed if k in EXPR_KEYS]] * 2
            used = set()
            for pool in slots:
                for attempt in range(6):
                    cand = [k for k in pool if k not in used]
                    if not cand:
                        break
                    key = rng.choice(cand)
                    used.add(key)
                    recvs = receivers_for(op, key)
                    if not recvs:
                        continue
                    idx += 1
                    case = make_case(rng, op, key, rng.choice(recvs), idx)
                    r = _lowered(case, rt, stats)
                    if r is not None:
                        productive.append(case)
                        yield (case,) + r
                        break
    else:
        for op in OPS:
            for key in keys_for(op):
                for recv in receivers_for(op, key):
                    idx += 1
                    case = make_case(rng, op, key, recv, idx)
                    r = _lowered(case, rt, stats)
                    if r is not None:
                        productive.append(case)
                        yield (case,) + r
    # pairs over one source: a productive case + another operation / key on the same data
    npairs, made, attempts = (12, 0, 0) if quick else (150, 0, 0)
    while made < npairs and attempts < 6 * npairs and productive:
        attempts += 1
        a = rng.choice(productive)
        b0 = rng.choice(productive)
        idx += 1
        key = rng.choice([b0["key"], a["key"]] if a["op"] != b0["op"] else [b0["key"]])
        if key not in keys_for(b0["op"]) or b0["receiver"] not in receivers_for(b0["op"], key):
            continue
        b = make_case(rng, b0["op"], key, b0["receiver"], idx, like=a)
        case = {"kind": "groupby-family-pair", "a": a, "b": b}
        r = _lowered(case, rt, stats)
        if r is not None:
            made += 1
            yield (case,) + r


def plans(run, rt, quick):
    """(tag, lowered expression, case dict) for every case x stage."""
    import collections
    stats = collections.Counter()
    for case, coll, un in enumerate_plans(run, rt, quick, stats):
        stats["cases"] += 1
        stats["cases with an expression key"] += int(case["kind"] == "groupby-family" and case["key"] in EXPR_KEYS)
        tag = tag_of(case)
        stages = [("fuse=False", lambda: coll.optimize(fuse=False).expr),
                  ("fuse=True", lambda: coll.optimize(fuse=True).expr)]
        if not quick:
            stages += [(st, (lambda st=st: e2e.stage_expr(coll.expr, st))) for st in STAGES]
        stats["plans"] += 1
        yield (tag + " @unoptimized", un, dict(case, stage="unoptimized"))
        for st, th in stages:
            e = try_(th)
            if e[0] == "ok":
                stats["plans"] += 1
                yield (tag + " @" + st, e[1], dict(case, stage=st))
            else:
                stats["stage fails: " + st] += 1
    run.section("groupby family", **{k.replace(" ", "_").replace(":", ""): v for k, v in stats.items()})


# ----------------------------------------------------------------------------- deeper look into the tasks

def deep_planner_objects(task, out=None, depth=0, seen=None):
    """Planner objects reachable from a task through the containers a task may legitimately hold: tuples, lists, dicts (keys
    and values), sets, partials / curried functions (func, args, keywords), bound methods, closures and function defaults."""
    from dask_expr._core import Expr
    from dask_expr._collection import FrameBase
    if out is None:
        out, seen = [], set()
    if id(task) in seen or depth > 16:
        return out
    seen.add(id(task))
    if isinstance(task, (Expr, FrameBase)):
        out.append(type(task).__name__)
    elif isinstance(task, (tuple, list, set, frozenset)):
        for t in task:
            deep_planner_objects(t, out, depth + 1, seen)
    elif isinstance(task, dict):
        for k, t in task.items():
            deep_planner_objects(k, out, depth + 1, seen)
            deep_planner_objects(t, out, depth + 1, seen)
    elif isinstance(task, functools.partial) or type(task).__name__ == "curry":
        deep_planner_objects(getattr(task, "func", None), out, depth + 1, seen)
        deep_planner_objects(getattr(task, "args", ()), out, depth + 1, seen)
        deep_planner_objects(getattr(task, "keywords", None) or {}, out, depth + 1, seen)
    elif hasattr(task, "__self__") and hasattr(task, "__func__"):
        deep_planner_objects(task.__self__, out, depth + 1, seen)
    elif hasattr(task, "__closure__") and hasattr(task, "__code__"):
        for cell in task.__closure__ or ():
            try:
                deep_planner_objects(cell.cell_contents, out, depth + 1, seen)
            except ValueError:
                pass
        deep_planner_objects(task.__defaults__ or (), out, depth + 1, seen)
        deep_planner_objects(task.__kwdefaults__ or {}, out, depth + 1, seen)
    return out


def deep_problems(graph):
    """Problems of a materialized graph beyond graphs.analyse: planner objects behind partials / sets / closures, and
    serialization BY VALUE (cloudpickle, what a distributed client does) under the flag that forbids serializing expressions."""
    import dask
    problems = []
    for k, t in graph.items():
        po = deep_planner_objects(t)
        if po:
            problems.append("task %r embeds planner object(s) %s" % (k, sorted(set(po))[:3]))
            break
    try:
        import cloudpickle
    except ImportError:
        return problems
    with dask.config.set({"dask-expr-no-serialize": True}):
        try:
            cloudpickle.dumps(dict(graph))
        except RuntimeError as ex:
            if "Serializing" in str(ex):
                problems.append("graph cannot be serialized (cloudpickle) without serializing an expression: %s" % str(ex)[:160])
        except Exception:
            pass      # objects that cannot be pickled for other reasons are not planner objects
    return problems


assert sorted(o for g in QUICK_GROUPS for o in g) == sorted(OPS), sorted(set(OPS) ^ {o for g in QUICK_GROUPS for o in g})
