"""Entry point of every check: ./check Cxx [--tier quick|thorough] [--replay file]."""
import argparse
import importlib
import os
import sys

sys.path.insert(0, os.path.dirname(os.path.abspath(__file__)))
import common


def main():
    ap = argparse.ArgumentParser()
    ap.add_argument("prop", nargs="?")
    ap.add_argument("--tier", default=os.environ.get("VERIF_TIER", "quick"), choices=["quick", "thorough"])
    ap.add_argument("--replay")
    ap.add_argument("--setup", action="store_true")
    a = ap.parse_args()
    if a.setup:
        r = common.build(verbose=True)
        bad = common.gate()
        print("setup: build ok=%s failed=%s gate=%s wall=%.0fs" % (r["ok"], r["failed"], bad or "clean", r["wall_s"]))
        sys.exit(0 if r["ok"] and not bad else 1)
    seed = int(os.environ.get("VERIF_SEED", "0"))
    mod = importlib.import_module(a.prop.lower())
    if a.replay:
        sys.exit(mod.replay(a.replay))
    run = common.Run(a.prop, a.tier, seed)
    try:
        mod.run(run)
    except Exception as e:  # a crashing harness is a broken tie, never a silent pass
        import traceback
        run.broken_tie("harness-exception", traceback.format_exc()[-3000:])
    sys.exit(run.finish())


if __name__ == "__main__":
    main()
