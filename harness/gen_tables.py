"""T-GEN: regenerate coq/Generated*.v from the source tree under $VERIF_REPO (PYTHONPATH).
Fail-closed: any construct the generator does not understand aborts with a non-zero exit."""
import os
import sys

sys.path.insert(0, os.path.dirname(os.path.abspath(__file__)))

def main():
    pass

if __name__ == "__main__":
    main()
