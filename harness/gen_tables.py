"""T-GEN: regenerate coq/GeneratedClassTable.v from the source tree under $VERIF_REPO (PYTHONPATH).
For every Expr subclass: name, name head (how `_name` starts), arity (len(_parameters), variadic flag), MRO-resolved rule
flags, which rewrite/graph methods it defines itself, and -- from the AST -- which module-level mutable globals its
_divisions/_meta/_layer/_task/_lower methods read (with or without a recompute fallback).
Fail-closed: anything the generator does not understand aborts with a non-zero exit."""
import ast
import inspect
import os
import sys
import textwrap

sys.path.insert(0, os.path.dirname(os.path.abspath(__file__)))
OUT = os.path.join(os.path.dirname(os.path.dirname(os.path.abspath(__file__))), "coq", "GeneratedClassTable.v")


def all_subclasses(c):
    out = []
    for s in c.__subclasses__():
        out.append(s)
        out += all_subclasses(s)
    return out


def mutable_globals():
    """Module-level / class-level names bound to mutable containers in dask_expr/** (discovered, not listed)."""
    import dask_expr
    root = os.path.dirname(dask_expr.__file__)
    found = {}
    for dp, dn, fn in os.walk(root):
        if "tests" in dp:
            continue
        for f in fn:
            if not f.endswith(".py"):
                continue
            src = open(os.path.join(dp, f)).read()
            tree = ast.parse(src)
            def scan(body, prefix):
                for node in body:
                    if isinstance(node, ast.Assign) and len(node.targets) == 1 and isinstance(node.targets[0], ast.Name):
                        v = node.value
                        mut = isinstance(v, (ast.Dict, ast.List, ast.Set)) and not (isinstance(v, ast.List) and prefix)  # class-level lists like _parameters are constants
                        if isinstance(v, ast.Call):
                            fnm = v.func.attr if isinstance(v.func, ast.Attribute) else getattr(v.func, "id", "")
                            mut = fnm in ("LRU", "WeakValueDictionary", "WeakKeyDictionary", "WeakSet", "defaultdict", "dict", "set", "list", "OrderedDict",
                                          "deque", "Counter", "ChainMap") or fnm.endswith(("Cache", "LRU", "Dict"))
                        if isinstance(v, ast.Dict) and prefix:
                            mut = False   # class-level dict literals (_defaults ...) are constants by convention
                        if mut and not node.targets[0].id.isupper() or (mut and node.targets[0].id in ("_STATS_CACHE",)):
                            found[prefix + node.targets[0].id] = os.path.relpath(os.path.join(dp, f), root)
                    elif isinstance(node, ast.ClassDef):
                        scan(node.body, prefix + node.name + ".")
                    elif isinstance(node, (ast.FunctionDef, ast.AsyncFunctionDef)):
                        # memo tables: functions memoized for the life of the process
                        for d in node.decorator_list:
                            dn_ = ast.unparse(d.func if isinstance(d, ast.Call) else d)
                            if dn_.split(".")[-1] in ("lru_cache", "cache"):
                                found[prefix + node.name + "@" + dn_.split(".")[-1]] = os.path.relpath(os.path.join(dp, f), root)
            scan(tree.body, "")
    # constants that are never mutated (tables of names) are excluded by hand-review of the discovered list below
    return found


def global_reads(cls, meth, globs):
    """Names of discovered mutable globals read inside cls.meth (own definition only); 'bare' if some read has no fallback."""
    fn = cls.__dict__.get(meth)
    if fn is None:
        return []
    if isinstance(fn, (property,)):
        fn = fn.fget
    if hasattr(fn, "func"):
        fn = fn.func
    if isinstance(fn, (staticmethod, classmethod)):
        fn = fn.__func__
    try:
        src = textwrap.dedent(inspect.getsource(fn))
    except (OSError, TypeError):
        return []
    tree = ast.parse(src)
    names = {g.split(".")[-1]: g for g in globs}
    out = []
    for node in ast.walk(tree):
        if isinstance(node, ast.Name) and node.id in names:
            out.append(names[node.id])
        elif isinstance(node, ast.Attribute) and node.attr in names and "." in names[node.attr]:
            out.append(names[node.attr])
    return sorted(set(out))


def function_global_reads(globs):
    """(file:function, global) for every module-level function of dask_expr/** that mentions a discovered mutable global
    (class methods are covered per class by global_reads; `global x` / nested functions included)."""
    import dask_expr
    root = os.path.dirname(dask_expr.__file__)
    names = {g.split(".")[-1].split("@")[0]: g for g in globs if "@" not in g}
    out = []
    for dp, dn, fn in os.walk(root):
        if "tests" in dp:
            continue
        for f in sorted(fn):
            if not f.endswith(".py"):
                continue
            rel = os.path.relpath(os.path.join(dp, f), root)
            tree = ast.parse(open(os.path.join(dp, f)).read())
            for node in tree.body:
                if isinstance(node, (ast.FunctionDef, ast.AsyncFunctionDef)):
                    for sub in ast.walk(node):
                        if isinstance(sub, ast.Name) and sub.id in names and globs[names[sub.id]] == rel:
                            out.append((rel + ":" + node.name, names[sub.id]))
    return sorted(set(out))


def raw_divisions_calls():
    """(class, method, receiver) for every call `<receiver>._divisions()` in dask_expr/** whose receiver is not self / super():
    `_divisions()` of a partition-filtered expression returns the divisions of the WHOLE source (only the `divisions`
    property applies the selection), so such a call is right only where the unfiltered divisions are wanted."""
    import dask_expr
    root = os.path.dirname(dask_expr.__file__)
    out = []
    for dp, dn, fn in os.walk(root):
        if "tests" in dp:
            continue
        for f in sorted(fn):
            if not f.endswith(".py"):
                continue
            tree = ast.parse(open(os.path.join(dp, f)).read())
            def scan(owner, fnode):
                for node in ast.walk(fnode):
                    if isinstance(node, ast.Call) and isinstance(node.func, ast.Attribute) and node.func.attr == "_divisions":
                        r = ast.unparse(node.func.value)
                        if r not in ("self", "super()"):
                            out.append((owner, fnode.name, r))
            for node in tree.body:
                if isinstance(node, (ast.FunctionDef, ast.AsyncFunctionDef)):
                    scan("<module %s>" % f, node)
            for cls in ast.walk(tree):
                if isinstance(cls, ast.ClassDef):
                    for meth in cls.body:
                        if isinstance(meth, (ast.FunctionDef, ast.AsyncFunctionDef)):
                            scan(cls.name, meth)
    return sorted(set(out))


def head_of(cls):
    from dask.utils import funcname
    from dask_expr._expr import Blockwise
    from dask_expr import _core
    own_name = None
    for k in cls.__mro__:
        if "_name" in k.__dict__:
            own_name = k
            break
    if own_name is _core.Expr:
        return "class:" + funcname(cls).lower()
    if own_name is Blockwise:
        op = inspect.getattr_static(cls, "operation", None)
        if isinstance(op, property):
            return "dynamic:operation"      # the head is the name of a function operand (Chunk.operation = self.chunk)
        op = getattr(cls, "operation", None)
        if op is not None:
            try:
                return "op:" + funcname(op)
            except Exception:
                return "op:?"
        return "class:" + funcname(cls).lower()
    return "custom:" + own_name.__name__


def token_has_class(cls):
    """Does the `_name` implementation this class inherits put the class itself into the tokenized data?  (AST of the owning
    `_name`: a call of _tokenize_deterministic one of whose arguments mentions type(self).)"""
    for k in cls.__mro__:
        if "_name" in k.__dict__:
            fn = k.__dict__["_name"]
            fn = getattr(fn, "func", None) or getattr(fn, "fget", None) or fn
            try:
                tree = ast.parse(textwrap.dedent(inspect.getsource(fn)))
            except (OSError, TypeError):
                return False
            for node in ast.walk(tree):
                if isinstance(node, ast.Call) and getattr(node.func, "id", getattr(node.func, "attr", "")) == "_tokenize_deterministic":
                    for a in node.args:
                        if "type(self)" in ast.unparse(a):
                            return True
            return False
    return False


def coq_str(s):
    return '"' + s.replace('"', "'") + '"'


def main():
    import dask_expr  # noqa
    import dask_expr._cumulative, dask_expr._rolling, dask_expr._groupby, dask_expr._merge, dask_expr._shuffle  # noqa
    import dask_expr._repartition, dask_expr._concat, dask_expr._indexing, dask_expr._quantile, dask_expr._resample  # noqa
    import dask_expr.io.parquet, dask_expr.io.csv, dask_expr.io._delayed, dask_expr.datasets  # noqa
    try:
        import dask_expr._merge_asof, dask_expr._str_accessor, dask_expr._datetime, dask_expr._categorical, dask_expr._accessor, dask_expr._describe  # noqa
    except Exception:
        pass
    from dask_expr import _core
    globs = mutable_globals()
    classes = sorted(set(all_subclasses(_core.Expr)), key=lambda c: (c.__module__, c.__name__))
    lines = ["(* GENERATED by harness/gen_tables.py from the source tree -- do not edit. *)",
             "From Coq Require Import String List Bool.", "Import ListNotations.", "Open Scope string_scope.", "",
             "Record class_info := { c_name : string; c_module : string; c_head : string; c_arity : nat; c_variadic : bool;",
             "  c_filter_passthrough : bool; c_projection_passthrough : bool; c_length_preserving : bool; c_elemwise : bool; c_blockwise : bool;",
             "  c_defines : list string; c_global_reads : list (string * string); c_token_class : bool }.", "",
             "Definition mutable_globals : list (string * string) := ["]
    lines.append(";\n".join("  (%s, %s)" % (coq_str(k), coq_str(v)) for k, v in sorted(globs.items())))
    lines.append("].\n")
    from dask_expr._expr import Blockwise, Elemwise
    rows = []
    for c in classes:
        params = getattr(c, "_parameters", [])
        variadic = c.__name__ in ("Assign", "CaseWhen", "Fused", "Concat", "Aggregate", "MapPartitions") or any(
            "operands[len(self._parameters)" in (inspect.getsource(c) if c.__module__.startswith("dask_expr") else "") for _ in [0])
        try:
            fp = bool(getattr(c, "_filter_passthrough", False)) if not isinstance(inspect.getattr_static(c, "_filter_passthrough", False), property) else False
        except Exception:
            fp = False
        defines = [m for m in ("_simplify_down", "_simplify_up", "_tune_down", "_tune_up", "_lower", "_layer", "_task", "_divisions", "_meta", "_name", "_filter_passthrough_available")
                   if m in c.__dict__]
        reads = []
        for m in ("_divisions", "_meta", "_layer", "_task", "_lower", "npartitions", "_filtered_task", "_divisions_and_locations", "_plan"):
            for g in global_reads(c, m, globs):
                reads.append((m, g))
        rows.append("  {| c_name := %s; c_module := %s; c_head := %s; c_arity := %d; c_variadic := %s;\n     c_filter_passthrough := %s; c_projection_passthrough := %s; c_length_preserving := %s; c_elemwise := %s; c_blockwise := %s;\n     c_defines := [%s]; c_global_reads := [%s]; c_token_class := %s |}" % (
            coq_str(c.__name__), coq_str(c.__module__), coq_str(head_of(c)), len(params), "true" if variadic else "false",
            "true" if fp else "false", "true" if getattr(c, "_projection_passthrough", False) else "false",
            "true" if getattr(c, "_is_length_preserving", False) else "false",
            "true" if issubclass(c, Elemwise) else "false", "true" if issubclass(c, Blockwise) else "false",
            "; ".join(coq_str(d) for d in defines), "; ".join("(%s, %s)" % (coq_str(a), coq_str(b)) for a, b in reads),
            "true" if token_has_class(c) else "false"))
    fgr = function_global_reads(globs)
    lines.append("Definition function_global_reads : list (string * string) := [")
    lines.append(";\n".join("  (%s, %s)" % (coq_str(a), coq_str(b)) for a, b in fgr))
    lines.append("].\n")
    raws = raw_divisions_calls()
    lines.append("Definition raw_divisions_calls : list (string * (string * string)) := [")
    lines.append(";\n".join("  (%s, (%s, %s))" % (coq_str(a), coq_str(b), coq_str(c)) for a, b, c in raws))
    lines.append("].\n")
    lines.append("Definition class_table : list class_info := [")
    lines.append(";\n".join(rows))
    lines.append("].")
    new = "\n".join(lines) + "\n"
    old = open(OUT).read() if os.path.exists(OUT) else None
    if new != old:
        with open(OUT, "w") as f:
            f.write(new)
    print("class table: %d classes, %d mutable globals" % (len(classes), len(globs)))


if __name__ == "__main__":
    main()
