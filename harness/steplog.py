"""T-STEP: log every rewrite-rule call of the real optimizer (monkeypatching, no source change) and
export (parent, result) pairs of the modelled fragment to the plan language of coq/Plan.v, where the
verified checker rule_ok (theorem rule_ok_sound / step_in_context_sound) validates each step."""
import numbers

from common import sx, Some

LOG = []
_installed = False


def install():
    global _installed
    if _installed:
        return
    _installed = True
    from dask_expr import _core

    def all_subclasses(c):
        out = set()
        for s in c.__subclasses__():
            out.add(s)
            out |= all_subclasses(s)
        return out

    classes = all_subclasses(_core.Expr) | {_core.Expr}
    for cls in classes:
        for meth in ("_simplify_up", "_simplify_down", "_lower", "_tune_up", "_tune_down"):
            if meth in cls.__dict__:
                orig = cls.__dict__[meth]
                if getattr(orig, "_verif_wrapped", False) or not callable(orig):
                    continue
                setattr(cls, meth, _wrap(cls, meth, orig))


def _wrap(cls, meth, orig):
    if meth in ("_simplify_up",):
        def w(self, parent, dependents):
            r = orig(self, parent, dependents)
            LOG.append((cls.__name__, meth, self, parent, r))
            return r
    elif meth == "_tune_up":
        def w(self, parent):
            r = orig(self, parent)
            LOG.append((cls.__name__, meth, self, parent, r))
            return r
    else:
        def w(self):
            r = orig(self)
            LOG.append((cls.__name__, meth, self, self, r))
            return r
    w._verif_wrapped = True
    w.__name__ = meth
    return w


class Exporter:
    """Real Expr -> S-expression of coq/Plan.v's expr.  Fail-closed: anything outside the fragment raises OutOfFragment."""

    def __init__(self):
        self.cols = {}
        self.sources = {}
        self.source_frames = {}

    def col(self, c):
        if not isinstance(c, str):
            raise OutOfFragment("non-string label %r" % (c,))
        return self.cols.setdefault(c, len(self.cols))

    def src(self, backend):
        tok = backend._token
        if tok not in self.sources:
            self.sources[tok] = len(self.sources)
            self.source_frames[self.sources[tok]] = backend._data
        return self.sources[tok]

    BOPS = {"Add": "add", "Sub": "sub", "Mul": "mul", "LT": "lt", "LE": "le", "GT": "gt", "GE": "ge", "EQ": "eq", "NE": "ne", "And": "and", "Or": "or"}
    UOPS = {"Neg": "neg", "Abs": "abs", "IsNa": "isna", "NotNull": "notnull", "Invert": "invert"}

    def lit(self, v):
        if isinstance(v, bool) or not isinstance(v, numbers.Integral):
            if isinstance(v, float) and float(v).is_integer():
                return int(v)
            raise OutOfFragment("literal %r" % (v,))
        return int(v)

    def ex(self, e):
        from dask_expr import _expr as E
        from dask_expr import _reductions as R
        from dask_expr.io.io import FromPandas
        n = type(e).__name__
        if type(e) is FromPandas:
            if e.operand("_partitions") is not None:
                raise OutOfFragment("FromPandas with _partitions")
            sid = self.src(e.operand("frame"))
            allc = list(e.operand("frame")._data.columns)
            cols = e.operand("columns")
            cols = allc if cols is None else list(cols)
            if e.operand("_series"):
                return "(srcs %d %d)" % (sid, self.col(cols[0]))
            return "(src %d %s)" % (sid, sx([self.col(c) for c in cols]))
        if type(e) is E.Projection:
            if e.frame.ndim != 2:
                raise OutOfFragment("Projection of a non-frame")
            c = e.operand("columns")
            if isinstance(c, list):
                return "(proj %s %s)" % (self.ex(e.frame), sx([self.col(x) for x in c]))
            return "(projs %s %d)" % (self.ex(e.frame), self.col(c))
        if type(e) is E.Drop:
            col_op = e.operand("columns")
            col_op = col_op if isinstance(col_op, list) else [col_op]
            return "(proj %s %s)" % (self.ex(e.frame), sx([self.col(x) for x in e.frame.columns if x not in col_op]))
        if type(e) is E.Filter:
            return "(filter %s %s)" % (self.ex(e.frame), self.ex(e.predicate))
        if n in self.BOPS and type(e).__mro__[1] is E.Binop:
            l, r = e.left, e.right
            if isinstance(l, E.Expr) and isinstance(r, E.Expr):
                return "(bin %s %s %s)" % (self.BOPS[n], self.ex(l), self.ex(r))
            if isinstance(l, E.Expr):
                return "(binl %s %s %d)" % (self.BOPS[n], self.ex(l), self.lit(r))
            return "(binr %s %d %s)" % (self.BOPS[n], self.lit(l), self.ex(r))
        if n in self.UOPS and type(e) in (E.Neg, E.Abs, E.IsNa, E.NotNull, E.Invert):
            return "(un %s %s)" % (self.UOPS[n], self.ex(e.frame))
        if type(e) is E.Fillna:
            return "(fillna %s %d)" % (self.ex(e.frame), self.lit(e.operand("value")))
        if type(e) is E.Assign:
            if len(e.operands) != 3 or not isinstance(e.operands[2], E.Expr):
                raise OutOfFragment("multi-key Assign")
            return "(assign %s %d %s)" % (self.ex(e.frame), self.col(e.operands[1]), self.ex(e.operands[2]))
        if type(e) is E.RenameFrame:
            m = e.operand("columns")
            if not isinstance(m, dict):
                raise OutOfFragment("rename with callable")
            return "(rename %s %s)" % (self.ex(e.frame), sx([[self.col(a), self.col(b)] for a, b in m.items()]))
        if type(e) is R.Sum and _defaults(e, {"skipna": True, "numeric_only": False, "axis": 0}):
            return "(rsum %s)" % self.ex(e.frame)
        if type(e) is R.Count and _defaults(e, {"numeric_only": False}):
            return "(rcount %s)" % self.ex(e.frame)
        if type(e) is R.Len:
            return "(rlen %s)" % self.ex(e.frame)
        raise OutOfFragment(n)


def _defaults(e, want):
    for k, v in want.items():
        if k in e._parameters and e.operand(k) != v:
            return False
    return True


class OutOfFragment(Exception):
    pass


def export_steps(log, exporter=None):
    """-> list of dicts {rule, parent_class, parent_sx, result_sx, parent, result}; and counters."""
    from dask_expr._core import Expr
    ex = exporter or Exporter()
    out, skipped, declined = [], {}, 0
    for owner, meth, self_, parent, res in log:
        if meth not in ("_simplify_up", "_simplify_down"):
            continue
        if res is None or not isinstance(res, Expr):
            declined += 1
            continue
        if res._name == parent._name:
            declined += 1
            continue
        try:
            p_s = ex.ex(parent)
            r_s = ex.ex(res)
        except OutOfFragment as o:
            k = (owner + "." + meth, type(parent).__name__, str(o))
            skipped[k] = skipped.get(k, 0) + 1
            continue
        out.append({"rule": owner + "." + meth, "parent_class": type(parent).__name__, "parent_sx": p_s, "result_sx": r_s,
                    "parent": parent, "result": res})
    return out, skipped, declined, ex


# rule kinds that the proved schemas of Plan.v cover: a rejection of such a step is a broken correspondence
MUST_ACCEPT = {
    ("Projection._simplify_down", "Projection"),
    ("Drop._simplify_down", "Drop"),
    ("FromPandas._simplify_up", "Projection"),
    ("Filter._simplify_up", "Projection"),
    ("Filter._simplify_up", "Filter"),
    ("Blockwise._simplify_up", "Projection"),
    ("Elemwise._simplify_up", "Projection"),
    ("Binop._simplify_up", "Projection"),
    ("Unaryop._simplify_up", "Projection"),
    ("Assign._simplify_up", "Projection"),
    ("RenameFrame._simplify_up", "Projection"),
}
