"""C16 family "planned under an ambient configuration".

A collection is a value: (type, operands).  Everything the planner reads from the *process* that builds the
query -- the `dask.config` in force when the user called merge / join / shuffle / set_index / sort_values /
groupby.* / drop_duplicates / from_pandas / read_parquet ... -- has to end up in the operands, otherwise the
process that unpickles the collection plans (or reads) something else.

Every case of this family is built, described and pickled INSIDE a `dask.config.set(...)` context of the
originating process (a session that is configured for task based shuffles, for object strings, ...) and is
loaded by a fresh interpreter that has the default configuration.  Oracle = the originating process itself:
name, schema (columns, dtypes, index name/dtype), npartitions, divisions, rows (as a multiset) and -- for the
deterministic task based plans -- the rows in order must be the same on both sides, for the as-built, the
optimized and the lowered form.
"""
import math

import numpy as np
import pandas as pd

from e2e import canon

SHUFFLE = "dataframe.shuffle.method"
STRINGS = "dataframe.convert-string"

HOWS = ("inner", "left", "right", "outer")
BROADCASTS = (None, True, False, 0.9)
# (partitions of the fact side, partitions of the dimension side)
PAIRS = ((6, 2), (18, 2), (3, 3), (4, 1), (2, 5), (1, 3))


# ----------------------------------------------------------------------------------------------------------
# data
# ----------------------------------------------------------------------------------------------------------

def tables(rng):
    """fact: 96 rows, sorted index "i" (known divisions); keys 0..8 as int / string / float-with-NaN column.
    dim: keys 0..6 and 9 (7, 8 are unmatched on the fact side, 9 on the dimension side)."""
    n = 96
    mult = rng.choice([5, 7, 11, 13])
    off = rng.randrange(9)
    k = np.array([(mult * i + off) % 9 for i in range(n)], dtype="int64")
    f = k.astype("float64")
    f[[i for i in range(n) if (i * 7 + off) % 10 == 0]] = np.nan
    fact = pd.DataFrame({
        "k": k,
        "s": ["key%d" % x for x in k],
        "f": f,
        "v": np.arange(n) * 1.5,
        "t": pd.date_range("2022-03-01", periods=n, freq="h"),
    }, index=pd.Index(np.arange(n), name="i"))
    dk = np.array([0, 1, 2, 3, 4, 5, 6, 9], dtype="int64")
    dim = pd.DataFrame({
        "w": dk * 10 + off,
        "s": ["key%d" % x for x in dk],
        "f": [float(x) if x != 3 else np.nan for x in dk],
        "u": ["u%d" % (x % 3) for x in dk],
    }, index=pd.Index(dk, name="k"))
    # a dimension with duplicated keys (many-to-many joins), key as a column
    dup = pd.DataFrame({"k": [i % 5 for i in range(15)], "z": np.arange(15) * 2})
    # frames that share the index "i" with the fact table
    side = pd.DataFrame({"y": np.arange(0, n, 3) * 100}, index=pd.Index(np.arange(0, n, 3), name="i"))
    # missing values in the measure columns / nullable dtypes
    holes = fact.copy()
    holes.loc[holes.index % 5 == 1, "v"] = np.nan
    holes["q"] = pd.array([None if i % 7 == 3 else int(i % 4) for i in range(n)], dtype="Int64")
    return {"fact": fact, "dim": dim, "dimc": dim.reset_index(), "dup": dup, "side": side, "holes": holes,
            "shuffled": fact.iloc[rng.sample(range(n), n)]}


# ----------------------------------------------------------------------------------------------------------
# the operators
# ----------------------------------------------------------------------------------------------------------

def _fp(dx, pdf, n):
    return dx.from_pandas(pdf, npartitions=n, sort=True)


def merge_specs():
    """name -> f(dx, T, nf, nd, how, broadcast) building a merge / join of the fact side (nf partitions) with a dimension (nd partitions)."""
    def kw(how, b):
        d = {"how": how}
        if b is not None:
            d["broadcast"] = b
        return d
    S = {
        # joined on columns of both sides
        "col-col": lambda dx, T, nf, nd, how, b: _fp(dx, T["fact"], nf).merge(_fp(dx, T["dimc"], nd), on="k", **kw(how, b)),
        "col-col-swapped": lambda dx, T, nf, nd, how, b: _fp(dx, T["dimc"], nd).merge(_fp(dx, T["fact"], nf), on="k", **kw(how, b)),
        "col-col-str": lambda dx, T, nf, nd, how, b: _fp(dx, T["fact"], nf).merge(_fp(dx, T["dimc"][["s", "w"]], nd), on="s", **kw(how, b)),
        "col-col-nan": lambda dx, T, nf, nd, how, b: _fp(dx, T["fact"][["f", "v"]], nf).merge(_fp(dx, T["dimc"][["f", "w"]], nd), on="f", **kw(how, b)),
        "col-col-m2m": lambda dx, T, nf, nd, how, b: _fp(dx, T["fact"][["k", "v"]], nf).merge(_fp(dx, T["dup"], nd), on="k", **kw(how, b)),
        "col-col-two": lambda dx, T, nf, nd, how, b: _fp(dx, T["fact"], nf).merge(_fp(dx, T["dimc"][["k", "s", "w"]], nd), on=["k", "s"], **kw(how, b)),
        "col-col-names": lambda dx, T, nf, nd, how, b: _fp(dx, T["fact"], nf).merge(_fp(dx, T["dimc"].rename(columns={"k": "kk"}), nd), left_on="k", right_on="kk",
                                                                                    suffixes=("_l", "_r"), **kw(how, b)),
        "col-col-holes": lambda dx, T, nf, nd, how, b: _fp(dx, T["holes"][["k", "v", "q"]], nf).merge(_fp(dx, T["dimc"][["k", "w"]], nd), on="k", **kw(how, b)),
        # a column of the fact side against the index of the dimension (the fact side's index survives)
        "col-idx": lambda dx, T, nf, nd, how, b: _fp(dx, T["fact"], nf).merge(_fp(dx, T["dim"][["w", "u"]], nd), left_on="k", right_index=True, **kw(how, b)),
        "idx-col": lambda dx, T, nf, nd, how, b: _fp(dx, T["dim"][["w", "u"]], nd).merge(_fp(dx, T["fact"], nf), left_index=True, right_on="k", **kw(how, b)),
        "join-on": lambda dx, T, nf, nd, how, b: _fp(dx, T["fact"], nf).join(_fp(dx, T["dim"][["w"]], nd), on="k", how=how),
        # index against index
        "idx-idx": lambda dx, T, nf, nd, how, b: _fp(dx, T["fact"], nf).merge(_fp(dx, T["side"], nd), left_index=True, right_index=True, **kw(how, b)),
        "join-idx": lambda dx, T, nf, nd, how, b: _fp(dx, T["fact"][["k", "v"]], nf).join(_fp(dx, T["side"], nd), how=how),
        "on-index-name": lambda dx, T, nf, nd, how, b: _fp(dx, T["fact"][["k", "v"]], nf).merge(_fp(dx, T["side"], nd), on="i", **kw(how, b)),
        # the merge is an inner node of the query
        "then-project": lambda dx, T, nf, nd, how, b: _fp(dx, T["fact"], nf).merge(_fp(dx, T["dim"], nd), left_on="k", right_index=True, **kw(how, b))[["v", "w"]],
        "then-filter": lambda dx, T, nf, nd, how, b: (lambda m: m[m.v > 30])(_fp(dx, T["fact"], nf).merge(_fp(dx, T["dimc"], nd), on="k", **kw(how, b))),
        "then-assign": lambda dx, T, nf, nd, how, b: (lambda m: m.assign(r=m.v + m.w))(_fp(dx, T["fact"], nf).merge(_fp(dx, T["dim"][["w"]], nd), left_on="k", right_index=True, **kw(how, b))),
        "then-groupby": lambda dx, T, nf, nd, how, b: _fp(dx, T["fact"], nf).merge(_fp(dx, T["dimc"], nd), on="k", **kw(how, b)).groupby("u").v.sum(),
        "then-merge": lambda dx, T, nf, nd, how, b: _fp(dx, T["fact"][["k", "v"]], nf).merge(_fp(dx, T["dimc"][["k", "w"]], nd), on="k", **kw(how, b))
                                                                                       .merge(_fp(dx, T["dup"], 2), on="k", **kw(how, b)),
        "filtered-inputs": lambda dx, T, nf, nd, how, b: (lambda l, r: l[l.v > 12].merge(r[r.w > 5], left_on="k", right_index=True, **kw(how, b)))(
            _fp(dx, T["fact"], nf), _fp(dx, T["dim"][["w"]], nd)),
    }
    return S


JOIN_SPECS = ("join-on", "join-idx")      # DataFrame.join has no broadcast= argument


def broadcast_eligible(nf, nd, how, b, small_is_right=True):
    """Would a task based planner broadcast the smaller side?  (only used to stratify the sample, never as an oracle)"""
    if min(nf, nd) < 2:
        return False
    small = "right" if (nd < nf) == small_is_right else "left"
    if how not in ("inner", "left", "right") or how == small or b is False:
        return False
    bias = b if isinstance(b, float) else 0.5
    return b is True or min(nf, nd) < math.log2(max(nf, nd)) * bias


def other_ops():
    """name -> (f(dx, T, n) building a query around one shuffling operator, config)"""
    F = lambda dx, T, n: _fp(dx, T["fact"], n)            # noqa: E731
    U = lambda dx, T, n: dx.from_pandas(T["shuffled"], npartitions=n, sort=False)        # noqa: E731  (rows in random order, unknown divisions)
    H = lambda dx, T, n: _fp(dx, T["holes"], n)           # noqa: E731
    O = {
        "shuffle-col": lambda dx, T, n: F(dx, T, n).shuffle("k"),
        "shuffle-col-ignore-index": lambda dx, T, n: F(dx, T, n).shuffle("k", ignore_index=True),
        "shuffle-str-np3": lambda dx, T, n: F(dx, T, n).shuffle("s", npartitions=3),
        "shuffle-two-cols": lambda dx, T, n: F(dx, T, n).shuffle(["k", "s"]),
        "shuffle-nan-key": lambda dx, T, n: F(dx, T, n).shuffle("f"),
        "shuffle-on-index": lambda dx, T, n: F(dx, T, n).shuffle(on_index=True),
        "shuffle-then-project": lambda dx, T, n: F(dx, T, n).shuffle("k")[["v"]],
        "set_index-int": lambda dx, T, n: U(dx, T, n).set_index("k"),
        "set_index-float-np3": lambda dx, T, n: U(dx, T, n).set_index("v", npartitions=3),
        "set_index-str": lambda dx, T, n: U(dx, T, n).set_index("s"),
        "set_index-datetime": lambda dx, T, n: U(dx, T, n).set_index("t"),
        "set_index-divisions": lambda dx, T, n: U(dx, T, n).set_index("k", divisions=[0, 3, 6, 8]),
        "set_index-then-project": lambda dx, T, n: U(dx, T, n).set_index("k")[["v"]],
        "sort_values-int": lambda dx, T, n: U(dx, T, n).sort_values("k"),
        "sort_values-two-desc": lambda dx, T, n: U(dx, T, n).sort_values(["k", "v"], ascending=False),
        "sort_values-nan-first": lambda dx, T, n: U(dx, T, n).sort_values("f", na_position="first"),
        "sort_values-str": lambda dx, T, n: U(dx, T, n).sort_values("s"),
        "groupby-sum-split3": lambda dx, T, n: F(dx, T, n).groupby("k").v.sum(split_out=3),
        "groupby-agg-split2": lambda dx, T, n: H(dx, T, n).groupby("s").agg({"v": "mean", "q": "sum"}, split_out=2),
        "groupby-two-keys-count": lambda dx, T, n: H(dx, T, n).groupby(["k", "s"]).v.count(split_out=2),
        "groupby-nan-key-sum": lambda dx, T, n: F(dx, T, n).groupby("f").v.sum(split_out=2),
        "groupby-median": lambda dx, T, n: H(dx, T, n).groupby("k").v.median(),
        "groupby-nunique": lambda dx, T, n: F(dx, T, n).groupby("k").s.nunique(split_out=2),
        "groupby-value_counts": lambda dx, T, n: F(dx, T, n).groupby("k").s.value_counts(),
        "groupby-apply": lambda dx, T, n: F(dx, T, n)[["k", "v"]].groupby("k").apply(_head1, meta={"v": "float64"}),
        "groupby-transform": lambda dx, T, n: H(dx, T, n)[["k", "v"]].groupby("k").transform(_demean, meta={"v": "float64"}),
        "groupby-shift": lambda dx, T, n: F(dx, T, n)[["k", "v"]].groupby("k").shift(1, meta={"v": "float64"}),
        "groupby-ffill": lambda dx, T, n: H(dx, T, n)[["k", "v"]].groupby("k").ffill(),
        "groupby-cumsum": lambda dx, T, n: F(dx, T, n)[["k", "v"]].groupby("k").cumsum(),
        "drop_duplicates-split2": lambda dx, T, n: F(dx, T, n)[["k", "s"]].drop_duplicates(split_out=2),
        "drop_duplicates-subset": lambda dx, T, n: F(dx, T, n).drop_duplicates(subset=["k"], split_out=3),
        "unique": lambda dx, T, n: F(dx, T, n).s.unique(),
        "nunique-series": lambda dx, T, n: F(dx, T, n).k.nunique(),
        "value_counts-split2": lambda dx, T, n: F(dx, T, n).s.value_counts(split_out=2),
    }
    return O


def _head1(g):
    return g.head(1)


def _demean(g):
    return g - g.mean()


def string_ops(pq_path):
    """Readers whose schema depends on `dataframe.convert-string` of the planning process."""
    return {
        "from_pandas-strings": lambda dx, T, n: _fp(dx, T["fact"][["k", "s"]], n),
        "from_pandas-strings-filter": lambda dx, T, n: (lambda d: d[d.s != "key3"])(_fp(dx, T["fact"][["k", "s", "v"]], n)),
        "from_pandas-string-index": lambda dx, T, n: _fp(dx, T["dimc"].set_index("s").sort_index(), min(n, 3)),
        "from_pandas-strings-groupby": lambda dx, T, n: _fp(dx, T["fact"][["s", "v"]], n).groupby("s").v.sum(),
        "from_pandas-strings-merge": lambda dx, T, n: _fp(dx, T["fact"][["s", "v"]], n).merge(_fp(dx, T["dimc"][["s", "u"]], 2), on="s", shuffle_method="tasks"),
        "read_parquet-strings": lambda dx, T, n: dx.read_parquet(pq_path),
        "read_parquet-strings-columns": lambda dx, T, n: dx.read_parquet(pq_path, columns=["s", "v"]),
        "read_parquet-strings-filter": lambda dx, T, n: (lambda d: d[d.k > 2][["s"]])(dx.read_parquet(pq_path)),
        # read_csv is NOT part of the family: on the unmodified tree ReadCSV does not capture `dataframe.convert-string` (its schema is derived
        # lazily from the configuration of whichever process evaluates it) -- reported as a pristine finding, see the hs_C16 report.
    }


# ----------------------------------------------------------------------------------------------------------
# what both processes observe
# ----------------------------------------------------------------------------------------------------------

def describe(c):
    """Everything the property names, as plain strings (identical code runs in both processes)."""
    res = c.compute()
    m = c._meta
    if isinstance(m, pd.DataFrame):
        schema = ("frame", [(str(k), str(v)) for k, v in m.dtypes.items()], [str(x) for x in m.index.names], str(m.index.dtype))
    elif isinstance(m, pd.Series):
        schema = ("series", str(m.name), str(m.dtype), [str(x) for x in m.index.names], str(m.index.dtype))
    elif isinstance(m, pd.Index):
        schema = ("index", str(m.name), str(m.dtype))
    else:
        schema = ("scalar", type(m).__name__)
    if isinstance(res, pd.DataFrame):
        got = ("frame", [(str(k), str(v)) for k, v in res.dtypes.items()])
    elif isinstance(res, (pd.Series, pd.Index)):
        got = (type(res).__name__, str(res.dtype))
    else:
        got = ("scalar", type(res).__name__)
    return {"name": c.expr._name, "schema": repr(schema), "npartitions": c.npartitions, "divisions": repr(tuple(c.divisions)),
            "result dtypes": repr(got), "result": repr(canon(res, False)), "row order": repr(canon(res, True))}


FIELDS = ("name", "schema", "npartitions", "divisions", "result dtypes", "result", "row order")


def forms(dx):
    return {"built": lambda c: c, "optimized": lambda c: c.optimize(), "lowered": lambda c: dx.new_collection(c.expr.lower_completely())}


# ----------------------------------------------------------------------------------------------------------
# the sample of cases
# ----------------------------------------------------------------------------------------------------------

ALL_FORMS = ("built", "optimized", "lowered")


def _forms(rng, quick, extra=True):
    """quick tier: the as-built form (the one whose planning is still ahead) always, one of the planned forms in addition"""
    if not quick:
        return list(ALL_FORMS)
    return ["built"] + ([rng.choice(ALL_FORMS[1:])] if extra else [])


def plan_cases(rng, quick, pq_path):
    """[case dict]; a case dict is JSON-serialisable and sufficient to rebuild the query (see `thunk_of`)."""
    cases = []
    specs = merge_specs()
    for spec in specs:
        bs = (None,) if spec in JOIN_SPECS else BROADCASTS
        grid = [(how, b, pair) for how in HOWS for b in bs for pair in PAIRS]
        if quick:
            # stratified: per join kind one combination a task based planner would broadcast and (for every other kind) one it would not
            el = [g for g in grid if broadcast_eligible(g[2][0], g[2][1], g[0], g[1], small_is_right=spec not in ("col-col-swapped", "idx-col"))]
            ne = [g for g in grid if g not in el]
            pick = [(rng.choice(el), True)] + ([(rng.choice(ne), False)] if rng.random() < 0.5 else [])
        else:
            pick = [(g, True) for g in rng.sample(grid, 8)]
        for (how, b, (nf, nd)), extra in pick:
            # the ambient configuration: mostly the one that differs from the receiver's default
            for cfg in (["tasks"] if quick else ["tasks", "disk"]):
                cases.append({"family": "merge", "op": spec, "how": how, "broadcast": b, "nfact": nf, "ndim": nd, "config": {SHUFFLE: cfg},
                              "forms": _forms(rng, quick, extra)})
    # the same join kinds, ambient "disk" named explicitly (equals the receiver's default: nothing may change either)
    if quick:
        for spec in rng.sample(sorted(specs), 4):
            how, b, (nf, nd) = rng.choice(HOWS), (None if spec in JOIN_SPECS else rng.choice(BROADCASTS)), rng.choice(PAIRS)
            cases.append({"family": "merge", "op": spec, "how": how, "broadcast": b, "nfact": nf, "ndim": nd, "config": {SHUFFLE: "disk"},
                          "forms": ["built"]})
    others = other_ops()
    for op in others:
        ns = [rng.choice([2, 4, 7])] if quick else [1, 2, 4, 7]
        for n in ns:
            for cfg in (["tasks"] if quick else ["tasks", "disk"]):
                cases.append({"family": "shuffle", "op": op, "n": n, "config": {SHUFFLE: cfg}, "forms": _forms(rng, quick, rng.random() < 0.34)})
    strs = string_ops(pq_path)
    for op in strs:
        for val in ([False] if quick else [False, True]):
            cases.append({"family": "strings", "op": op, "n": rng.choice([2, 5]), "config": {STRINGS: val}, "forms": _forms(rng, quick)})
    return cases


def thunk_of(case, pq_path):
    if case["family"] == "merge":
        f = merge_specs()[case["op"]]
        return lambda dx, T: f(dx, T, case["nfact"], case["ndim"], case["how"], case["broadcast"])
    f = (other_ops() if case["family"] == "shuffle" else string_ops(pq_path))[case["op"]]
    return lambda dx, T: f(dx, T, case["n"])


def case_key(case, form):
    return "ambient|%s|%s|%s|%s" % (case["family"], case["op"], "|".join("%s=%s" % (k, case[k]) for k in sorted(case) if k not in ("family", "op", "config", "forms")),
                                  ",".join("%s=%s" % kv for kv in sorted(case["config"].items()))) + "|" + form


def ordered_is_defined(case):
    """Row order is a function of the plan for the task based shuffle (pure graph, synchronous scheduler); the disk based one appends to
    files in execution order, which may legitimately differ between interpreters."""
    return case["config"].get(SHUFFLE) != "disk"
